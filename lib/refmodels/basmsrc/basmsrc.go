// Package basmsrc generates .basm sources of the supported subset (sections
// with labels and a declared entry point, control flow, macros, mov
// pseudo-instructions, numeric literals in several notations, several CPs
// wired by ioatt) together with their meaning: Eval interprets the source
// constructs directly — a label denotes the instruction that follows it,
// execution starts at the declared entry, a macro call stands for its body,
// each mov form has the effect of the instruction it stands for, a literal
// loads the value it denotes — with the Kahn link semantics of the handshaked
// ports. It is the reference of C05 (and feeds C16).
package basmsrc

import (
	"fmt"
	"strings"

	"veriflib/refmodels/kahn"
	"veriflib/simrt"
)

type Line struct {
	Labels []string
	Op     string // in out rset inc dec clr add cpy j jz call
	A, B   int
	Imm    uint64
	Style  int    // literal notation: 0 decimal, 1 0u, 2 0d, 3 0x, 4 0b
	Pad    int    // leading zeros written in front of the digits (0x and 0b notations)
	Mov    bool   // print through the mov pseudo-instruction where one exists
	Target string // j / jz
	Macro  string // call
}

type Proc struct {
	NIn, NOut, NReg int
	Entry           string
	// SecMode is the iomode written on the %section line ("sync" or "": none; the effective mode of every
	// mov to/from a port is sync: section level first, then the global level)
	SecMode string
	// EntryPos: where the `entry` directive is written: 0 first line of the section (the usual
	// spelling), 1 directly in front of the label it names, 2 last line of the section (after the label)
	EntryPos int
	Lines    []Line
}

type Macro struct {
	Name string
	Body []Line // ALU lines and calls of macros defined earlier; no labels, no jumps
}

type Src struct {
	Rsize  int
	ExtIn  int
	ExtOut int
	Procs  []Proc
	Macros []Macro
	Links  []kahn.Link
	// GlobalMode is the iomode written on the global bmdef line ("", "sync" or "async")
	GlobalMode string
	// features used (for coverage and signatures)
	EntryNotFirst bool
	NestedMacros  bool
	Quirks        bool // shapes the assembler is known to reject: a label directly before a macro call, a macro expanded twice
}

type Options struct {
	MaxCPs        int
	Rsizes        []int
	EntryAnywhere bool // allow the entry label to be another block than the first
	Macros        bool
	NestedMacros  bool
}

func DefaultOptions() Options {
	return Options{MaxCPs: 3, Rsizes: []int{8, 16, 32}, EntryAnywhere: true, Macros: true, NestedMacros: true}
}

func (s *Src) Mask() uint64 {
	if s.Rsize >= 64 {
		return ^uint64(0)
	}
	return (uint64(1) << s.Rsize) - 1
}

var alu = []string{"inc", "dec", "add", "cpy", "rset", "clr"}

func genALU(t *simrt.Tape, nreg int, mask uint64) Line {
	op := alu[t.Draw(len(alu))]
	l := Line{Op: op, A: t.Draw(nreg), B: t.Draw(nreg), Mov: t.Draw(2) == 1}
	if op == "rset" {
		l.Imm = uint64(t.Draw(256))
		l.Style = t.Draw(5)
		// wider values (every byte position of the register) and leading zeros: a literal denotes its value
		// whatever its digit count
		for k, wide := 1, t.Draw(4); k <= wide; k++ {
			l.Imm |= uint64(t.Draw(256)) << (8 * uint(k))
		}
		l.Imm &= mask
		l.Pad = t.Draw(4)
	}
	return l
}

// Generate draws a source. The topology comes from the Kahn generator (a DAG
// of processors with fan-out); the programs are control-flow graphs.
func Generate(t *simrt.Tape, o Options) *Src {
	ko := kahn.DefaultOptions()
	ko.MaxCPs = o.MaxCPs
	ko.Rsizes = o.Rsizes
	net := kahn.Generate(t, ko)
	s := &Src{Rsize: net.Rsize, ExtIn: net.ExtIn, ExtOut: net.ExtOut, Links: net.Links}
	mask := s.Mask()
	if o.Macros {
		nm := t.Draw(3)
		for m := 0; m < nm; m++ {
			mc := Macro{Name: fmt.Sprintf("mac%d", m)}
			for k := 1 + t.Draw(3); k > 0; k-- {
				if o.NestedMacros && m > 0 && t.Draw(4) == 1 {
					mc.Body = append(mc.Body, Line{Op: "call", Macro: fmt.Sprintf("mac%d", t.Draw(m))})
					s.NestedMacros = true
				} else {
					mc.Body = append(mc.Body, genALU(t, 2, mask)) // macros only touch r0, r1: every processor has them
				}
			}
			s.Macros = append(s.Macros, mc)
		}
	}
	quirks := t.Draw(8) == 7
	s.Quirks = quirks
	macroUsed := make([]bool, len(s.Macros))
	for c, cp := range net.CPs {
		p := Proc{NIn: cp.NIn, NOut: cp.NOut, NReg: cp.NReg}
		if p.NReg < 2 {
			p.NReg = 2
		}
		nb := 1 + t.Draw(4)
		label := func(b int) string { return fmt.Sprintf("blk%d_%d", c, b) }
		usedIn, usedOut := make([]bool, p.NIn), make([]bool, p.NOut)
		for b := 0; b < nb; b++ {
			first := true
			add := func(l Line) {
				if l.Op == "in" {
					usedIn[l.B] = true
				}
				if l.Op == "out" {
					usedOut[l.B] = true
				}
				if first && l.Op == "call" && !quirks {
					// a label directly in front of a macro call is lost by the assembler (the source is rejected):
					// keep that shape for the rare "quirks" sources only
					p.Lines = append(p.Lines, Line{Op: "cpy", A: 0, B: 0, Labels: []string{label(b)}})
					first = false
				}
				if first {
					l.Labels = append(l.Labels, label(b))
					if t.Draw(3) == 1 {
						l.Labels = append(l.Labels, label(b)+"_alias")
					}
					first = false
				}
				p.Lines = append(p.Lines, l)
			}
			n := 1 + t.Draw(4)
			for k := 0; k < n; k++ {
				switch r := t.Draw(8); {
				case r == 0 && p.NIn > 0:
					add(Line{Op: "in", A: t.Draw(p.NReg), B: t.Draw(p.NIn), Mov: t.Draw(2) == 1})
				case r <= 2 && p.NOut > 0:
					add(Line{Op: "out", A: t.Draw(p.NReg), B: t.Draw(p.NOut), Mov: t.Draw(2) == 1})
				case r == 3 && len(s.Macros) > 0:
					m := t.Draw(len(s.Macros))
					if macroUsed[m] && !quirks {
						add(genALU(t, p.NReg, mask)) // a macro expanded twice is rejected by the assembler: quirks only
					} else {
						macroUsed[m] = true
						add(Line{Op: "call", Macro: s.Macros[m].Name})
					}
				default:
					add(genALU(t, p.NReg, mask))
				}
			}
			// terminator
			switch r := t.Draw(4); {
			case b == nb-1 || r == 0:
				add(Line{Op: "j", Target: label(t.Draw(nb))})
			case r == 1:
				add(Line{Op: "jz", A: t.Draw(p.NReg), Target: label(t.Draw(nb))})
			}
		}
		// every port is used at least once so that the processor really has it (basm sizes N and M from the code)
		var pre []Line
		for i, u := range usedIn {
			if !u {
				pre = append(pre, Line{Op: "in", A: t.Draw(p.NReg), B: i, Mov: t.Draw(2) == 1})
			}
		}
		for i, u := range usedOut {
			if !u {
				pre = append(pre, Line{Op: "out", A: t.Draw(p.NReg), B: i, Mov: t.Draw(2) == 1})
			}
		}
		if len(pre) > 0 {
			// inserted after the first line of the first block so that its labels stay where they are
			p.Lines = append(p.Lines[:1], append(pre, p.Lines[1:]...)...)
		}
		p.Entry = label(0)
		if o.EntryAnywhere && nb > 1 && t.Draw(3) == 1 {
			p.Entry = label(1 + t.Draw(nb-1))
			s.EntryNotFirst = true
		}
		if o.EntryAnywhere && t.Draw(3) == 1 {
			p.EntryPos = 1 + t.Draw(2)
		}
		s.Procs = append(s.Procs, p)
	}
	// where the I/O mode is declared: on the section (usual), on the global level, or on both — agreeing or
	// not; the innermost declaration decides, and it says sync everywhere
	s.GlobalMode = []string{"", "sync", "async"}[t.Draw(3)]
	for c := range s.Procs {
		s.Procs[c].SecMode = "sync"
		if s.GlobalMode == "sync" && t.Draw(2) == 1 {
			s.Procs[c].SecMode = ""
		}
	}
	return s
}

func lit(l Line) string {
	switch l.Style {
	case 1:
		return fmt.Sprintf("0u%d", l.Imm)
	case 2:
		return fmt.Sprintf("0d%d", l.Imm)
	case 3:
		return fmt.Sprintf("0x%s%x", strings.Repeat("0", l.Pad), l.Imm)
	case 4:
		return fmt.Sprintf("0b%s%b", strings.Repeat("0", l.Pad), l.Imm)
	}
	return fmt.Sprint(l.Imm)
}

func lineBASM(l Line) string {
	switch l.Op {
	case "in":
		if l.Mov {
			return fmt.Sprintf("mov r%d, i%d", l.A, l.B)
		}
		return fmt.Sprintf("i2rw r%d, i%d", l.A, l.B)
	case "out":
		if l.Mov {
			return fmt.Sprintf("mov o%d, r%d", l.B, l.A)
		}
		return fmt.Sprintf("r2owa r%d, o%d", l.A, l.B)
	case "rset":
		// `mov rX, <number>` is ambiguous between rset and the dynamic rsets<N> family unless a chooser
		// option is given to basm, so immediates are always written with rset
		return fmt.Sprintf("rset r%d, %s", l.A, lit(l))
	case "cpy":
		if l.Mov {
			return fmt.Sprintf("mov r%d, r%d", l.A, l.B)
		}
		return fmt.Sprintf("cpy r%d, r%d", l.A, l.B)
	case "inc", "dec", "clr":
		return fmt.Sprintf("%s r%d", l.Op, l.A)
	case "add":
		return fmt.Sprintf("add r%d, r%d", l.A, l.B)
	case "j":
		return "j " + l.Target
	case "jz":
		return fmt.Sprintf("jz r%d, %s", l.A, l.Target)
	case "call":
		return l.Macro
	}
	return "nop"
}

// BASM prints the source.
func (s *Src) BASM() string {
	var b strings.Builder
	for _, m := range s.Macros {
		fmt.Fprintf(&b, "%%macro %s 0\n", m.Name)
		for _, l := range m.Body {
			fmt.Fprintf(&b, "\t%s\n", lineBASM(l))
		}
		fmt.Fprintf(&b, "%%endmacro\n\n")
	}
	for c, p := range s.Procs {
		if p.SecMode != "" {
			fmt.Fprintf(&b, "%%section code%d .romtext iomode:%s\n", c, p.SecMode)
		} else {
			fmt.Fprintf(&b, "%%section code%d .romtext\n", c)
		}
		if p.EntryPos == 0 {
			fmt.Fprintf(&b, "\tentry %s\n", p.Entry)
		}
		for _, l := range p.Lines {
			if p.EntryPos == 1 {
				for _, lb := range l.Labels {
					if lb == p.Entry {
						fmt.Fprintf(&b, "\tentry %s\n", p.Entry)
					}
				}
			}
			for _, lb := range l.Labels {
				fmt.Fprintf(&b, "%s:\n", lb)
			}
			fmt.Fprintf(&b, "\t%s\n", lineBASM(l))
		}
		if p.EntryPos == 2 {
			fmt.Fprintf(&b, "\tentry %s\n", p.Entry)
		}
		fmt.Fprintf(&b, "%%endsection\n\n")
	}
	for c := range s.Procs {
		fmt.Fprintf(&b, "%%meta cpdef cp%d romcode:code%d, execmode:ha\n", c, c)
	}
	ep := func(e kahn.Endpoint, dir string) string {
		if e.CP == -1 {
			return fmt.Sprintf("cp:bm, type:%s, index:%d", dir, e.Idx)
		}
		return fmt.Sprintf("cp:cp%d, type:%s, index:%d", e.CP, dir, e.Idx)
	}
	for i, l := range s.Links {
		for k, d := range l.Dst {
			name := fmt.Sprintf("l%d_%d", i, k)
			if l.Src.CP == -1 {
				fmt.Fprintf(&b, "%%meta ioatt %s %s\n", name, ep(l.Src, "input"))
			} else {
				fmt.Fprintf(&b, "%%meta ioatt %s %s\n", name, ep(l.Src, "output"))
			}
			if d.CP == -1 {
				fmt.Fprintf(&b, "%%meta ioatt %s %s\n", name, ep(d, "output"))
			} else {
				fmt.Fprintf(&b, "%%meta ioatt %s %s\n", name, ep(d, "input"))
			}
		}
	}
	if s.GlobalMode != "" {
		fmt.Fprintf(&b, "%%meta bmdef global registersize:%d, iomode:%s\n", s.Rsize, s.GlobalMode)
	} else {
		fmt.Fprintf(&b, "%%meta bmdef global registersize:%d\n", s.Rsize)
	}
	return b.String()
}

// flat program of one processor after macro expansion
type flat struct {
	ins    []Line
	labels map[string]int
	entry  int
}

func (s *Src) expand(l Line, out *[]Line, depth int) {
	if l.Op != "call" {
		*out = append(*out, l)
		return
	}
	if depth > 8 {
		return
	}
	for _, m := range s.Macros {
		if m.Name == l.Macro {
			for _, bl := range m.Body {
				s.expand(bl, out, depth+1)
			}
		}
	}
}

func (s *Src) flatten(p *Proc) flat {
	f := flat{labels: map[string]int{}}
	for _, l := range p.Lines {
		for _, lb := range l.Labels {
			f.labels[lb] = len(f.ins)
		}
		s.expand(l, &f.ins, 0)
	}
	f.entry = f.labels[p.Entry]
	return f
}

// FlatLen returns the number of real instructions of processor c after macro expansion.
func (s *Src) FlatLen(c int) int { return len(s.flatten(&s.Procs[c]).ins) }

type Trace struct {
	Out      [][]uint64
	Steps    int
	Rounds   int
	Deadlock bool
	OffEnd   bool // a processor ran past the last instruction of its section
}

type linkState struct {
	full  bool
	val   uint64
	taken []bool
}

// Eval interprets the source. ext[k] is the stream offered at external input
// k; evaluation stops after maxRounds rounds (one round lets every processor
// attempt one instruction), when nothing can move, or when a processor runs
// off the end of its section.
func (s *Src) Eval(ext [][]uint64, maxRounds int) Trace {
	mask := s.Mask()
	tr := Trace{Out: make([][]uint64, s.ExtOut)}
	ls := make([]linkState, len(s.Links))
	inLink, outLink, dstIdx := map[[2]int]int{}, map[[2]int]int{}, map[[2]int]int{}
	for i, l := range s.Links {
		ls[i].taken = make([]bool, len(l.Dst))
		if l.Src.CP >= 0 {
			outLink[[2]int{l.Src.CP, l.Src.Idx}] = i
		}
		for k, d := range l.Dst {
			if d.CP >= 0 {
				inLink[[2]int{d.CP, d.Idx}] = i
				dstIdx[[2]int{d.CP, d.Idx}] = k
			}
		}
	}
	extPos := make([]int, s.ExtIn)
	type cpState struct {
		f      flat
		pc     int
		regs   []uint64
		placed bool
		halted bool
	}
	st := make([]cpState, len(s.Procs))
	for c := range st {
		st[c].f = s.flatten(&s.Procs[c])
		st[c].pc = st[c].f.entry
		st[c].regs = make([]uint64, s.Procs[c].NReg)
	}
	for tr.Rounds < maxRounds {
		tr.Rounds++
		progress := false
		for i, l := range s.Links {
			q := &ls[i]
			if l.Src.CP == -1 && !q.full && extPos[l.Src.Idx] < len(ext[l.Src.Idx]) {
				q.full, q.val = true, ext[l.Src.Idx][extPos[l.Src.Idx]]&mask
				extPos[l.Src.Idx]++
				for k := range q.taken {
					q.taken[k] = false
				}
				progress = true
			}
			if q.full {
				all := true
				for k, d := range l.Dst {
					if d.CP == -1 && !q.taken[k] {
						q.taken[k] = true
						tr.Out[d.Idx] = append(tr.Out[d.Idx], q.val)
						progress = true
					}
					if !q.taken[k] {
						all = false
					}
				}
				if all && l.Src.CP == -1 {
					q.full = false
					progress = true
				}
			}
		}
		for c := range s.Procs {
			p := &st[c]
			if p.halted {
				continue
			}
			if p.pc >= len(p.f.ins) {
				p.halted = true
				tr.OffEnd = true
				continue
			}
			in := p.f.ins[p.pc]
			next := p.pc + 1
			adv := false
			switch in.Op {
			case "in":
				li, ok := inLink[[2]int{c, in.B}]
				if !ok {
					break // unconnected input: blocks for ever
				}
				k := dstIdx[[2]int{c, in.B}]
				if ls[li].full && !ls[li].taken[k] {
					ls[li].taken[k] = true
					p.regs[in.A] = ls[li].val
					adv = true
				}
			case "out":
				li, ok := outLink[[2]int{c, in.B}]
				if !ok {
					break
				}
				l := &ls[li]
				if !p.placed {
					l.full, l.val = true, p.regs[in.A]
					for k := range l.taken {
						l.taken[k] = false
					}
					p.placed = true
					progress = true
				}
				all := true
				for k, d := range s.Links[li].Dst {
					if d.CP == -1 && !l.taken[k] {
						l.taken[k] = true
						tr.Out[d.Idx] = append(tr.Out[d.Idx], l.val)
					}
					if !l.taken[k] {
						all = false
					}
				}
				if all {
					l.full = false
					p.placed = false
					adv = true
				}
			case "rset":
				p.regs[in.A] = in.Imm & mask
				adv = true
			case "inc":
				p.regs[in.A] = (p.regs[in.A] + 1) & mask
				adv = true
			case "dec":
				p.regs[in.A] = (p.regs[in.A] - 1) & mask
				adv = true
			case "clr":
				p.regs[in.A] = 0
				adv = true
			case "add":
				p.regs[in.A] = (p.regs[in.A] + p.regs[in.B]) & mask
				adv = true
			case "cpy":
				p.regs[in.A] = p.regs[in.B]
				adv = true
			case "j":
				next = p.f.labels[in.Target]
				adv = true
			case "jz":
				if p.regs[in.A] == 0 {
					next = p.f.labels[in.Target]
				}
				adv = true
			}
			if adv {
				p.pc = next
				tr.Steps++
				progress = true
			}
		}
		if !progress {
			tr.Deadlock = true
			break
		}
	}
	return tr
}

// Features is a short description for coverage keys.
func (s *Src) Features() string {
	var f []string
	if s.EntryNotFirst {
		f = append(f, "entry-not-first")
	}
	if len(s.Macros) > 0 {
		f = append(f, "macros")
	}
	if s.NestedMacros {
		f = append(f, "nested-macros")
	}
	if s.Quirks {
		f = append(f, "quirks")
	}
	return strings.Join(f, ",")
}
