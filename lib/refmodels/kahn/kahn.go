// Package kahn is the reference model for networks of processors that only
// communicate through blocking handshaked ports (i2rw / r2owa): an IR that is
// printed as BASM source (or assembled directly by a harness) and evaluated
// abstractly. Every processor is a Kahn process, so the value streams on all
// links are a function of the external input streams alone — independent of
// relative speeds, stalls and scheduling — which is what makes them usable
// as a timing-free oracle (C02, C04, C05, C09).
package kahn

import (
	"fmt"
	"strings"

	"veriflib/simrt"
)

type Instr struct {
	Op    string // in, out, rset, inc, dec, clr, add, cpy, nop-like ALU only
	A, B  int
	Imm   uint64
	Style int // notation of the immediate in BASM: 0 decimal, 1 0u, 2 0d, 3 0x, 4 0b
}

type CP struct {
	NIn, NOut, NReg int
	Init            []Instr
	Loop            []Instr
	// InPort/OutPort map the local port numbers used by the instructions and links to the port
	// indices written in the source (nil = identity). A hole in the numbering gives the processor a
	// port that no bond is attached to.
	InPort, OutPort []int
}

func (cp *CP) inPort(k int) int {
	if cp.InPort != nil {
		return cp.InPort[k]
	}
	return k
}

func (cp *CP) outPort(k int) int {
	if cp.OutPort != nil {
		return cp.OutPort[k]
	}
	return k
}

// Endpoint: CP == -1 means the BondMachine's own (external) port Idx.
type Endpoint struct{ CP, Idx int }

type Link struct {
	Src Endpoint   // CP output, or external input
	Dst []Endpoint // CP inputs and/or external outputs
}

type Net struct {
	// MovImm prints the immediates with an even value as `mov rX, <imm>` instead of `rset rX, <imm>`
	// (basm accepts that spelling only with dynamical matching disabled or a chooser option)
	MovImm bool
	Rsize  int
	ExtIn  int
	ExtOut int
	CPs    []CP
	Links  []Link
}

func (n *Net) Mask() uint64 {
	if n.Rsize >= 64 {
		return ^uint64(0)
	}
	return (uint64(1) << n.Rsize) - 1
}

// Options steer generation.
type Options struct {
	MaxCPs     int
	MaxExtIn   int
	MaxFanout  int
	ZeroGap    bool // allow back-to-back I/O on the same port (gap 0)
	MinGap     int  // when !ZeroGap: at least this many non-I/O instructions between I/O on the same port
	Rsizes     []int
	Unbalanced bool // allow rate mismatches (may deadlock after a finite prefix)
	PortGaps   bool     // sometimes leave a hole in a processor's port numbering (an unbonded port)
	LitStyles  bool     // draw a notation (decimal, 0u, 0d, 0x, 0b) per immediate
	ExtraOps   []string // further two-register ALU opcodes (printed "op rA, rB"); Eval does not know them
	// PassThrough: an external input may also be bonded straight to an external output (beside its processor consumers)
	PassThrough bool
}

func DefaultOptions() Options {
	return Options{MaxCPs: 4, MaxExtIn: 2, MaxFanout: 3, MinGap: 3, Rsizes: []int{8, 16, 32, 64}}
}

var aluOps = []string{"inc", "dec", "add", "cpy", "rset", "clr"}

func genALU(t *simrt.Tape, nreg int, mask uint64, extra []string, styles ...bool) Instr {
	k := t.Draw(len(aluOps) + 2*len(extra))
	var op string
	if k < len(aluOps) {
		op = aluOps[k]
	} else {
		op = extra[(k-len(aluOps))%len(extra)]
	}
	in := Instr{Op: op, A: t.Draw(nreg), B: t.Draw(nreg)}
	if op == "rset" {
		in.Imm = uint64(t.Draw(256)) & mask
		if len(styles) > 0 && styles[0] {
			in.Style = t.Draw(5)
		}
	}
	return in
}

// Generate draws a network. Topology: CP i reads external inputs and links
// produced by CPs with a lower index (a DAG), every link without consumer
// becomes an external output.
func Generate(t *simrt.Tape, o Options) *Net {
	n := &Net{Rsize: o.Rsizes[t.Draw(len(o.Rsizes))]}
	ncp := 1 + t.Draw(o.MaxCPs)
	n.ExtIn = t.Draw(o.MaxExtIn + 1)
	// external input links first
	for k := 0; k < n.ExtIn; k++ {
		n.Links = append(n.Links, Link{Src: Endpoint{-1, k}})
	}
	for c := 0; c < ncp; c++ {
		cp := CP{NReg: 2 + t.Draw(3)}
		// inputs
		nin := 0
		if len(n.Links) > 0 {
			nin = t.Draw(3)
			if c > 0 && nin == 0 {
				nin = 1
			}
		}
		var myIn []int // link ids
		for k := 0; k < nin; k++ {
			l := t.Draw(len(n.Links))
			// one input per link per CP; bounded fan-out
			dup := len(n.Links[l].Dst) >= o.MaxFanout
			for _, x := range myIn {
				if x == l {
					dup = true
				}
			}
			if dup {
				continue
			}
			n.Links[l].Dst = append(n.Links[l].Dst, Endpoint{c, len(myIn)})
			myIn = append(myIn, l)
		}
		cp.NIn = len(myIn)
		cp.NOut = 1 + t.Draw(2)
		var myOut []int
		for k := 0; k < cp.NOut; k++ {
			n.Links = append(n.Links, Link{Src: Endpoint{c, k}})
			myOut = append(myOut, len(n.Links)-1)
		}
		mask := n.Mask()
		// program
		for k := t.Draw(3); k > 0; k-- {
			cp.Init = append(cp.Init, genALU(t, cp.NReg, mask, o.ExtraOps, o.LitStyles))
		}
		pad := func() {
			k := o.MinGap
			if o.ZeroGap {
				k = 0
			}
			k += t.Draw(3)
			for ; k > 0; k-- {
				cp.Loop = append(cp.Loop, genALU(t, cp.NReg, mask, o.ExtraOps, o.LitStyles))
			}
		}
		reps := 1
		if o.ZeroGap && t.Draw(3) == 1 {
			reps = 2 // the same port twice in a row
		}
		for i := range myIn {
			for r := 0; r < reps; r++ {
				cp.Loop = append(cp.Loop, Instr{Op: "in", A: t.Draw(cp.NReg), B: i})
				pad()
				if o.Unbalanced || reps > 1 {
					// keep rates balanced: a doubled read needs a doubled write upstream, which
					// the generator cannot guarantee; the prefix semantics copes with the rest.
				}
			}
		}
		for i := range myOut {
			for r := 0; r < reps; r++ {
				cp.Loop = append(cp.Loop, Instr{Op: "out", A: t.Draw(cp.NReg), B: i})
				pad()
			}
		}
		if o.PortGaps && t.Draw(3) == 1 {
			if cp.NIn > 0 && t.Draw(2) == 1 {
				hole := t.Draw(cp.NIn + 1)
				for k := 0; k < cp.NIn; k++ {
					p := k
					if k >= hole {
						p++
					}
					cp.InPort = append(cp.InPort, p)
				}
				if hole == cp.NIn {
					cp.InPort = nil // a hole after the last port is no hole
				}
			} else if cp.NOut > 0 {
				hole := t.Draw(cp.NOut)
				for k := 0; k < cp.NOut; k++ {
					p := k
					if k >= hole {
						p++
					}
					cp.OutPort = append(cp.OutPort, p)
				}
			}
		}
		n.CPs = append(n.CPs, cp)
	}
	// dangling links become external outputs; unused external inputs are dropped
	var links []Link
	remap := 0
	for _, l := range n.Links {
		if l.Src.CP == -1 {
			if len(l.Dst) == 0 {
				continue
			}
			l.Src.Idx = remap
			remap++
		}
		if len(l.Dst) == 0 || ((l.Src.CP >= 0 || o.PassThrough) && t.Draw(4) == 1 && len(l.Dst) < o.MaxFanout) {
			l.Dst = append(l.Dst, Endpoint{-1, n.ExtOut})
			n.ExtOut++
		}
		links = append(links, l)
	}
	n.ExtIn = remap
	n.Links = links
	if n.ExtOut == 0 {
		// make the last link observable
		l := &n.Links[len(n.Links)-1]
		l.Dst = append(l.Dst, Endpoint{-1, 0})
		n.ExtOut = 1
	}
	return n
}

// ---- printing -------------------------------------------------------------

func instrBASM(in Instr, useMov bool, cps ...*CP) string {
	ip, op := in.B, in.B
	if len(cps) > 0 {
		if in.Op == "in" {
			ip = cps[0].inPort(in.B)
		}
		if in.Op == "out" {
			op = cps[0].outPort(in.B)
		}
	}
	switch in.Op {
	case "in":
		if useMov {
			return fmt.Sprintf("mov r%d, i%d", in.A, ip)
		}
		return fmt.Sprintf("i2rw r%d, i%d", in.A, ip)
	case "out":
		if useMov {
			return fmt.Sprintf("mov o%d, r%d", op, in.A)
		}
		return fmt.Sprintf("r2owa r%d, o%d", in.A, op)
	case "rset":
		if len(cps) > 1 && in.Imm%2 == 0 {
			return fmt.Sprintf("mov r%d, %d", in.A, in.Imm)
		}
		switch in.Style {
		case 1:
			return fmt.Sprintf("rset r%d, 0u%d", in.A, in.Imm)
		case 2:
			return fmt.Sprintf("rset r%d, 0d%d", in.A, in.Imm)
		case 3:
			return fmt.Sprintf("rset r%d, 0x%x", in.A, in.Imm)
		case 4:
			return fmt.Sprintf("rset r%d, 0b%b", in.A, in.Imm)
		}
		return fmt.Sprintf("rset r%d, %d", in.A, in.Imm)
	case "inc", "dec", "clr":
		return fmt.Sprintf("%s r%d", in.Op, in.A)
	default:
		return fmt.Sprintf("%s r%d, r%d", in.Op, in.A, in.B)
	}
}

// BASM prints the network as a .basm source (sync I/O mode).
func (n *Net) BASM(useMov bool) string {
	var b strings.Builder
	for c, cp := range n.CPs {
		fmt.Fprintf(&b, "%%section code%d .romtext iomode:sync\n\tentry _start\n_start:\n", c)
		cpp := []*CP{&n.CPs[c]}
		if n.MovImm {
			cpp = append(cpp, nil) // marker: print even immediates through mov
		}
		for _, in := range cp.Init {
			fmt.Fprintf(&b, "\t%s\n", instrBASM(in, useMov, cpp...))
		}
		fmt.Fprintf(&b, "_loop:\n")
		for _, in := range cp.Loop {
			fmt.Fprintf(&b, "\t%s\n", instrBASM(in, useMov, cpp...))
		}
		fmt.Fprintf(&b, "\tj _loop\n%%endsection\n\n")
	}
	for c := range n.CPs {
		fmt.Fprintf(&b, "%%meta cpdef cp%d romcode:code%d, execmode:ha\n", c, c)
	}
	ep := func(e Endpoint, dir string) string {
		if e.CP == -1 {
			return fmt.Sprintf("cp:bm, type:%s, index:%d", dir, e.Idx)
		}
		idx := e.Idx
		if dir == "input" {
			idx = n.CPs[e.CP].inPort(e.Idx)
		} else {
			idx = n.CPs[e.CP].outPort(e.Idx)
		}
		return fmt.Sprintf("cp:cp%d, type:%s, index:%d", e.CP, dir, idx)
	}
	// basm pairs the two ioatt lines that carry the same link name, so a link
	// with k consumers is written as k named pairs sharing the producer endpoint.
	for i, l := range n.Links {
		for k, d := range l.Dst {
			name := fmt.Sprintf("l%d_%d", i, k)
			if l.Src.CP == -1 {
				fmt.Fprintf(&b, "%%meta ioatt %s %s\n", name, ep(l.Src, "input"))
			} else {
				fmt.Fprintf(&b, "%%meta ioatt %s %s\n", name, ep(l.Src, "output"))
			}
			if d.CP == -1 {
				fmt.Fprintf(&b, "%%meta ioatt %s %s\n", name, ep(d, "output"))
			} else {
				fmt.Fprintf(&b, "%%meta ioatt %s %s\n", name, ep(d, "input"))
			}
		}
	}
	fmt.Fprintf(&b, "%%meta bmdef global registersize:%d\n", n.Rsize)
	return b.String()
}

// ---- abstract evaluation ---------------------------------------------------

type Trace struct {
	Out       [][]uint64         // per external output: delivered values
	Captured  map[[2]int][]uint64 // (cp, input) -> values captured by that consumer
	Sent      [][]uint64         // per link: values the producer put on it (completed or pending)
	Completed []int              // per link: transfers fully completed (all consumers took the value)
	Deadlock  bool               // evaluation stopped because nothing could move
	LastXfer  []int              // per processor: Steps value at its last completed transfer (-1: none)
	Opaque    bool               // an opcode without model semantics was executed: only the flow is meaningful
	Steps     int
}

type linkState struct {
	full  bool
	val   uint64
	taken []bool
}

// Eval runs the network abstractly: every link is a one-place slot that the
// producer fills and leaves only after every consumer has taken the value;
// consumers proceed as soon as they have taken it. ext[k] is the stream
// offered at external input k (the source stops when it is exhausted).
// Evaluation stops when every external output has delivered maxOut values,
// when nothing can move, or after maxSteps instruction steps.
func (n *Net) Eval(ext [][]uint64, maxOut, maxSteps int) Trace {
	mask := n.Mask()
	tr := Trace{Out: make([][]uint64, n.ExtOut), Captured: map[[2]int][]uint64{}, Sent: make([][]uint64, len(n.Links)), Completed: make([]int, len(n.Links))}
	ls := make([]linkState, len(n.Links))
	inLink := map[[2]int]int{}  // (cp, input) -> link
	outLink := map[[2]int]int{} // (cp, output) -> link
	dstIdx := map[[2]int]int{}
	for i, l := range n.Links {
		ls[i].taken = make([]bool, len(l.Dst))
		if l.Src.CP >= 0 {
			outLink[[2]int{l.Src.CP, l.Src.Idx}] = i
		}
		for k, d := range l.Dst {
			if d.CP >= 0 {
				inLink[[2]int{d.CP, d.Idx}] = i
				dstIdx[[2]int{d.CP, d.Idx}] = k
			}
		}
	}
	extPos := make([]int, n.ExtIn)
	type cpState struct {
		pc     int
		regs   []uint64
		placed bool
	}
	st := make([]cpState, len(n.CPs))
	tr.LastXfer = make([]int, len(n.CPs))
	for c := range st {
		st[c].regs = make([]uint64, n.CPs[c].NReg)
		tr.LastXfer[c] = -1
	}
	enough := func() bool {
		for _, o := range tr.Out {
			if len(o) < maxOut {
				return false
			}
		}
		return true
	}
	for tr.Steps < maxSteps && !enough() {
		progress := false
		// environment: sources fill empty slots, sinks take at once
		for i, l := range n.Links {
			s := &ls[i]
			if l.Src.CP == -1 && !s.full && extPos[l.Src.Idx] < len(ext[l.Src.Idx]) {
				s.full, s.val = true, ext[l.Src.Idx][extPos[l.Src.Idx]]&mask
				extPos[l.Src.Idx]++
				for k := range s.taken {
					s.taken[k] = false
				}
				tr.Sent[i] = append(tr.Sent[i], s.val)
				progress = true
			}
			if s.full {
				all := true
				for k, d := range l.Dst {
					if d.CP == -1 && !s.taken[k] {
						s.taken[k] = true
						tr.Out[d.Idx] = append(tr.Out[d.Idx], s.val)
						progress = true
					}
					if !s.taken[k] {
						all = false
					}
				}
				if all && l.Src.CP == -1 {
					s.full = false
					tr.Completed[i]++
					progress = true
				}
			}
		}
		for c := range n.CPs {
			cp := &n.CPs[c]
			s := &st[c]
			var in Instr
			if s.pc < len(cp.Init) {
				in = cp.Init[s.pc]
			} else {
				if len(cp.Loop) == 0 {
					continue
				}
				in = cp.Loop[(s.pc-len(cp.Init))%len(cp.Loop)]
			}
			adv := false
			switch in.Op {
			case "in":
				li := inLink[[2]int{c, in.B}]
				k := dstIdx[[2]int{c, in.B}]
				if ls[li].full && !ls[li].taken[k] {
					ls[li].taken[k] = true
					s.regs[in.A] = ls[li].val
					tr.Captured[[2]int{c, in.B}] = append(tr.Captured[[2]int{c, in.B}], ls[li].val)
					tr.LastXfer[c] = tr.Steps
					adv = true
				}
			case "out":
				li := outLink[[2]int{c, in.B}]
				l := &ls[li]
				if !s.placed {
					l.full, l.val = true, s.regs[in.A]
					for k := range l.taken {
						l.taken[k] = false
					}
					s.placed = true
					tr.Sent[li] = append(tr.Sent[li], l.val)
					progress = true
				}
				all := true
				for k, d := range n.Links[li].Dst {
					if d.CP == -1 && !l.taken[k] {
						l.taken[k] = true
						tr.Out[d.Idx] = append(tr.Out[d.Idx], l.val)
					}
					if !l.taken[k] {
						all = false
					}
				}
				if all {
					l.full = false
					s.placed = false
					tr.Completed[li]++
					tr.LastXfer[c] = tr.Steps
					adv = true
				}
			case "rset":
				s.regs[in.A] = in.Imm & mask
				adv = true
			case "inc":
				s.regs[in.A] = (s.regs[in.A] + 1) & mask
				adv = true
			case "dec":
				s.regs[in.A] = (s.regs[in.A] - 1) & mask
				adv = true
			case "clr":
				s.regs[in.A] = 0
				adv = true
			case "add":
				s.regs[in.A] = (s.regs[in.A] + s.regs[in.B]) & mask
				adv = true
			case "cpy":
				s.regs[in.A] = s.regs[in.B]
				adv = true
			default:
				// an ALU opcode the model has no semantics for: values are then
				// meaningless, but the flow of transfers (which port fires when) is
				// independent of data in these branch-free programs and stays exact.
				tr.Opaque = true
				adv = true
			}
			if adv {
				s.pc++
				tr.Steps++
				progress = true
			}
		}
		if !progress {
			tr.Deadlock = true
			break
		}
	}
	return tr
}

// IsPrefix reports whether a is a prefix of b.
func IsPrefix(a, b []uint64) bool {
	if len(a) > len(b) {
		return false
	}
	for i := range a {
		if a[i] != b[i] {
			return false
		}
	}
	return true
}

// Describe is a compact human-readable rendering (for samples and traces).
func (n *Net) Describe() string {
	var b strings.Builder
	fmt.Fprintf(&b, "rsize=%d extin=%d extout=%d\n", n.Rsize, n.ExtIn, n.ExtOut)
	for i, l := range n.Links {
		fmt.Fprintf(&b, "link%d %v -> %v\n", i, l.Src, l.Dst)
	}
	for c, cp := range n.CPs {
		fmt.Fprintf(&b, "cp%d:", c)
		for _, in := range cp.Init {
			fmt.Fprintf(&b, " %s;", instrBASM(in, false))
		}
		b.WriteString(" loop:")
		for _, in := range cp.Loop {
			fmt.Fprintf(&b, " %s;", instrBASM(in, false))
		}
		b.WriteString("\n")
	}
	return b.String()
}
