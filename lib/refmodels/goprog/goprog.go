// Package goprog generates programs of the Go subset accepted by bondgo from
// an IR that is both printed as Go source and evaluated directly with
// wrap-around at the register size (the reference semantics of C12).
package goprog

import (
	"fmt"
	"strings"

	"veriflib/simrt"
)

type Expr struct {
	Kind string // lit, var, add, mul
	Lit  uint64
	Var  int
	L, R *Expr
}

type Stmt struct {
	Kind string // assign, inc, dec, if, write, shadow (a bare block that re-declares variable Var and runs Then)
	Var  int
	Out  int
	E    *Expr
	A, B *Expr // if A == B
	Then []Stmt
	Else []Stmt
}

type Var struct {
	Name string
	Reg  bool
}

type Program struct {
	Rsize   int
	Outputs []int // global index given to bondgo.Make, per local output
	Vars    []Var
	Init    []Stmt
	Loop    []Stmt
	UsesEq  bool
}

type gen struct {
	t      *simrt.Tape
	p      *Program
	shadow bool
	nest   int
}

// expr draws an expression. bondgo has no parenthesised expressions, so only
// shapes that print without parentheses are generated: a product never has a
// sum as operand (+ and * are associative modulo 2^n, so the flat printing
// denotes the same value as the tree).
func (g *gen) expr(depth int) *Expr { return g.exprK(depth, true) }

func (g *gen) exprK(depth int, allowAdd bool) *Expr {
	k := g.t.Draw(4)
	if depth <= 0 && k >= 2 {
		k = g.t.Draw(2)
	}
	if k == 2 && !allowAdd {
		k = 3
	}
	switch k {
	case 0:
		return &Expr{Kind: "lit", Lit: uint64(g.t.Draw(200))}
	case 1:
		return &Expr{Kind: "var", Var: g.t.Draw(len(g.p.Vars))}
	case 2:
		return &Expr{Kind: "add", L: g.exprK(depth-1, true), R: g.exprK(depth-1, true)}
	default:
		return &Expr{Kind: "mul", L: g.exprK(depth-1, false), R: g.exprK(depth-1, false)}
	}
}

func (g *gen) stmts(n, depth int, inLoop bool) []Stmt {
	var out []Stmt
	for i := 0; i < n; i++ {
		k := g.t.Draw(8)
		switch {
		case k <= 2:
			out = append(out, Stmt{Kind: "assign", Var: g.t.Draw(len(g.p.Vars)), E: g.expr(2)})
		case k == 3:
			out = append(out, Stmt{Kind: "inc", Var: g.t.Draw(len(g.p.Vars))})
		case k == 4:
			out = append(out, Stmt{Kind: "dec", Var: g.t.Draw(len(g.p.Vars))})
		case k == 6 && g.shadow && depth >= 0 && g.nest < 2:
			// a nested block that declares a variable with the name of an outer one (legal Go shadowing)
			g.nest++
			s := Stmt{Kind: "shadow", Var: g.t.Draw(len(g.p.Vars))}
			s.Then = g.stmts(1+g.t.Draw(3), depth-1, inLoop)
			g.nest--
			out = append(out, s)
		case k == 5 && depth > 0:
			s := Stmt{Kind: "if", A: g.expr(1), B: g.expr(1)}
			s.Then = g.stmts(1+g.t.Draw(2), depth-1, inLoop)
			if g.t.Draw(2) == 1 {
				s.Else = g.stmts(1+g.t.Draw(2), depth-1, inLoop)
			}
			g.p.UsesEq = true
			out = append(out, s)
		default:
			out = append(out, Stmt{Kind: "write", Out: g.t.Draw(len(g.p.Outputs)), E: g.expr(2)})
		}
	}
	return out
}

// Generate draws a program from the tape. An exhausted (all-zero) tape gives
// the smallest program.
func Generate(t *simrt.Tape) *Program {
	p := &Program{Rsize: []int{8, 16, 32, 64}[t.Draw(4)]}
	nout := 1 + t.Draw(2)
	for i := 0; i < nout; i++ {
		p.Outputs = append(p.Outputs, 1+i+t.Draw(3)*2)
	}
	// mode 0: register variables only and no conditionals, the subset whose
	// lowering (rset clr cpy add mult inc dec r2o j) the repository's ISA
	// simulator implements, so the semantic oracle applies; mode 1: anything.
	free := t.Draw(2) == 1
	nv := 1 + t.Draw(4)
	for i := 0; i < nv; i++ {
		v := Var{Name: fmt.Sprintf("v%d", i), Reg: !free || t.Draw(3) == 1}
		if v.Reg {
			v.Name = "reg_" + v.Name
		}
		p.Vars = append(p.Vars, v)
	}
	g := &gen{t: t, p: p}
	g.shadow = t.Draw(3) == 1
	withIf := free && t.Draw(2) == 1
	depth := 0
	if withIf {
		depth = 2
	}
	p.Init = g.stmts(t.Draw(4), depth, false)
	p.Loop = g.stmts(1+t.Draw(5), depth, true)
	// make sure the loop writes something
	p.Loop = append(p.Loop, Stmt{Kind: "write", Out: 0, E: &Expr{Kind: "var", Var: 0}})
	return p
}

func (p *Program) typ() string { return fmt.Sprintf("uint%d", p.Rsize) }

func (p *Program) exprSrc(e *Expr) string {
	switch e.Kind {
	case "lit":
		return fmt.Sprint(e.Lit)
	case "var":
		return p.Vars[e.Var].Name
	case "add":
		return p.exprSrc(e.L) + " + " + p.exprSrc(e.R)
	default:
		return p.exprSrc(e.L) + " * " + p.exprSrc(e.R)
	}
}

func (p *Program) stmtsSrc(b *strings.Builder, ss []Stmt, ind string) {
	for _, s := range ss {
		switch s.Kind {
		case "assign":
			fmt.Fprintf(b, "%s%s = %s\n", ind, p.Vars[s.Var].Name, p.exprSrc(s.E))
		case "inc":
			fmt.Fprintf(b, "%s%s++\n", ind, p.Vars[s.Var].Name)
		case "dec":
			fmt.Fprintf(b, "%s%s--\n", ind, p.Vars[s.Var].Name)
		case "write":
			fmt.Fprintf(b, "%sbondgo.IOWrite(out%d, %s)\n", ind, s.Out, p.exprSrc(s.E))
		case "shadow":
			fmt.Fprintf(b, "%s{\n%s\tvar %s %s\n", ind, ind, p.Vars[s.Var].Name, p.typ())
			p.stmtsSrc(b, s.Then, ind+"\t")
			fmt.Fprintf(b, "%s}\n", ind)
		case "if":
			fmt.Fprintf(b, "%sif %s == %s {\n", ind, p.exprSrc(s.A), p.exprSrc(s.B))
			p.stmtsSrc(b, s.Then, ind+"\t")
			if s.Else != nil {
				fmt.Fprintf(b, "%s} else {\n", ind)
				p.stmtsSrc(b, s.Else, ind+"\t")
			}
			fmt.Fprintf(b, "%s}\n", ind)
		}
	}
}

// Source prints the program as Go source for bondgo.
func (p *Program) Source() string {
	var b strings.Builder
	b.WriteString("package main\n\nimport \"bondgo\"\n\nfunc main() {\n")
	for i := range p.Outputs {
		fmt.Fprintf(&b, "\tvar out%d bondgo.Output\n", i)
	}
	for _, v := range p.Vars {
		fmt.Fprintf(&b, "\tvar %s %s\n", v.Name, p.typ())
	}
	for i, o := range p.Outputs {
		fmt.Fprintf(&b, "\tout%d = bondgo.Make(bondgo.Output, %d)\n", i, o)
	}
	p.stmtsSrc(&b, p.Init, "\t")
	b.WriteString("\tfor {\n")
	p.stmtsSrc(&b, p.Loop, "\t\t")
	b.WriteString("\t}\n}\n")
	return b.String()
}

type evalState struct {
	p     *Program
	mask  uint64
	vars  []uint64
	out   [][2]uint64
	steps int
}

func (s *evalState) expr(e *Expr) uint64 {
	switch e.Kind {
	case "lit":
		return e.Lit & s.mask
	case "var":
		return s.vars[e.Var]
	case "add":
		return (s.expr(e.L) + s.expr(e.R)) & s.mask
	default:
		return (s.expr(e.L) * s.expr(e.R)) & s.mask
	}
}

func (s *evalState) run(ss []Stmt, n int) {
	for _, st := range ss {
		if len(s.out) >= n {
			return
		}
		s.steps++
		switch st.Kind {
		case "assign":
			s.vars[st.Var] = s.expr(st.E)
		case "inc":
			s.vars[st.Var] = (s.vars[st.Var] + 1) & s.mask
		case "dec":
			s.vars[st.Var] = (s.vars[st.Var] - 1) & s.mask
		case "write":
			s.out = append(s.out, [2]uint64{uint64(st.Out), s.expr(st.E)})
		case "shadow":
			outer := s.vars[st.Var]
			s.vars[st.Var] = 0 // the inner variable starts at its zero value
			s.run(st.Then, n)
			s.vars[st.Var] = outer
		case "if":
			if s.expr(st.A) == s.expr(st.B) {
				s.run(st.Then, n)
			} else {
				s.run(st.Else, n)
			}
		}
	}
}

// Eval returns the first n (local output index, value) writes under Go
// semantics with wrap-around at the register size (the second result is
// always true; which executor can run the emitted machine is the harness's
// business: see RegsOnly and UsesEq).
func (p *Program) Eval(n int, maxSteps int) ([][2]uint64, bool) {
	s := &evalState{p: p, vars: make([]uint64, len(p.Vars))}
	if p.Rsize == 64 {
		s.mask = ^uint64(0)
	} else {
		s.mask = (uint64(1) << p.Rsize) - 1
	}
	s.run(p.Init, n)
	for len(s.out) < n && s.steps < maxSteps {
		s.run(p.Loop, n)
	}
	return s.out, true
}

// RegsOnly reports whether every variable is a register variable (memory
// variables are lowered to r2m/m2r, which only the hardware implements).
func (p *Program) RegsOnly() bool {
	for _, v := range p.Vars {
		if !v.Reg {
			return false
		}
	}
	return true
}
