// Package goprog generates programs of the Go subset accepted by bondgo from
// an IR that is both printed as Go source and evaluated directly with
// wrap-around at the register size (the reference semantics of C12).
package goprog

import (
	"fmt"
	"strings"

	"veriflib/simrt"
)

type Expr struct {
	Kind string // lit, var, add, mul, call, read (bondgo.IORead of input Var)
	Lit  uint64
	Var  int
	L, R *Expr
	Fn   int     // call: index of the callee in Program.Funcs
	Args []*Expr // call: one per parameter
}

type Stmt struct {
	Kind string // assign, inc, dec, if, write, shadow (a bare block that re-declares variable Var and runs Then), for, break, continue
	Var  int
	Out  int
	E    *Expr
	A, B *Expr // if A == B ; for: condition A == B (nil: none)
	Then []Stmt
	Else []Stmt
	// for: `for Var = E; A == B; Var<Post> { Then }`; E nil: no init clause, Post "": no post statement
	Post string
	// rpc: send E to the first worker of chain Chain, receive the answer of its last worker into Var
	Chain int
	// if: optional simple statement in front of the condition (`if v = e; a == b {`): assign, inc or dec
	Init *Stmt
}

type Var struct {
	Name string
	Reg  bool
}

// Func is a function of the program: NParams register-sized parameters, the
// remaining Vars are locals; the body ends with the only `return Ret`.
type Func struct {
	Name    string
	NParams int
	Vars    []Var
	Body    []Stmt
	Ret     *Expr
}

// Worker is a function started with `go` on a processor of its own: an endless loop that receives a value
// from its input channel into Vars[0], runs Body and sends Out on its output channel. Vars[1..NVal] are
// by-value parameters (initialised from the literals Vals at the go statement), the rest are locals
// declared in front of the loop (they keep their value from one round to the next).
type Worker struct {
	Name string
	Vars []Var
	NVal int
	Vals []uint64
	Body []Stmt
	Out  *Expr
	// IO registers of the worker's own processor, written once per round with the value it sends on:
	// Link: an output wired by global id to an input of main (a processor-to-processor bond; main reads it into
	// a variable nothing else uses, the value seen there depends on timing); ExtOut: an external output.
	// When both exist the link is declared first.
	Link, ExtOut bool
}

type Program struct {
	Rsize   int
	Outputs []int // global index given to bondgo.Make, per local output
	Inputs  []int // the same for inputs (main only); InVals: the constant value the environment holds on each
	InVals  []uint64
	Vars    []Var
	Funcs   []Func
	Workers []Worker
	Chains  [][]int // each chain lists worker indices: main -> w -> w ... -> main over unbuffered channels
	// Nested[c]: the workers of chain c are not all started by main: main starts the first one, every worker
	// declares the channel to its successor itself and starts it before entering its loop
	Nested []bool
	// ChanDeclRev: main declares its channel variables in the reverse of the order it hands them to the workers
	ChanDeclRev bool
	Init    []Stmt
	Loop    []Stmt
	UsesEq  bool
	// features present (for counters and signatures)
	HasFor, HasBreak, HasContinue, HasCall, HasShadow bool
	HasGo, HasGoValArgs, HasChanBlock, HasIfInit      bool
	HasWorkerIO                                       bool
	// ChanBlockFirst: main starts with a block that declares (and releases) a channel before the channels
	// handed to the workers are declared
	ChanBlockFirst bool
}

type gen struct {
	t       *simrt.Tape
	p       *Program
	shadow  bool
	withFor bool
	nest    int
	// current context
	vars   []Var
	nout   int // outputs writable here (0 inside functions)
	ncall  int // functions 0..ncall-1 may be called here
	budget int // calls left in this program (inlining multiplies code size)
	nchain int // worker chains reachable here (main only)
	nin    int // inputs readable here (main only)
}

// expr draws an expression. bondgo has no parenthesised expressions, so only
// shapes that print without parentheses are generated: a product never has a
// sum as operand (+ and * are associative modulo 2^n, so the flat printing
// denotes the same value as the tree).
func (g *gen) expr(depth int) *Expr { return g.exprK(depth, true) }

func (g *gen) exprK(depth int, allowAdd bool) *Expr {
	k := g.t.Draw(4)
	if depth <= 0 && k >= 2 {
		k = g.t.Draw(2)
	}
	if k == 2 && !allowAdd {
		k = 3
	}
	if g.ncall > 0 && g.budget > 0 && depth > 0 && g.t.Draw(4) == 1 {
		g.budget--
		f := g.t.Draw(g.ncall)
		e := &Expr{Kind: "call", Fn: f}
		for i := 0; i < g.p.Funcs[f].NParams; i++ {
			e.Args = append(e.Args, g.exprK(depth-1, true))
		}
		g.p.HasCall = true
		return e
	}
	if g.nin > 0 && g.t.Draw(5) == 1 {
		return &Expr{Kind: "read", Var: g.t.Draw(g.nin)}
	}
	switch k {
	case 0:
		return &Expr{Kind: "lit", Lit: uint64(g.t.Draw(200))}
	case 1:
		return &Expr{Kind: "var", Var: g.t.Draw(len(g.vars))}
	case 2:
		return &Expr{Kind: "add", L: g.exprK(depth-1, true), R: g.exprK(depth-1, true)}
	default:
		return &Expr{Kind: "mul", L: g.exprK(depth-1, false), R: g.exprK(depth-1, false)}
	}
}

func (g *gen) forStmt(depth int) Stmt {
	s := Stmt{Kind: "for", Var: g.t.Draw(len(g.vars))}
	g.p.HasFor = true
	g.p.UsesEq = true
	shape := g.t.Draw(4)
	// 0: for v = E; ; v++ { ...; if v == lit { break } }   1: for v = E; v == X; v++ {...}
	// 2: for { ... if ... { break } }                        3: for ; A == B; { ... } with a post-less header
	switch shape {
	case 0, 1:
		s.E = g.expr(1)
		s.Post = []string{"inc", "dec"}[g.t.Draw(2)]
	case 3:
		if g.t.Draw(2) == 1 {
			s.Post = []string{"inc", "dec"}[g.t.Draw(2)]
		}
	}
	if shape == 1 || shape == 3 {
		s.A = &Expr{Kind: "var", Var: s.Var}
		if g.t.Draw(2) == 1 {
			s.A = g.expr(0)
		}
		s.B = g.expr(1)
	}
	g.nest++
	s.Then = g.stmts(1+g.t.Draw(3), depth-1, true)
	g.nest--
	if shape == 0 || shape == 2 {
		// the exit: `if v == <small distance away> { break }` somewhere in the body
		br := Stmt{Kind: "if", A: &Expr{Kind: "var", Var: s.Var}, B: &Expr{Kind: "lit", Lit: uint64(g.t.Draw(6))}, Then: []Stmt{{Kind: "break"}}}
		if g.t.Draw(3) == 1 {
			br.B = g.expr(1)
		}
		g.p.HasBreak = true
		at := g.t.Draw(len(s.Then) + 1)
		s.Then = append(s.Then[:at:at], append([]Stmt{br}, s.Then[at:]...)...)
		if shape == 2 {
			// something must move towards the exit
			s.Then = append(s.Then, Stmt{Kind: []string{"inc", "dec"}[g.t.Draw(2)], Var: s.Var})
		}
	}
	return s
}

func (g *gen) stmts(n, depth int, inLoop bool) []Stmt {
	var out []Stmt
	for i := 0; i < n; i++ {
		if g.nchain > 0 && g.t.Draw(4) == 1 {
			if g.nest < 2 && g.t.Draw(5) == 1 {
				// a block with a channel variable of its own (released where the block ends)
				g.nest++
				out = append(out, Stmt{Kind: "chanblock", Then: g.stmts(g.t.Draw(3), depth-1, inLoop)})
				g.nest--
				g.p.HasChanBlock = true
				continue
			}
			// (the value of a send is not drawn from the inputs: bondgo refuses `ch <- bondgo.IORead(in)` with an
			// error — the send statement's operands are walked a second time as statements)
			nin := g.nin
			g.nin = 0
			out = append(out, Stmt{Kind: "rpc", Chain: g.t.Draw(g.nchain), E: g.expr(1), Var: g.t.Draw(len(g.vars))})
			g.nin = nin
			continue
		}
		k := g.t.Draw(8)
		switch {
		case k <= 2:
			out = append(out, Stmt{Kind: "assign", Var: g.t.Draw(len(g.vars)), E: g.expr(2)})
		case k == 3:
			out = append(out, Stmt{Kind: "inc", Var: g.t.Draw(len(g.vars))})
		case k == 4:
			out = append(out, Stmt{Kind: "dec", Var: g.t.Draw(len(g.vars))})
		case k == 6 && g.shadow && depth >= 0 && g.nest < 2:
			// a nested block that declares a variable with the name of an outer one (legal Go shadowing)
			g.nest++
			s := Stmt{Kind: "shadow", Var: g.t.Draw(len(g.vars))}
			s.Then = g.stmts(1+g.t.Draw(3), depth-1, inLoop)
			g.nest--
			g.p.HasShadow = true
			out = append(out, s)
		case k == 5 && depth > 0:
			s := Stmt{Kind: "if", A: g.expr(1), B: g.expr(1)}
			if g.t.Draw(4) == 1 {
				in := Stmt{Kind: []string{"assign", "inc", "dec"}[g.t.Draw(3)], Var: g.t.Draw(len(g.vars))}
				if in.Kind == "assign" {
					in.E = g.expr(1)
				}
				s.Init = &in
				g.p.HasIfInit = true
			}
			s.Then = g.stmts(1+g.t.Draw(2), depth-1, inLoop)
			if g.t.Draw(2) == 1 {
				s.Else = g.stmts(1+g.t.Draw(2), depth-1, inLoop)
			}
			g.p.UsesEq = true
			out = append(out, s)
		case k == 7 && g.withFor && depth > 0 && g.nest < 2:
			out = append(out, g.forStmt(depth))
		case k == 6 && g.withFor && g.nest > 0 && inLoop && depth >= 0:
			// break / continue of the innermost generated `for` (never of the program's outer loop:
			// leaving it would end the program)
			if g.t.Draw(2) == 0 {
				g.p.HasBreak = true
				out = append(out, Stmt{Kind: "break"})
			} else {
				g.p.HasContinue = true
				out = append(out, Stmt{Kind: "continue"})
			}
		default:
			if g.nout == 0 {
				out = append(out, Stmt{Kind: "assign", Var: g.t.Draw(len(g.vars)), E: g.expr(1)})
			} else {
				out = append(out, Stmt{Kind: "write", Out: g.t.Draw(g.nout), E: g.expr(2)})
			}
		}
	}
	return out
}

// Generate draws a program from the tape. An exhausted (all-zero) tape gives
// the smallest program.
func Generate(t *simrt.Tape) *Program {
	p := &Program{Rsize: []int{8, 16, 32, 64}[t.Draw(4)]}
	nout := 1 + t.Draw(2)
	for i := 0; i < nout; i++ {
		p.Outputs = append(p.Outputs, 1+i+t.Draw(3)*2)
	}
	// mode 0: register variables only and no conditionals, the subset whose
	// lowering (rset clr cpy add mult inc dec r2o j) the repository's ISA
	// simulator implements, so the semantic oracle applies; mode 1: anything.
	free := t.Draw(3) != 0
	nv := 1 + t.Draw(4)
	for i := 0; i < nv; i++ {
		v := Var{Name: fmt.Sprintf("v%d", i), Reg: !free || t.Draw(3) == 1}
		if v.Reg {
			v.Name = "reg_" + v.Name
		}
		p.Vars = append(p.Vars, v)
	}
	g := &gen{t: t, p: p}
	g.shadow = t.Draw(3) == 1
	withIf := free && t.Draw(3) != 0
	depth := 0
	if withIf {
		depth = 2
	}
	// control flow beyond if: inner for loops with break/continue (they need `==`)
	g.withFor = withIf && t.Draw(3) != 0
	// functions (inlined by the compiler), callable from expressions
	nf := 0
	if t.Draw(3) == 1 {
		nf = 1 + t.Draw(2)
	}
	g.budget = 3
	for f := 0; f < nf; f++ {
		fn := Func{Name: fmt.Sprintf("f%d", f), NParams: 1 + t.Draw(2)}
		for i := 0; i < fn.NParams; i++ {
			fn.Vars = append(fn.Vars, Var{Name: fmt.Sprintf("reg_p%d", i), Reg: true})
		}
		nl := t.Draw(3)
		for i := 0; i < nl; i++ {
			v := Var{Name: fmt.Sprintf("t%d", i), Reg: !free || t.Draw(2) == 1}
			if v.Reg {
				v.Name = "reg_" + v.Name
			}
			fn.Vars = append(fn.Vars, v)
		}
		g.vars, g.nout, g.ncall = fn.Vars, 0, f
		fn.Body = g.stmts(t.Draw(4), depth, false)
		fn.Ret = g.expr(2)
		p.Funcs = append(p.Funcs, fn)
	}
	// goroutines: workers on processors of their own, connected in chains by channels
	nw := 0
	if t.Draw(3) == 1 {
		nw = 1 + t.Draw(3)
	}
	for w := 0; w < nw; w++ {
		wk := Worker{Name: fmt.Sprintf("w%d", w)}
		wk.Vars = append(wk.Vars, Var{Name: "reg_x", Reg: true})
		if free && t.Draw(2) == 1 {
			wk.Vars[0] = Var{Name: "x"}
		}
		if t.Draw(3) == 1 {
			wk.NVal = 1 + t.Draw(2)
			p.HasGoValArgs = true
		}
		for i := 0; i < wk.NVal; i++ {
			wk.Vars = append(wk.Vars, Var{Name: fmt.Sprintf("reg_k%d", i), Reg: true})
			wk.Vals = append(wk.Vals, uint64(1+t.Draw(9)))
		}
		nl := t.Draw(3)
		for i := 0; i < nl; i++ {
			v := Var{Name: fmt.Sprintf("s%d", i), Reg: !free || t.Draw(2) == 1}
			if v.Reg {
				v.Name = "reg_" + v.Name
			}
			wk.Vars = append(wk.Vars, v)
		}
		g.vars, g.nout, g.ncall = wk.Vars, 0, nf
		wk.Body = g.stmts(t.Draw(4), depth, false)
		wk.Out = g.expr(2)
		if t.Draw(4) == 1 {
			wk.Link = true
			p.HasWorkerIO = true
		}
		if t.Draw(3) == 1 {
			wk.ExtOut = true
			p.HasWorkerIO = true
		}
		p.Workers = append(p.Workers, wk)
		p.HasGo = true
		if w == 0 || t.Draw(2) == 1 {
			p.Chains = append(p.Chains, []int{w})
		} else {
			p.Chains[len(p.Chains)-1] = append(p.Chains[len(p.Chains)-1], w)
		}
	}
	for range p.Chains {
		p.Nested = append(p.Nested, t.Draw(3) == 1)
	}
	if nw > 0 && t.Draw(3) == 1 {
		p.ChanDeclRev = true
	}
	if nw > 0 && t.Draw(4) == 1 {
		p.ChanBlockFirst = true
		p.HasChanBlock = true
	}
	// inputs (read with bondgo.IORead; the environment holds a constant on each)
	if t.Draw(3) == 1 {
		for i, n := 0, 1+t.Draw(2); i < n; i++ {
			p.Inputs = append(p.Inputs, 10+i+t.Draw(3)*2)
			p.InVals = append(p.InVals, uint64(1+t.Draw(250)))
		}
	}
	g.nin = len(p.Inputs)
	g.vars, g.nout, g.ncall, g.nchain = p.Vars, len(p.Outputs), nf, len(p.Chains)
	p.Init = g.stmts(t.Draw(4), depth, false)
	p.Loop = g.stmts(1+t.Draw(5), depth, false)
	// every declared input is read at least once (a processor with an input port and no opcode that serves
	// it does not elaborate: C18's matter, not the compiler's)
	for i := range p.Inputs {
		p.Init = append(p.Init, Stmt{Kind: "assign", Var: t.Draw(len(p.Vars)), E: &Expr{Kind: "read", Var: i}})
	}
	// every chain is exercised
	for c := range p.Chains {
		p.Loop = append(p.Loop, Stmt{Kind: "rpc", Chain: c, E: &Expr{Kind: "var", Var: 0}, Var: t.Draw(len(p.Vars))})
	}
	// make sure the loop writes something
	p.Loop = append(p.Loop, Stmt{Kind: "write", Out: 0, E: &Expr{Kind: "var", Var: 0}})
	return p
}

func (p *Program) typ() string { return fmt.Sprintf("uint%d", p.Rsize) }

func (p *Program) exprSrc(vars []Var, e *Expr) string {
	switch e.Kind {
	case "lit":
		return fmt.Sprint(e.Lit)
	case "var":
		return vars[e.Var].Name
	case "add":
		return p.exprSrc(vars, e.L) + " + " + p.exprSrc(vars, e.R)
	case "read":
		return fmt.Sprintf("bondgo.IORead(in%d)", e.Var)
	case "call":
		var a []string
		for _, x := range e.Args {
			a = append(a, p.exprSrc(vars, x))
		}
		return p.Funcs[e.Fn].Name + "(" + strings.Join(a, ", ") + ")"
	default:
		return p.exprSrc(vars, e.L) + " * " + p.exprSrc(vars, e.R)
	}
}

func (p *Program) stmtsSrc(b *strings.Builder, vars []Var, ss []Stmt, ind string) {
	for _, s := range ss {
		switch s.Kind {
		case "assign":
			fmt.Fprintf(b, "%s%s = %s\n", ind, vars[s.Var].Name, p.exprSrc(vars, s.E))
		case "inc":
			fmt.Fprintf(b, "%s%s++\n", ind, vars[s.Var].Name)
		case "dec":
			fmt.Fprintf(b, "%s%s--\n", ind, vars[s.Var].Name)
		case "write":
			fmt.Fprintf(b, "%sbondgo.IOWrite(out%d, %s)\n", ind, s.Out, p.exprSrc(vars, s.E))
		case "rpc":
			ch := p.Chains[s.Chain]
			fmt.Fprintf(b, "%sc%d_0 <- %s\n", ind, s.Chain, p.exprSrc(vars, s.E))
			fmt.Fprintf(b, "%s%s = <-c%d_%d\n", ind, vars[s.Var].Name, s.Chain, len(ch))
		case "break":
			fmt.Fprintf(b, "%sbreak\n", ind)
		case "continue":
			fmt.Fprintf(b, "%scontinue\n", ind)
		case "chanblock":
			fmt.Fprintf(b, "%s{\n%s\tvar tc chan %s\n", ind, ind, p.typ())
			p.stmtsSrc(b, vars, s.Then, ind+"\t")
			fmt.Fprintf(b, "%s}\n", ind)
		case "shadow":
			fmt.Fprintf(b, "%s{\n%s\tvar %s %s\n", ind, ind, vars[s.Var].Name, p.typ())
			p.stmtsSrc(b, vars, s.Then, ind+"\t")
			fmt.Fprintf(b, "%s}\n", ind)
		case "if":
			init := ""
			if s.Init != nil {
				switch s.Init.Kind {
				case "assign":
					init = fmt.Sprintf("%s = %s; ", vars[s.Init.Var].Name, p.exprSrc(vars, s.Init.E))
				case "inc":
					init = vars[s.Init.Var].Name + "++; "
				case "dec":
					init = vars[s.Init.Var].Name + "--; "
				}
			}
			fmt.Fprintf(b, "%sif %s%s == %s {\n", ind, init, p.exprSrc(vars, s.A), p.exprSrc(vars, s.B))
			p.stmtsSrc(b, vars, s.Then, ind+"\t")
			if s.Else != nil {
				fmt.Fprintf(b, "%s} else {\n", ind)
				p.stmtsSrc(b, vars, s.Else, ind+"\t")
			}
			fmt.Fprintf(b, "%s}\n", ind)
		case "for":
			hdr := ""
			if s.E != nil || s.A != nil || s.Post != "" {
				if s.E != nil {
					hdr = fmt.Sprintf("%s = %s", vars[s.Var].Name, p.exprSrc(vars, s.E))
				}
				hdr += ";"
				if s.A != nil {
					hdr += fmt.Sprintf(" %s == %s", p.exprSrc(vars, s.A), p.exprSrc(vars, s.B))
				}
				hdr += ";"
				switch s.Post {
				case "inc":
					hdr += " " + vars[s.Var].Name + "++"
				case "dec":
					hdr += " " + vars[s.Var].Name + "--"
				}
				hdr += " "
			}
			fmt.Fprintf(b, "%sfor %s{\n", ind, hdr)
			p.stmtsSrc(b, vars, s.Then, ind+"\t")
			fmt.Fprintf(b, "%s}\n", ind)
		}
	}
}

// Source prints the program as Go source for bondgo.
func (p *Program) Source() string {
	var b strings.Builder
	b.WriteString("package main\n\nimport \"bondgo\"\n\n")
	for _, f := range p.Funcs {
		var ps []string
		for i := 0; i < f.NParams; i++ {
			ps = append(ps, f.Vars[i].Name+" "+p.typ())
		}
		fmt.Fprintf(&b, "func %s(%s) %s {\n", f.Name, strings.Join(ps, ", "), p.typ())
		for _, v := range f.Vars[f.NParams:] {
			fmt.Fprintf(&b, "\tvar %s %s\n", v.Name, p.typ())
		}
		p.stmtsSrc(&b, f.Vars, f.Body, "\t")
		fmt.Fprintf(&b, "\treturn %s\n}\n\n", p.exprSrc(f.Vars, f.Ret))
	}
	// successor started by the worker itself (nested chains)
	next := map[int]int{}
	for c, ch := range p.Chains {
		if p.Nested[c] {
			for k := 0; k+1 < len(ch); k++ {
				next[ch[k]] = ch[k+1]
			}
		}
	}
	goArgs := func(w int, cin, cout string) string {
		args := []string{cin, cout}
		for _, v := range p.Workers[w].Vals {
			args = append(args, fmt.Sprint(v))
		}
		return strings.Join(args, ", ")
	}
	for wi, w := range p.Workers {
		ps := []string{"cin chan " + p.typ(), "cout chan " + p.typ()}
		for i := 1; i <= w.NVal; i++ {
			ps = append(ps, w.Vars[i].Name+" "+p.typ())
		}
		fmt.Fprintf(&b, "func %s(%s) {\n", w.Name, strings.Join(ps, ", "))
		sendTo := "cout"
		if nx, ok := next[wi]; ok {
			fmt.Fprintf(&b, "\tvar mid chan %s\n", p.typ())
			sendTo = "mid"
			_ = nx
		}
		fmt.Fprintf(&b, "\tvar %s %s\n", w.Vars[0].Name, p.typ())
		for _, v := range w.Vars[1+w.NVal:] {
			fmt.Fprintf(&b, "\tvar %s %s\n", v.Name, p.typ())
		}
		if w.Link {
			fmt.Fprintf(&b, "\tvar wlink bondgo.Output\n")
		}
		if w.ExtOut {
			fmt.Fprintf(&b, "\tvar wout bondgo.Output\n")
		}
		if w.Link {
			fmt.Fprintf(&b, "\twlink = bondgo.Make(bondgo.Output, %d)\n", 30+wi)
		}
		if w.ExtOut {
			fmt.Fprintf(&b, "\twout = bondgo.Make(bondgo.Output, %d)\n", 20+wi)
		}
		if nx, ok := next[wi]; ok {
			fmt.Fprintf(&b, "\tgo %s(%s)\n", p.Workers[nx].Name, goArgs(nx, "mid", "cout"))
		}
		fmt.Fprintf(&b, "\tfor {\n\t\t%s = <-cin\n", w.Vars[0].Name)
		p.stmtsSrc(&b, w.Vars, w.Body, "\t\t")
		if w.Link {
			fmt.Fprintf(&b, "\t\tbondgo.IOWrite(wlink, %s)\n", p.exprSrc(w.Vars, w.Out))
		}
		if w.ExtOut {
			fmt.Fprintf(&b, "\t\tbondgo.IOWrite(wout, %s)\n", p.exprSrc(w.Vars, w.Out))
		}
		fmt.Fprintf(&b, "\t\t%s <- %s\n\t}\n}\n\n", sendTo, p.exprSrc(w.Vars, w.Out))
	}
	b.WriteString("func main() {\n")
	for i := range p.Outputs {
		fmt.Fprintf(&b, "\tvar out%d bondgo.Output\n", i)
	}
	for i := range p.Inputs {
		fmt.Fprintf(&b, "\tvar in%d bondgo.Input\n", i)
	}
	anyLink := false
	for wi, w := range p.Workers {
		if w.Link {
			fmt.Fprintf(&b, "\tvar lin%d bondgo.Input\n", wi)
			anyLink = true
		}
	}
	if anyLink {
		fmt.Fprintf(&b, "\tvar reg_sink %s\n", p.typ())
	}
	if p.ChanBlockFirst {
		fmt.Fprintf(&b, "\t{\n\t\tvar tc chan %s\n\t}\n", p.typ())
	}
	var chdecl []string
	for c, ch := range p.Chains {
		for k := 0; k <= len(ch); k++ {
			if p.Nested[c] && k != 0 && k != len(ch) {
				continue // declared by the worker that starts its successor
			}
			chdecl = append(chdecl, fmt.Sprintf("\tvar c%d_%d chan %s\n", c, k, p.typ()))
		}
	}
	for i := range chdecl {
		if p.ChanDeclRev {
			b.WriteString(chdecl[len(chdecl)-1-i])
		} else {
			b.WriteString(chdecl[i])
		}
	}
	for _, v := range p.Vars {
		fmt.Fprintf(&b, "\tvar %s %s\n", v.Name, p.typ())
	}
	for i, o := range p.Outputs {
		fmt.Fprintf(&b, "\tout%d = bondgo.Make(bondgo.Output, %d)\n", i, o)
	}
	for i, o := range p.Inputs {
		fmt.Fprintf(&b, "\tin%d = bondgo.Make(bondgo.Input, %d)\n", i, o)
	}
	for wi, w := range p.Workers {
		if w.Link {
			fmt.Fprintf(&b, "\tlin%d = bondgo.Make(bondgo.Input, %d)\n\treg_sink = bondgo.IORead(lin%d)\n", wi, 30+wi, wi)
		}
	}
	for c, ch := range p.Chains {
		if p.Nested[c] {
			fmt.Fprintf(&b, "\tgo %s(%s)\n", p.Workers[ch[0]].Name, goArgs(ch[0], fmt.Sprintf("c%d_0", c), fmt.Sprintf("c%d_%d", c, len(ch))))
			continue
		}
		for k, w := range ch {
			fmt.Fprintf(&b, "\tgo %s(%s)\n", p.Workers[w].Name, goArgs(w, fmt.Sprintf("c%d_%d", c, k), fmt.Sprintf("c%d_%d", c, k+1)))
		}
	}
	p.stmtsSrc(&b, p.Vars, p.Init, "\t")
	b.WriteString("\tfor {\n")
	p.stmtsSrc(&b, p.Vars, p.Loop, "\t\t")
	b.WriteString("\t}\n}\n")
	return b.String()
}

const (
	sigNone = iota
	sigBreak
	sigContinue
	sigStop // enough writes or out of steps
)

type evalState struct {
	wout     [][]uint64 // per worker: values written to its external output
	frames   [][]uint64 // persistent variables of each worker
	p        *Program
	mask     uint64
	vars     []uint64
	out      [][2]uint64
	n        int
	steps    int
	maxSteps int
}

func (s *evalState) expr(e *Expr) uint64 {
	switch e.Kind {
	case "lit":
		return e.Lit & s.mask
	case "var":
		return s.vars[e.Var]
	case "read":
		return s.p.InVals[e.Var] & s.mask
	case "add":
		return (s.expr(e.L) + s.expr(e.R)) & s.mask
	case "call":
		f := &s.p.Funcs[e.Fn]
		frame := make([]uint64, len(f.Vars))
		for i, a := range e.Args {
			frame[i] = s.expr(a)
		}
		saved := s.vars
		s.vars = frame
		s.run(f.Body)
		v := s.expr(f.Ret)
		s.vars = saved
		return v
	default:
		return (s.expr(e.L) * s.expr(e.R)) & s.mask
	}
}

func (s *evalState) run(ss []Stmt) int {
	for _, st := range ss {
		if len(s.out) >= s.n || s.steps >= s.maxSteps {
			return sigStop
		}
		s.steps++
		switch st.Kind {
		case "assign":
			s.vars[st.Var] = s.expr(st.E)
		case "inc":
			s.vars[st.Var] = (s.vars[st.Var] + 1) & s.mask
		case "dec":
			s.vars[st.Var] = (s.vars[st.Var] - 1) & s.mask
		case "write":
			v := s.expr(st.E)
			if s.steps >= s.maxSteps {
				return sigStop // a callee may have been cut short: the value is not meaningful
			}
			s.out = append(s.out, [2]uint64{uint64(st.Out), v})
		case "rpc":
			v := s.expr(st.E)
			saved := s.vars
			for _, w := range s.p.Chains[st.Chain] {
				wk := &s.p.Workers[w]
				s.vars = s.frames[w]
				s.vars[0] = v
				if s.run(wk.Body) == sigStop {
					s.vars = saved
					return sigStop
				}
				v = s.expr(wk.Out)
				if wk.ExtOut && len(s.wout[w]) < s.n {
					s.wout[w] = append(s.wout[w], v)
				}
			}
			s.vars = saved
			s.vars[st.Var] = v
		case "break":
			return sigBreak
		case "continue":
			return sigContinue
		case "chanblock":
			if sig := s.run(st.Then); sig != sigNone {
				return sig
			}
		case "shadow":
			outer := s.vars[st.Var]
			s.vars[st.Var] = 0 // the inner variable starts at its zero value
			sig := s.run(st.Then)
			s.vars[st.Var] = outer
			if sig != sigNone {
				return sig
			}
		case "if":
			var sig int
			if st.Init != nil {
				s.run([]Stmt{*st.Init})
			}
			if s.expr(st.A) == s.expr(st.B) {
				sig = s.run(st.Then)
			} else {
				sig = s.run(st.Else)
			}
			if sig != sigNone {
				return sig
			}
		case "for":
			if st.E != nil {
				s.vars[st.Var] = s.expr(st.E)
			}
			for {
				if s.steps >= s.maxSteps {
					return sigStop
				}
				s.steps++
				if st.A != nil && s.expr(st.A) != s.expr(st.B) {
					break
				}
				sig := s.run(st.Then)
				if sig == sigStop {
					return sigStop
				}
				if sig == sigBreak {
					break
				}
				switch st.Post {
				case "inc":
					s.vars[st.Var] = (s.vars[st.Var] + 1) & s.mask
				case "dec":
					s.vars[st.Var] = (s.vars[st.Var] - 1) & s.mask
				}
			}
		}
	}
	return sigNone
}

// Eval returns the first n (local output index, value) writes under Go
// semantics with wrap-around at the register size. The second result tells
// whether n writes were reached within maxSteps executed statements (a
// program may legitimately spin in an inner loop for ever; then the writes
// so far are returned).
func (p *Program) newEval(n int, maxSteps int) *evalState {
	s := &evalState{p: p, vars: make([]uint64, len(p.Vars)), n: n, maxSteps: maxSteps}
	if p.Rsize == 64 {
		s.mask = ^uint64(0)
	} else {
		s.mask = (uint64(1) << p.Rsize) - 1
	}
	for _, w := range p.Workers {
		f := make([]uint64, len(w.Vars))
		for i, v := range w.Vals {
			f[1+i] = v & s.mask
		}
		s.frames = append(s.frames, f)
		s.wout = append(s.wout, nil)
	}
	return s
}

func (s *evalState) runProgram() {
	s.run(s.p.Init)
	for len(s.out) < s.n && s.steps < s.maxSteps {
		s.run(s.p.Loop)
	}
}

func (p *Program) Eval(n int, maxSteps int) ([][2]uint64, bool) {
	s := p.newEval(n, maxSteps)
	s.runProgram()
	return s.out, len(s.out) >= n
}

// EvalAll is Eval plus, per worker, the values it writes to its external output (one per round it serves).
func (p *Program) EvalAll(n int, maxSteps int) ([][2]uint64, [][]uint64, bool) {
	s := p.newEval(n, maxSteps)
	s.runProgram()
	return s.out, s.wout, len(s.out) >= n
}

// RegsOnly reports whether every variable is a register variable (memory
// variables are lowered to r2m/m2r, which only the hardware implements).
func (p *Program) RegsOnly() bool {
	for _, v := range p.Vars {
		if !v.Reg {
			return false
		}
	}
	for _, f := range p.Funcs {
		for _, v := range f.Vars {
			if !v.Reg {
				return false
			}
		}
	}
	for _, f := range p.Workers {
		for _, v := range f.Vars {
			if !v.Reg {
				return false
			}
		}
	}
	return true
}

// Features names the constructs the program uses beyond straight-line code.
func (p *Program) Features() []string {
	var f []string
	add := func(b bool, s string) {
		if b {
			f = append(f, s)
		}
	}
	add(p.UsesEq, "eq")
	add(p.HasFor, "for")
	add(p.HasBreak, "break")
	add(p.HasContinue, "continue")
	add(p.HasCall, "call")
	add(p.HasShadow, "shadow")
	add(len(p.Inputs) > 0, "inputs")
	add(p.HasGo, "goroutines")
	add(p.HasGoValArgs, "goroutine-value-args")
	add(p.HasWorkerIO, "goroutine-with-io-registers")
	add(p.HasChanBlock, "block-scoped-channel")
	add(p.ChanBlockFirst, "channel-released-before-others-are-declared")
	add(p.HasIfInit, "if-with-init")
	add(p.ChanDeclRev, "channels-declared-in-another-order-than-passed")
	nested := false
	for c, n := range p.Nested {
		nested = nested || (n && len(p.Chains[c]) > 1)
	}
	add(nested, "goroutine-started-by-a-goroutine")
	add(!p.RegsOnly(), "memvars")
	return f
}
