// Package fraggraph generates computations described as graphs of BASM code
// fragments joined by links, prints them for any partition of the fragment
// instances into processors (cpdef ... fragcollapse lists), and evaluates the
// dataflow graph directly. It is the reference of C06.
package fraggraph

import (
	"fmt"
	"strings"

	"veriflib/simrt"
)

type Op struct {
	Op   string // inc dec add cpy rset clr
	A, B int
	Imm  uint64
}

// Fragment: a straight-line body over registers r0..; ResIn registers hold the
// inputs on entry, ResOut registers hold the outputs on exit. Every register
// the body reads is an input or was written earlier in the body, so a fragment
// is a pure function of its inputs wherever it is placed.
type Fragment struct {
	Name   string
	ResIn  []int
	ResOut []int
	Body   []Op
}

type Source struct {
	Inst int // -1: external input Idx
	Idx  int
}

type Instance struct {
	Name string
	Frag int
	In   []Source // one source per fragment input
}

type Graph struct {
	Rsize   int
	Frags   []Fragment
	Insts   []Instance // in topological order
	ExtIn   int
	ExtOuts [][2]int // external output k = output Idx of instance Inst: [inst, idx]
	// LinkMode: order in which the link definitions are written (0 consumers' inputs then external outputs,
	// 1 the reverse, 2 external outputs first, 3 rotated by LinkRot); CPNameMode: how the processors of a
	// partition are named (0 cp0 cp1 ... in topological order, 1 reversed, 2 rotated) — the assembler
	// sorts processors by name, the meaning of the graph does not depend on either
	LinkMode, LinkRot, CPNameMode int
}

func (g *Graph) Mask() uint64 {
	if g.Rsize >= 64 {
		return ^uint64(0)
	}
	return (uint64(1) << g.Rsize) - 1
}

func genFragment(t *simrt.Tape, name string, mask uint64) Fragment {
	f := Fragment{Name: name}
	nin := 1 + t.Draw(2)
	nout := 1 + t.Draw(2)
	nreg := 3
	// inputs deliberately reuse the same low register names in every fragment
	perm := []int{0, 1, 2}
	if t.Draw(2) == 1 {
		perm = []int{1, 0, 2}
	}
	// a source fragment has no inputs at all (a constant, the way library/flexpy's numzero/numfull are)
	if t.Draw(6) == 5 {
		nin = 0
	}
	f.ResIn = append(f.ResIn, perm[:nin]...)
	defined := map[int]bool{}
	for _, r := range f.ResIn {
		defined[r] = true
	}
	if nin == 0 {
		a := t.Draw(nreg)
		f.Body = append(f.Body, Op{Op: "rset", A: a, Imm: uint64(1+t.Draw(200)) & mask})
		defined[a] = true
	}
	pickDef := func() int {
		var d []int
		for r := 0; r < nreg; r++ {
			if defined[r] {
				d = append(d, r)
			}
		}
		return d[t.Draw(len(d))]
	}
	for k := 1 + t.Draw(4); k > 0; k-- {
		switch t.Draw(6) {
		case 0:
			f.Body = append(f.Body, Op{Op: "inc", A: pickDef()})
		case 1:
			f.Body = append(f.Body, Op{Op: "dec", A: pickDef()})
		case 2:
			f.Body = append(f.Body, Op{Op: "add", A: pickDef(), B: pickDef()})
		case 3:
			a := t.Draw(nreg)
			f.Body = append(f.Body, Op{Op: "cpy", A: a, B: pickDef()})
			defined[a] = true
		case 4:
			a := t.Draw(nreg)
			f.Body = append(f.Body, Op{Op: "rset", A: a, Imm: uint64(t.Draw(200)) & mask})
			defined[a] = true
		default:
			a := t.Draw(nreg)
			f.Body = append(f.Body, Op{Op: "clr", A: a})
			defined[a] = true
		}
	}
	// outputs: distinct defined registers
	var d []int
	for r := 0; r < nreg; r++ {
		if defined[r] {
			d = append(d, r)
		}
	}
	if nout > len(d) {
		nout = len(d)
	}
	start := t.Draw(len(d))
	for k := 0; k < nout; k++ {
		f.ResOut = append(f.ResOut, d[(start+k)%len(d)])
	}
	return f
}

// Generate draws a graph of 2..6 instances.
func Generate(t *simrt.Tape) *Graph {
	g := &Graph{Rsize: []int{8, 16, 32}[t.Draw(3)]}
	mask := g.Mask()
	nf := 1 + t.Draw(3)
	for i := 0; i < nf; i++ {
		g.Frags = append(g.Frags, genFragment(t, fmt.Sprintf("frag%d", i), mask))
	}
	ni := 2 + t.Draw(5)
	type outRef struct{ inst, idx int }
	var avail []outRef
	used := map[outRef]int{}
	// instance names: fi<k>, or (one run in three) names of which some are prefixes of others, the way
	// numbered names look past nine nodes (n1, n10, n11, n2, ...)
	collide := t.Draw(3) == 1
	colNames := []string{"n1", "n10", "n2", "n11", "n20", "n100"}
	for i := 0; i < ni; i++ {
		inst := Instance{Name: fmt.Sprintf("fi%d", i), Frag: t.Draw(nf)}
		if collide {
			inst.Name = colNames[i]
		}
		fr := g.Frags[inst.Frag]
		for range fr.ResIn {
			if len(avail) > 0 && t.Draw(3) != 0 {
				o := avail[t.Draw(len(avail))]
				inst.In = append(inst.In, Source{o.inst, o.idx})
				used[o]++
			} else {
				inst.In = append(inst.In, Source{-1, g.ExtIn})
				g.ExtIn++
			}
		}
		g.Insts = append(g.Insts, inst)
		for k := range fr.ResOut {
			avail = append(avail, outRef{i, k})
		}
	}
	for _, o := range avail {
		if used[o] == 0 || t.Draw(5) == 1 {
			g.ExtOuts = append(g.ExtOuts, [2]int{o.inst, o.idx})
		}
	}
	g.LinkMode = t.Draw(4)
	g.LinkRot = t.Draw(8)
	g.CPNameMode = t.Draw(3)
	return g
}

// Partition: groups of instance indices, each group a contiguous range of the
// topological order (hence convex: no path leaves a group and comes back).
type Partition [][]int

func AllSeparate(g *Graph) Partition {
	var p Partition
	for i := range g.Insts {
		p = append(p, []int{i})
	}
	return p
}

func AllCollapsed(g *Graph) Partition {
	var grp []int
	for i := range g.Insts {
		grp = append(grp, i)
	}
	return Partition{grp}
}

func RandomPartition(g *Graph, t *simrt.Tape) Partition {
	var p Partition
	var cur []int
	for i := range g.Insts {
		cur = append(cur, i)
		if i == len(g.Insts)-1 || t.Draw(2) == 1 {
			p = append(p, cur)
			cur = nil
		}
	}
	return p
}

func (p Partition) String() string {
	var parts []string
	for _, grp := range p {
		parts = append(parts, strings.Trim(strings.ReplaceAll(fmt.Sprint(grp), " ", ","), "[]"))
	}
	return strings.Join(parts, " | ")
}

func opBASM(o Op) string {
	switch o.Op {
	case "inc", "dec", "clr":
		return fmt.Sprintf("%s r%d", o.Op, o.A)
	case "rset":
		return fmt.Sprintf("rset r%d, %d", o.A, o.Imm)
	default:
		return fmt.Sprintf("%s r%d, r%d", o.Op, o.A, o.B)
	}
}

func regList(rs []int) string {
	var s []string
	for _, r := range rs {
		s = append(s, fmt.Sprintf("r%d", r))
	}
	return strings.Join(s, ":")
}

// BASM prints the graph for partition p.
func (g *Graph) BASM(p Partition) string {
	var b strings.Builder
	for _, f := range g.Frags {
		if len(f.ResIn) == 0 {
			fmt.Fprintf(&b, "%%fragment %s resout:%s\n", f.Name, regList(f.ResOut))
		} else {
			fmt.Fprintf(&b, "%%fragment %s resin:%s resout:%s\n", f.Name, regList(f.ResIn), regList(f.ResOut))
		}
		for _, o := range f.Body {
			fmt.Fprintf(&b, "\t%s\n", opBASM(o))
		}
		fmt.Fprintf(&b, "%%endfragment\n")
	}
	for _, in := range g.Insts {
		fmt.Fprintf(&b, "%%meta fidef %s fragment:%s\n", in.Name, g.Frags[in.Frag].Name)
	}
	ln := 0
	var inner, outer []string
	link := func(to *[]string, srcFI string, srcType string, srcIdx int, dstFI string, dstType string, dstIdx int) {
		name := fmt.Sprintf("lk%d", ln)
		ln++
		*to = append(*to, fmt.Sprintf("%%meta filinkdef %s type:fl\n", name)+
			fmt.Sprintf("%%meta filinkatt %s fi:%s, type:%s, index:%d\n", name, srcFI, srcType, srcIdx)+
			fmt.Sprintf("%%meta filinkatt %s fi:%s, type:%s, index:%d\n", name, dstFI, dstType, dstIdx))
	}
	for _, in := range g.Insts {
		for j, s := range in.In {
			if s.Inst == -1 {
				link(&inner, "ext", "input", s.Idx, in.Name, "input", j)
			} else {
				link(&inner, g.Insts[s.Inst].Name, "output", s.Idx, in.Name, "input", j)
			}
		}
	}
	for k, eo := range g.ExtOuts {
		link(&outer, g.Insts[eo[0]].Name, "output", eo[1], "ext", "output", k)
	}
	all := append(append([]string{}, inner...), outer...)
	switch g.LinkMode {
	case 1:
		for i, j := 0, len(all)-1; i < j; i, j = i+1, j-1 {
			all[i], all[j] = all[j], all[i]
		}
	case 2:
		all = append(append([]string{}, outer...), inner...)
	case 3:
		if len(all) > 0 {
			r := g.LinkRot % len(all)
			all = append(append([]string{}, all[r:]...), all[:r]...)
		}
	}
	for _, l := range all {
		b.WriteString(l)
	}
	for gi, grp := range p {
		var names []string
		for _, i := range grp {
			names = append(names, g.Insts[i].Name)
		}
		cpn := gi
		switch g.CPNameMode {
		case 1:
			cpn = len(p) - 1 - gi
		case 2:
			cpn = (gi + 1) % len(p)
		}
		fmt.Fprintf(&b, "%%meta cpdef cp%d fragcollapse:%s\n", cpn, strings.Join(names, ":"))
	}
	fmt.Fprintf(&b, "%%meta bmdef global registersize:%d\n%%meta bmdef global iomode:sync\n", g.Rsize)
	return b.String()
}

func (g *Graph) runFrag(f *Fragment, in []uint64) []uint64 {
	mask := g.Mask()
	regs := make([]uint64, 4)
	for k, r := range f.ResIn {
		regs[r] = in[k] & mask
	}
	for _, o := range f.Body {
		switch o.Op {
		case "inc":
			regs[o.A] = (regs[o.A] + 1) & mask
		case "dec":
			regs[o.A] = (regs[o.A] - 1) & mask
		case "add":
			regs[o.A] = (regs[o.A] + regs[o.B]) & mask
		case "cpy":
			regs[o.A] = regs[o.B]
		case "rset":
			regs[o.A] = o.Imm & mask
		case "clr":
			regs[o.A] = 0
		}
	}
	out := make([]uint64, len(f.ResOut))
	for k, r := range f.ResOut {
		out[k] = regs[r]
	}
	return out
}

// Eval evaluates the dataflow graph on one input vector.
func (g *Graph) Eval(in []uint64) []uint64 {
	vals := make([][]uint64, len(g.Insts))
	for i, inst := range g.Insts {
		args := make([]uint64, len(inst.In))
		for j, s := range inst.In {
			if s.Inst == -1 {
				args[j] = in[s.Idx]
			} else {
				args[j] = vals[s.Inst][s.Idx]
			}
		}
		vals[i] = g.runFrag(&g.Frags[inst.Frag], args)
	}
	out := make([]uint64, len(g.ExtOuts))
	for k, eo := range g.ExtOuts {
		out[k] = vals[eo[0]][eo[1]]
	}
	return out
}

// CrossingLinks counts the links that are internal to a group in partition a
// and cross groups in partition b.
func (g *Graph) CrossingLinks(a, b Partition) int {
	grpOf := func(p Partition) map[int]int {
		m := map[int]int{}
		for gi, grp := range p {
			for _, i := range grp {
				m[i] = gi
			}
		}
		return m
	}
	ga, gb := grpOf(a), grpOf(b)
	n := 0
	for i, inst := range g.Insts {
		for _, s := range inst.In {
			if s.Inst >= 0 && ga[s.Inst] == ga[i] && gb[s.Inst] != gb[i] {
				n++
			}
		}
	}
	return n
}
