// Package bondgraph is the reference model of a BondMachine's topology for
// property C10 ("editing a machine's topology never corrupts the bonds it does
// not touch").
//
// It is written from the property statement and the documented meaning of the
// API, not from the implementation: there are no link arrays and no index
// shifting here. The state is
//
//   - a list of domains (processor kinds), each with N inputs and M outputs,
//   - a list of processors, each of one domain,
//   - the number of external inputs and of external outputs,
//   - a set of bonds, each joining one *source* endpoint to one *sink*
//     endpoint, both identified by NAME.
//
// Endpoint names: external input k is "i<k>", external output k is "o<k>",
// input j of processor p is "p<p>i<j>", output j of processor p is "p<p>o<j>".
// Sources (things that produce a value inside the machine) are the external
// inputs and the processor outputs; sinks are the external outputs and the
// processor inputs. A sink carries at most one bond, a source any number.
//
// The only renaming rule: deleting external input (output) k removes the bonds
// on it and gives every external input (output) j > k the name with j-1; all
// their bonds follow them. Nothing else is ever renamed.
package bondgraph

import (
	"fmt"
	"sort"
)

type Domain struct{ N, M int }

type Graph struct {
	Domains []Domain
	Procs   []int // processor p -> domain index
	NIn     int   // external inputs
	NOut    int   // external outputs

	bonds map[string]string // sink name -> source name

	// Creation order of the endpoints (renamed in place on deletion). Only
	// used to answer "does this endpoint have bonds above it" and to offer
	// candidates to workload generators; the bond semantics never look at it.
	srcOrder  []string
	sinkOrder []string
}

func New() *Graph { return &Graph{bonds: map[string]string{}} }

func ExtIn(k int) string           { return fmt.Sprintf("i%d", k) }
func ExtOut(k int) string          { return fmt.Sprintf("o%d", k) }
func ProcIn(p, j int) string       { return fmt.Sprintf("p%di%d", p, j) }
func ProcOut(p, j int) string      { return fmt.Sprintf("p%do%d", p, j) }
func Bond(src, sink string) string { return src + "," + sink }

func (g *Graph) Clone() *Graph {
	c := &Graph{NIn: g.NIn, NOut: g.NOut, bonds: map[string]string{}}
	c.Domains = append([]Domain(nil), g.Domains...)
	c.Procs = append([]int(nil), g.Procs...)
	c.srcOrder = append([]string(nil), g.srcOrder...)
	c.sinkOrder = append([]string(nil), g.sinkOrder...)
	for k, v := range g.bonds {
		c.bonds[k] = v
	}
	return c
}

// AddDomain is not an edit of the topology (no endpoint appears), it only
// makes a processor kind available.
func (g *Graph) AddDomain(n, m int) int {
	g.Domains = append(g.Domains, Domain{n, m})
	return len(g.Domains) - 1
}

func index(l []string, s string) int {
	for i, x := range l {
		if x == s {
			return i
		}
	}
	return -1
}

func (g *Graph) IsSource(name string) bool { return index(g.srcOrder, name) >= 0 }
func (g *Graph) IsSink(name string) bool   { return index(g.sinkOrder, name) >= 0 }

// Sources / Sinks in creation order (copies).
func (g *Graph) Sources() []string { return append([]string(nil), g.srcOrder...) }
func (g *Graph) Sinks() []string   { return append([]string(nil), g.sinkOrder...) }

// SourceOf returns the source bonded to sink, "" if none.
func (g *Graph) SourceOf(sink string) string { return g.bonds[sink] }

func (g *Graph) NumBonds() int { return len(g.bonds) }

// Bonds returns every bond as "source,sink", sorted.
func (g *Graph) Bonds() []string {
	out := make([]string, 0, len(g.bonds))
	for sink, src := range g.bonds {
		out = append(out, Bond(src, sink))
	}
	sort.Strings(out)
	return out
}

// ExpectedSources / ExpectedSinks: the endpoint names implied by the port
// counts alone (sorted). Computed from the counts, not from the order lists.
func (g *Graph) ExpectedSources() []string {
	var out []string
	for k := 0; k < g.NIn; k++ {
		out = append(out, ExtIn(k))
	}
	for p, d := range g.Procs {
		for j := 0; j < g.Domains[d].M; j++ {
			out = append(out, ProcOut(p, j))
		}
	}
	sort.Strings(out)
	return out
}

func (g *Graph) ExpectedSinks() []string {
	var out []string
	for k := 0; k < g.NOut; k++ {
		out = append(out, ExtOut(k))
	}
	for p, d := range g.Procs {
		for j := 0; j < g.Domains[d].N; j++ {
			out = append(out, ProcIn(p, j))
		}
	}
	sort.Strings(out)
	return out
}

// ---- edits. Every edit returns whether the specification accepts it; a
// rejected edit changes nothing.

func (g *Graph) AddInput() string {
	n := ExtIn(g.NIn)
	g.NIn++
	g.srcOrder = append(g.srcOrder, n)
	return n
}

func (g *Graph) AddOutput() string {
	n := ExtOut(g.NOut)
	g.NOut++
	g.sinkOrder = append(g.sinkOrder, n)
	return n
}

func (g *Graph) AddProcessor(dom int) bool {
	if dom < 0 || dom >= len(g.Domains) {
		return false
	}
	p := len(g.Procs)
	g.Procs = append(g.Procs, dom)
	for j := 0; j < g.Domains[dom].N; j++ {
		g.sinkOrder = append(g.sinkOrder, ProcIn(p, j))
	}
	for j := 0; j < g.Domains[dom].M; j++ {
		g.srcOrder = append(g.srcOrder, ProcOut(p, j))
	}
	return true
}

// BondsAboveInput counts the bonds whose source was created after external
// input k (these are the bonds a deletion of k must carry along untouched).
func (g *Graph) BondsAboveInput(k int) int {
	pos := index(g.srcOrder, ExtIn(k))
	if pos < 0 {
		return 0
	}
	n := 0
	for _, src := range g.bonds {
		if index(g.srcOrder, src) > pos {
			n++
		}
	}
	return n
}

// BondsAboveOutput counts the bonds whose sink was created after external
// output k.
func (g *Graph) BondsAboveOutput(k int) int {
	pos := index(g.sinkOrder, ExtOut(k))
	if pos < 0 {
		return 0
	}
	n := 0
	for sink := range g.bonds {
		if index(g.sinkOrder, sink) > pos {
			n++
		}
	}
	return n
}

func renameAll(l []string, victim string, ren map[string]string) []string {
	out := make([]string, 0, len(l))
	for _, x := range l {
		if x == victim {
			continue
		}
		if r, ok := ren[x]; ok {
			x = r
		}
		out = append(out, x)
	}
	return out
}

func (g *Graph) DelInput(k int) bool {
	if k < 0 || k >= g.NIn {
		return false
	}
	victim := ExtIn(k)
	ren := map[string]string{}
	for j := k + 1; j < g.NIn; j++ {
		ren[ExtIn(j)] = ExtIn(j - 1)
	}
	nb := map[string]string{}
	for sink, src := range g.bonds {
		if src == victim {
			continue // the bonds of the deleted input go with it
		}
		if r, ok := ren[src]; ok {
			src = r
		}
		nb[sink] = src
	}
	g.bonds = nb
	g.srcOrder = renameAll(g.srcOrder, victim, ren)
	g.NIn--
	return true
}

func (g *Graph) DelOutput(k int) bool {
	if k < 0 || k >= g.NOut {
		return false
	}
	victim := ExtOut(k)
	ren := map[string]string{}
	for j := k + 1; j < g.NOut; j++ {
		ren[ExtOut(j)] = ExtOut(j - 1)
	}
	nb := map[string]string{}
	for sink, src := range g.bonds {
		if sink == victim {
			continue
		}
		if r, ok := ren[sink]; ok {
			sink = r
		}
		nb[sink] = src
	}
	g.bonds = nb
	g.sinkOrder = renameAll(g.sinkOrder, victim, ren)
	g.NOut--
	return true
}

// AddBond joins the two named endpoints, given in either order. Accepted iff
// exactly one names an existing source and the other an existing sink. A sink
// holds one bond: bonding an occupied sink re-points it (replaced reports the
// bond that went away); that bond is addressed by the edit, every other bond
// stays.
func (g *Graph) AddBond(a, b string) (accepted bool, replaced string) {
	var src, sink string
	switch {
	case g.IsSource(a) && g.IsSink(b):
		src, sink = a, b
	case g.IsSource(b) && g.IsSink(a):
		src, sink = b, a
	default:
		return false, ""
	}
	if old, ok := g.bonds[sink]; ok && old != src {
		replaced = Bond(old, sink)
	}
	g.bonds[sink] = src
	return true, replaced
}

// DelBond removes the bond on the named sink. Rejected if there is none.
func (g *Graph) DelBond(sink string) bool {
	if _, ok := g.bonds[sink]; !ok {
		return false
	}
	delete(g.bonds, sink)
	return true
}

// AttachBenchmark adds a two-input/one-output core fed by the two named
// sources (which may be the same one) and a new external output driven by the
// core. Accepted iff both names are existing sources.
func (g *Graph) AttachBenchmark(a, b string) bool {
	if !g.IsSource(a) || !g.IsSource(b) {
		return false
	}
	d := g.AddDomain(2, 1)
	g.AddProcessor(d)
	p := len(g.Procs) - 1
	g.AddBond(a, ProcIn(p, 0))
	g.AddBond(b, ProcIn(p, 1))
	o := g.AddOutput()
	g.AddBond(ProcOut(p, 0), o)
	return true
}

// Check is the model's own consistency (used by its unit test and, cheaply, by
// harnesses): the order lists hold exactly the expected endpoints, every bond
// joins an existing source to an existing sink.
func (g *Graph) Check() error {
	s := g.Sources()
	sort.Strings(s)
	if fmt.Sprint(s) != fmt.Sprint(g.ExpectedSources()) {
		return fmt.Errorf("sources %v, expected %v", s, g.ExpectedSources())
	}
	k := g.Sinks()
	sort.Strings(k)
	if fmt.Sprint(k) != fmt.Sprint(g.ExpectedSinks()) {
		return fmt.Errorf("sinks %v, expected %v", k, g.ExpectedSinks())
	}
	for sink, src := range g.bonds {
		if !g.IsSink(sink) || !g.IsSource(src) {
			return fmt.Errorf("bond %s joins a missing endpoint", Bond(src, sink))
		}
	}
	return nil
}
