package bondgraph

import (
	"fmt"
	"testing"
)

func want(t *testing.T, g *Graph, bonds ...string) {
	t.Helper()
	if err := g.Check(); err != nil {
		t.Fatal(err)
	}
	if bonds == nil {
		bonds = []string{}
	}
	if fmt.Sprint(g.Bonds()) != fmt.Sprint(bonds) {
		t.Fatalf("bonds %v, want %v", g.Bonds(), bonds)
	}
}

func TestRenumbering(t *testing.T) {
	g := New()
	d := g.AddDomain(2, 1)
	g.AddInput()
	g.AddProcessor(d)
	g.AddInput()
	g.AddInput()
	g.AddOutput()
	g.AddOutput()
	if ok, _ := g.AddBond("i0", "p0i0"); !ok {
		t.Fatal("rejected")
	}
	if ok, _ := g.AddBond("p0i1", "i2"); !ok { // either order
		t.Fatal("rejected")
	}
	g.AddBond("p0o0", "o1")
	g.AddBond("i1", "o0")
	want(t, g, "i0,p0i0", "i1,o0", "i2,p0i1", "p0o0,o1")
	if g.BondsAboveInput(0) != 3 || g.BondsAboveInput(2) != 0 || g.BondsAboveInput(1) != 1 {
		t.Fatal("above", g.BondsAboveInput(0), g.BondsAboveInput(1), g.BondsAboveInput(2))
	}
	if g.BondsAboveOutput(0) != 1 { // p0i0,p0i1 were created before o0
		t.Fatal("above out", g.BondsAboveOutput(0))
	}
	// delete the middle input: its bond goes, i2 becomes i1 and keeps its bond
	if !g.DelInput(1) {
		t.Fatal("rejected")
	}
	want(t, g, "i0,p0i0", "i1,p0i1", "p0o0,o1")
	if !g.DelOutput(0) {
		t.Fatal("rejected")
	}
	want(t, g, "i0,p0i0", "i1,p0i1", "p0o0,o0")
	if g.DelInput(2) || g.DelInput(-1) || g.DelOutput(1) || g.AddProcessor(1) || g.AddProcessor(-1) {
		t.Fatal("accepted an id out of range")
	}
	want(t, g, "i0,p0i0", "i1,p0i1", "p0o0,o0")
}

func TestBondRules(t *testing.T) {
	g := New()
	d := g.AddDomain(1, 2)
	g.AddProcessor(d)
	g.AddInput()
	g.AddOutput()
	for _, e := range [][2]string{{"i0", "p0o0"}, {"o0", "p0i0"}, {"i0", "i0"}, {"i0", "x"}, {"", "o0"}, {"i1", "o0"}, {"i0", "p0i1"}, {"p1o0", "o0"}} {
		if ok, _ := g.AddBond(e[0], e[1]); ok {
			t.Fatal("accepted", e)
		}
	}
	want(t, g)
	g.AddBond("p0o1", "o0")
	ok, rep := g.AddBond("o0", "i0") // occupied sink: re-pointed
	if !ok || rep != "p0o1,o0" {
		t.Fatal(ok, rep)
	}
	g.AddBond("i0", "p0i0") // one source, two sinks
	want(t, g, "i0,o0", "i0,p0i0")
	if g.DelBond("p0i1") || g.DelBond("i0") {
		t.Fatal("deleted a bond that does not exist")
	}
	if !g.DelBond("o0") {
		t.Fatal("rejected")
	}
	want(t, g, "i0,p0i0")
	c := g.Clone()
	if g.AttachBenchmark("i0", "o0") || g.AttachBenchmark("nope", "i0") {
		t.Fatal("accepted")
	}
	if !g.AttachBenchmark("p0o1", "p0o1") {
		t.Fatal("rejected")
	}
	want(t, g, "i0,p0i0", "p0o1,p1i0", "p0o1,p1i1", "p1o0,o1")
	want(t, c, "i0,p0i0")
	if !g.DelInput(0) {
		t.Fatal("rejected")
	}
	want(t, g, "p0o1,p1i0", "p0o1,p1i1", "p1o0,o1")
}
