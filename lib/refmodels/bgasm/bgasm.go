// Package bgasm is a reference interpreter for the assembly text bondgo
// emits, with the documented meaning of each opcode (in particular `je a b
// t`: jump to t when a equals b — the opcode every back-end of the
// repository leaves unimplemented). It lets C12 judge the compiler's lowering
// independently of the executors. One routine = one processor; processors of
// a multi-processor result exchange values over rendezvous channels.
package bgasm

import (
	"fmt"
	"strconv"
	"strings"
)

type Instr struct {
	Op   string
	Args []string
}

type Routine struct {
	Code []Instr
}

func Parse(asm string) (*Routine, error) {
	r := &Routine{}
	for _, l := range strings.Split(asm, "\n") {
		f := strings.Fields(l)
		if len(f) == 0 {
			continue
		}
		r.Code = append(r.Code, Instr{Op: f[0], Args: f[1:]})
	}
	return r, nil
}

type Write struct {
	Proc int
	Out  int
	Val  uint64
}

// proc is the state of one processor.
type proc struct {
	r      *Routine
	pc     int
	regs   map[int]uint64
	mem    map[int]uint64
	halted bool
	// pending channel operation (set by wrd/wwr, completed at chw)
	pendKind string // "", "send", "recv"
	pendChan int
	pendReg  int
	pendVal  uint64
	done     bool // the pending operation has been matched
}

type Machine struct {
	Mask   uint64
	Procs  []*proc
	Writes []Write
	Inputs func(proc, idx int) uint64
	Steps  int
	// ChanMap maps (proc, local channel name index) to a global channel id;
	// nil: local index is the global id.
	ChanMap func(proc, local int) int
	// CountProc >= 0: Run counts only the writes of that processor towards n
	CountProc int
}

func New(rsize int, routines []*Routine) *Machine {
	m := &Machine{CountProc: -1}
	if rsize >= 64 {
		m.Mask = ^uint64(0)
	} else {
		m.Mask = (uint64(1) << uint(rsize)) - 1
	}
	for _, r := range routines {
		m.Procs = append(m.Procs, &proc{r: r, regs: map[int]uint64{}, mem: map[int]uint64{}})
	}
	return m
}

func idx(s string, prefix string) (int, error) {
	if !strings.HasPrefix(s, prefix) {
		return 0, fmt.Errorf("operand %q is not a %s-name", s, prefix)
	}
	return strconv.Atoi(s[len(prefix):])
}

func num(s string) (uint64, error) {
	return strconv.ParseUint(s, 0, 64)
}

// blocked reports whether the processor is waiting at a chw for a partner.
func (p *proc) blocked() bool {
	if p.halted || p.pc >= len(p.r.Code) {
		return false
	}
	return p.r.Code[p.pc].Op == "chw" && p.pendKind != "" && !p.done
}

// step executes one instruction of processor pi; it returns false when the
// processor cannot proceed (halted, or waiting on a channel).
func (m *Machine) step(pi int) (bool, error) {
	p := m.Procs[pi]
	if p.halted {
		return false, nil
	}
	if p.pc < 0 || p.pc >= len(p.r.Code) {
		p.halted = true // ran off the end of the program
		return false, nil
	}
	in := p.r.Code[p.pc]
	bad := func(err error) (bool, error) {
		return false, fmt.Errorf("processor %d, line %d `%s %s`: %v", pi, p.pc, in.Op, strings.Join(in.Args, " "), err)
	}
	need := func(n int) error {
		if len(in.Args) != n {
			return fmt.Errorf("%d operands expected", n)
		}
		return nil
	}
	reg := func(i int) (int, error) { return idx(in.Args[i], "r") }
	target := func(i int) (int, error) {
		t, err := strconv.Atoi(in.Args[i])
		if err != nil {
			return 0, fmt.Errorf("jump target %q is not a line number", in.Args[i])
		}
		if t < 0 || t > len(p.r.Code) {
			return 0, fmt.Errorf("jump target %d outside the program (%d lines)", t, len(p.r.Code))
		}
		return t, nil
	}
	next := p.pc + 1
	switch in.Op {
	case "clr", "inc", "dec":
		if err := need(1); err != nil {
			return bad(err)
		}
		a, err := reg(0)
		if err != nil {
			return bad(err)
		}
		switch in.Op {
		case "clr":
			p.regs[a] = 0
		case "inc":
			p.regs[a] = (p.regs[a] + 1) & m.Mask
		case "dec":
			p.regs[a] = (p.regs[a] - 1) & m.Mask
		}
	case "rset":
		if err := need(2); err != nil {
			return bad(err)
		}
		a, err := reg(0)
		if err != nil {
			return bad(err)
		}
		v, err := num(in.Args[1])
		if err != nil {
			return bad(err)
		}
		p.regs[a] = v & m.Mask
	case "cpy", "add", "mult":
		if err := need(2); err != nil {
			return bad(err)
		}
		a, err := reg(0)
		if err != nil {
			return bad(err)
		}
		b, err := reg(1)
		if err != nil {
			return bad(err)
		}
		switch in.Op {
		case "cpy":
			p.regs[a] = p.regs[b]
		case "add":
			p.regs[a] = (p.regs[a] + p.regs[b]) & m.Mask
		case "mult":
			p.regs[a] = (p.regs[a] * p.regs[b]) & m.Mask
		}
	case "j":
		if err := need(1); err != nil {
			return bad(err)
		}
		t, err := target(0)
		if err != nil {
			return bad(err)
		}
		next = t
	case "jz":
		if err := need(2); err != nil {
			return bad(err)
		}
		a, err := reg(0)
		if err != nil {
			return bad(err)
		}
		t, err := target(1)
		if err != nil {
			return bad(err)
		}
		if p.regs[a] == 0 {
			next = t
		}
	case "je":
		if err := need(3); err != nil {
			return bad(err)
		}
		a, err := reg(0)
		if err != nil {
			return bad(err)
		}
		b, err := reg(1)
		if err != nil {
			return bad(err)
		}
		t, err := target(2)
		if err != nil {
			return bad(err)
		}
		if p.regs[a] == p.regs[b] {
			next = t
		}
	case "m2r", "r2m":
		if err := need(2); err != nil {
			return bad(err)
		}
		a, err := reg(0)
		if err != nil {
			return bad(err)
		}
		ad, err := strconv.Atoi(in.Args[1])
		if err != nil || ad < 0 {
			return bad(fmt.Errorf("bad memory address %q", in.Args[1]))
		}
		if in.Op == "m2r" {
			p.regs[a] = p.mem[ad]
		} else {
			p.mem[ad] = p.regs[a]
		}
	case "r2o":
		if err := need(2); err != nil {
			return bad(err)
		}
		a, err := reg(0)
		if err != nil {
			return bad(err)
		}
		o, err := idx(in.Args[1], "o")
		if err != nil {
			return bad(err)
		}
		m.Writes = append(m.Writes, Write{Proc: pi, Out: o, Val: p.regs[a]})
	case "i2r":
		if err := need(2); err != nil {
			return bad(err)
		}
		a, err := reg(0)
		if err != nil {
			return bad(err)
		}
		i, err := idx(in.Args[1], "i")
		if err != nil {
			return bad(err)
		}
		var v uint64
		if m.Inputs != nil {
			v = m.Inputs(pi, i)
		}
		p.regs[a] = v & m.Mask
	case "wrd", "wwr":
		if err := need(2); err != nil {
			return bad(err)
		}
		a, err := reg(0)
		if err != nil {
			return bad(err)
		}
		c, err := idx(in.Args[1], "ch")
		if err != nil {
			return bad(err)
		}
		if m.ChanMap != nil {
			c = m.ChanMap(pi, c)
		}
		p.pendChan, p.pendReg, p.done = c, a, false
		if in.Op == "wrd" {
			p.pendKind = "recv"
		} else {
			p.pendKind = "send"
			p.pendVal = p.regs[a]
		}
	case "chw":
		// wait for the pending channel operation (an optional register receives which one completed)
		if p.pendKind == "" {
			return bad(fmt.Errorf("chw with no channel operation pending"))
		}
		if !p.done {
			// look for a partner blocked on the opposite operation of the same channel
			for qi, q := range m.Procs {
				if qi == pi || !q.blocked() || q.pendChan != p.pendChan || q.pendKind == p.pendKind {
					continue
				}
				if p.pendKind == "send" {
					q.regs[q.pendReg] = p.pendVal
				} else {
					p.regs[p.pendReg] = q.pendVal
				}
				p.done, q.done = true, true
				break
			}
			if !p.done {
				return false, nil
			}
		}
		p.pendKind = ""
	default:
		return bad(fmt.Errorf("opcode outside the set bondgo emits"))
	}
	p.pc = next
	m.Steps++
	return true, nil
}

// Run executes round-robin, one instruction per processor per round (the
// result of a Kahn-style network of rendezvous channels does not depend on
// the order), until n writes happened, nothing can move, or maxSteps.
func (m *Machine) counted() int {
	if m.CountProc < 0 {
		return len(m.Writes)
	}
	k := 0
	for _, w := range m.Writes {
		if w.Proc == m.CountProc {
			k++
		}
	}
	return k
}

func (m *Machine) Run(n int, maxSteps int) error {
	for m.Steps < maxSteps && m.counted() < n {
		moved := false
		for pi := range m.Procs {
			ok, err := m.step(pi)
			if err != nil {
				return err
			}
			moved = moved || ok
			if m.counted() >= n {
				break
			}
		}
		if !moved {
			return nil
		}
	}
	return nil
}

// RunSingle interprets a single-processor assembly text and returns the
// (output, value) pairs of its first n writes.
func RunSingle(asm string, rsize int, n int, maxSteps int) ([][2]uint64, error) {
	r, _ := Parse(asm)
	m := New(rsize, []*Routine{r})
	if err := m.Run(n, maxSteps); err != nil {
		return nil, err
	}
	var out [][2]uint64
	for _, w := range m.Writes {
		out = append(out, [2]uint64{uint64(w.Out), w.Val})
	}
	return out, nil
}
