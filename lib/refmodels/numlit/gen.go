package numlit

import (
	"strconv"
	"strings"
)

// Chooser is the source of every choice (a *simrt.Tape satisfies it). Draw(n)
// returns a value in [0,n); 0 must be the simplest choice: an all-zero tape
// generates the literal "0" and an empty history.
type Chooser interface{ Draw(n int) int }

// Gen generates literals, type names and type parameters.
type Gen struct {
	G Chooser
	// LQIndexes: the range indexes of the linear quantiser that are loaded in
	// the process (literals mostly use those; the others are rejected).
	LQIndexes []int
}

func (x *Gen) pick(pool []string) string { return pool[x.G.Draw(len(pool))] }

var boundaryDigits = []string{
	"0", "1", "7", "10", "100", "140", "1000", "00", "007", "0100",
	"15", "16", "127", "128", "255", "256", "65535", "65536",
	"4294967295", "4294967296", "9223372036854775807", "9223372036854775808",
	"18446744073709551615", "18446744073709551616", "99999999999999999999",
}

func (x *Gen) randDigits(n int) string {
	var b strings.Builder
	for i := 0; i < n; i++ {
		b.WriteByte(byte('0' + x.G.Draw(10)))
	}
	return b.String()
}

// Digits: a decimal digit string (never empty).
func (x *Gen) Digits() string {
	switch x.G.Draw(6) {
	case 0:
		return x.pick(boundaryDigits)
	case 1:
		return x.randDigits(1 + x.G.Draw(3))
	case 2:
		return x.randDigits(1 + x.G.Draw(21))
	case 3:
		return strings.Repeat("0", 1+x.G.Draw(3)) + x.randDigits(1+x.G.Draw(4))
	case 4:
		// d c 0+ with c a digit: the shape "digits, any one character, zeros"
		return x.randDigits(1+x.G.Draw(3)) + strings.Repeat("0", 1+x.G.Draw(4))
	}
	return x.randDigits(1+x.G.Draw(2)) + x.pick([]string{"0", "00", "10", "40", "000"})
}

var sizePool = []string{"8", "16", "32", "64", "1", "4", "7", "9", "15", "17", "24", "31", "33", "63", "65", "128", "0", "08", "016", "12", "40", "256", "99999999999999999999"}

// Size: the text between < and > of a sized notation.
func (x *Gen) Size() string {
	if x.G.Draw(8) == 7 {
		return strconv.Itoa(x.G.Draw(300))
	}
	return x.pick(sizePool)
}

// fitDigits: a decimal value at or next to the largest one an n-bit word holds.
func (x *Gen) fitDigits(size string) string {
	n, err := strconv.Atoi(size)
	if err != nil || n < 1 || n > 64 {
		return x.Digits()
	}
	max := ^uint64(0)
	if n < 64 {
		max = uint64(1)<<uint(n) - 1
	}
	switch x.G.Draw(6) {
	case 0:
		return strconv.FormatUint(max, 10)
	case 1:
		if n < 64 {
			return strconv.FormatUint(max+1, 10)
		}
		return "18446744073709551616"
	case 2:
		return strconv.FormatUint(max/2+1, 10)
	case 3:
		return "0" + strconv.FormatUint(max, 10)
	case 4:
		return strconv.FormatUint(uint64(x.G.Draw(1<<30))%(max/2+1), 10)
	}
	return x.Digits()
}

var dotPool = []string{".0", ".00", ".000", ".0000", ".", ".01", ".10", ".0 ", "..0", ".0.0", ".00x", ",0", "_0", "x0", "a00", "e0", "-0", " 0", ".o"}

// DotTail: what follows the digits in the "integer written with a decimal point" forms.
func (x *Gen) DotTail() string {
	if x.G.Draw(5) == 4 {
		// one arbitrary character followed by zeros
		return string(alphabet[x.G.Draw(len(alphabet))]) + strings.Repeat("0", 1+x.G.Draw(3))
	}
	return x.pick(dotPool)
}

func (x *Gen) BinDigits() string {
	switch x.G.Draw(5) {
	case 0:
		return x.pick([]string{"0", "1", "101", "00000001", "11111111", "100000000", "0000000000000000", "1111111111111111", "00001"})
	case 1:
		n := 1 + x.G.Draw(8)
		var b strings.Builder
		for i := 0; i < n; i++ {
			b.WriteByte(byte('0' + x.G.Draw(2)))
		}
		return b.String()
	case 2:
		n := 1 + x.G.Draw(70)
		var b strings.Builder
		for i := 0; i < n; i++ {
			b.WriteByte(byte('0' + x.G.Draw(2)))
		}
		return b.String()
	case 3:
		return strings.Repeat("0", x.G.Draw(9)) + "1" + strings.Repeat("0", x.G.Draw(9))
	}
	// decimal-looking: digits that are not all binary
	return x.pick([]string{"10", "100", "102", "12", "2", "1010"})
}

const hexAlphabet = "0123456789abcdefABCDEF"

func (x *Gen) HexDigits() string {
	switch x.G.Draw(6) {
	case 0:
		return x.pick([]string{"0", "a", "ff", "FF", "fF", "100", "901", "0001", "00ff", "ffff", "10000", "deadbeef", "0123456789abcdef", "123456789abcdef01"})
	case 1:
		// hexadecimal digits that are all decimal
		return x.randDigits(1 + x.G.Draw(6))
	case 2:
		// digits of other notations: b, d, f, e are hexadecimal digits too
		return x.pick([]string{"b1", "d5", "f1", "1e5", "b101", "fp", "0b1", "0d5", "0f1", "e", "1e", "bd"})
	}
	n := 1 + x.G.Draw(18)
	var b strings.Builder
	for i := 0; i < n; i++ {
		b.WriteByte(hexAlphabet[x.G.Draw(len(hexAlphabet))])
	}
	return b.String()
}

var floatPool = []string{
	"0", "1", "1.5", "-1.5", "+2", ".5", "5.", "0.1", "-0", "100", "140", "56", "32.5",
	"1e5", "1E-5", "1e", "e5", "1e+", "1e39", "1e-46", "3.4028235e38", "3.4028236e38", "1e-45", "7e-46",
	"65504", "65519.99", "65520", "6e-8", "2.9e-8", "3e-8", "0.000061", "1e-20", "1.1e-21", "0.00000000000000000001",
	"inf", "-Inf", "+inf", "Infinity", "NaN", "nan", "-nan",
	"0x1p-2", "0x1.8p1", "x1p3", "p5", "P5", "l5", "L5", "<32>1", "<16>1", "<8>1", "1_000", "1__0", "0b1", "0o7",
	"1.5.5", "1,5", "1 ", " 1", "--1", "1-", "abc", "-", "+", ".", "1f", "1d", "١",
}

// FloatBody: what follows the prefix of the float-like notations.
func (x *Gen) FloatBody() string {
	switch x.G.Draw(6) {
	case 0, 1:
		return x.pick(floatPool)
	case 2:
		return x.randDigits(1+x.G.Draw(3)) + "." + x.randDigits(1+x.G.Draw(6))
	case 3:
		s := x.randDigits(1+x.G.Draw(2)) + "." + x.randDigits(x.G.Draw(4)) + "e" + x.pick([]string{"", "-", "+"}) + x.randDigits(1+x.G.Draw(2))
		if x.G.Draw(2) == 1 {
			s = "-" + s
		}
		return s
	case 4:
		return x.pick([]string{"-", ""}) + "0." + strings.Repeat("0", x.G.Draw(24)) + x.randDigits(1+x.G.Draw(4))
	}
	return x.pick([]string{"-", ""}) + x.Digits()
}

// SParam: the word size s of a dynamic type (the library states 1..32).
func (x *Gen) SParam() int {
	switch x.G.Draw(5) {
	case 0:
		return 8
	case 1:
		return []int{16, 32, 1, 2, 7, 9, 15, 17, 24, 31}[x.G.Draw(10)]
	}
	return 1 + x.G.Draw(32)
}

// DynParams: the text between < and > of a dynamic notation.
func (x *Gen) DynParams(family string) string {
	if x.G.Draw(10) == 9 {
		return x.pick([]string{"0.0", "33.4", "64.8", "08.4", "8.04", "8.", ".4", "8", "8.4.1", "8,4", "99999999999999999999.1", "8.99999999999999999999", "8.64", "8.63", "-8.4", "8.-4"})
	}
	s := x.SParam()
	switch family {
	case NLQ:
		t := x.G.Draw(7)
		if len(x.LQIndexes) > 0 && x.G.Draw(4) != 3 {
			t = x.LQIndexes[x.G.Draw(len(x.LQIndexes))]
		}
		return strconv.Itoa(s) + "." + strconv.Itoa(t)
	case NFloPoCo:
		return strconv.Itoa(2+x.G.Draw(10)) + "." + strconv.Itoa(1+x.G.Draw(52))
	}
	f := x.G.Draw(s + 1)
	if x.G.Draw(6) == 5 {
		f = x.G.Draw(33)
	}
	return strconv.Itoa(s) + "." + strconv.Itoa(f)
}

// the notations, in the order an all-zero tape prefers
var notationOrder = []string{NPlain, NU, ND, NUDot, NDDot, NUSized, NDSized, NS, NSD, NBin, NBinSized, NHex, NHexSized,
	NF16, NF32Sized, NF32, NFixedPoint, NFloPoCo, NLQ, NFXP}

// OfNotation generates a literal in (or right at the edge of) one notation.
func (x *Gen) OfNotation(n string) string {
	switch n {
	case NPlain:
		return x.Digits()
	case NU:
		return "0u" + x.Digits()
	case ND:
		return "0d" + x.Digits()
	case NUDot:
		return "0u" + x.Digits() + x.DotTail()
	case NDDot:
		return "0d" + x.Digits() + x.DotTail()
	case NUSized, NDSized:
		p := "0u"
		if n == NDSized {
			p = "0d"
		}
		sz := x.Size()
		return p + "<" + sz + ">" + x.fitDigits(sz)
	case NS, NSD:
		p := "0s"
		if n == NSD {
			p = "0sd"
		}
		return p + x.pick([]string{"", "-", "-", "+", "--"}) + x.Digits()
	case NBin:
		return "0b" + x.BinDigits()
	case NBinSized:
		return "0b<" + x.Size() + ">" + x.BinDigits()
	case NHex:
		return "0x" + x.HexDigits()
	case NHexSized:
		return "0x<" + x.Size() + ">" + x.HexDigits()
	case NF16:
		return "0f<16>" + x.FloatBody()
	case NF32Sized:
		return "0f<32>" + x.FloatBody()
	case NF32:
		return "0f" + x.FloatBody()
	case NFixedPoint:
		return "0fp<" + x.DynParams(n) + ">" + x.FloatBody()
	case NFXP:
		return "0fxp<" + x.DynParams(n) + ">" + x.FloatBody()
	case NLQ:
		return "0lq<" + x.DynParams(n) + ">" + x.FloatBody()
	case NFloPoCo:
		return "0flp<" + x.DynParams(n) + ">" + x.FloatBody()
	}
	return "0"
}

const alphabet = "0123456789abcdefABCDEFxXuUdDsSbBfFlLpPqQ<>.-+eE _,\n"

var prefixes = []string{"", "0u", "0d", "0s", "0sd", "0b", "0x", "0f", "0f<16>", "0f<32>", "0fp<8.4>", "0flp<4.4>", "0lq<8.1>", "0fxp<8.4>",
	"0u<8>", "0d<8>", "0b<8>", "0x<8>", "0x<16>",
	"0U", "0D", "0X", "0B", "0F", "0fl", "0fx", "0fp", "0l", "0lq", "0flp", "0fxp", "0f<", "0f<64>", "0f<8>", "0f<16", "0f<32",
	"0p", "0fl<4.4>", "0fx<8.4>", "0lp<4.4>", "0q<8.1>", "0xp<8.4>", "0s<8>", "0sd<8>", "0", "00", "0u0u", "0x0x", "0b0b", " 0u", "-", "+", "-0x", "0-"}

func (x *Gen) anyBody() string {
	switch x.G.Draw(7) {
	case 0:
		return x.Digits()
	case 1:
		return x.Digits() + x.DotTail()
	case 2:
		return "<" + x.Size() + ">" + x.Digits()
	case 3:
		return x.BinDigits()
	case 4:
		return x.HexDigits()
	case 5:
		return x.FloatBody()
	}
	return ""
}

func (x *Gen) mutate(s string) string {
	c := string(alphabet[x.G.Draw(len(alphabet))])
	pos := x.G.Draw(len(s) + 1)
	switch x.G.Draw(7) {
	case 0:
		return c + s
	case 1:
		return s + c
	case 2:
		return s[:pos] + c + s[pos:]
	case 3:
		if pos < len(s) {
			return s[:pos] + s[pos+1:]
		}
		return s
	case 4:
		if pos < len(s) {
			return s[:pos] + c + s[pos+1:]
		}
		return s + c
	case 5:
		// a second literal glued on: what an unanchored matcher would still accept
		return x.pick([]string{"x", "1", "0f1", "0x", " ", "0b1"}) + s
	}
	return s + x.pick([]string{"0", ".0", "0fp<8.4>1", "x", " ", "0u1"})
}

// MaxStatedSize is the largest width a generated literal states between < and >
// (digit strings too long for an int are rejected before anything is allocated
// and stay). The importers of 0b<n>… and 0x<n>… allocate and loop over n-proportional
// memory: `0x<99999999999>1` is resource exhaustion, not a question of meaning.
const MaxStatedSize = 4096

// ClampSizes rewrites every <digits> group whose value exceeds MaxStatedSize
// (and fits an int64) to <300>.
func ClampSizes(s string) string {
	for i := 0; i < len(s); i++ {
		if s[i] != '<' {
			continue
		}
		j := i + 1
		for j < len(s) && isDigit(s[j]) {
			j++
		}
		if j == i+1 || j >= len(s) || s[j] != '>' {
			continue
		}
		if v, err := strconv.ParseInt(s[i+1:j], 10, 64); err == nil && v > MaxStatedSize {
			s = s[:i+1] + "300" + s[j:]
		}
	}
	return s
}

// Literal generates one string to be offered to the importer.
func (x *Gen) Literal() string { return ClampSizes(x.literal()) }

func (x *Gen) literal() string {
	k := x.G.Draw(10)
	switch {
	case k <= 5:
		return x.OfNotation(notationOrder[x.G.Draw(len(notationOrder))])
	case k <= 7:
		s := x.OfNotation(notationOrder[x.G.Draw(len(notationOrder))])
		for i := 1 + x.G.Draw(2); i > 0; i-- {
			s = x.mutate(s)
		}
		return s
	case k == 8:
		return x.pick(prefixes) + x.anyBody()
	}
	// the prefix of one notation in front of a complete literal of another
	return x.pick(prefixes) + x.OfNotation(notationOrder[x.G.Draw(len(notationOrder))])
}

// CoreLiterals is a fixed list of boundary literals that every run checks,
// whatever its tape says.
var CoreLiterals = []string{
	"0", "140", "0u140", "0d140", "0u100", "0u1.0", "0u140.0", "0d7.000", "0u<8>255", "0u<8>256", "0d<16>65535",
	"0s-1", "0sd5", "0b101", "0b<8>101", "0x901", "0x<16>ab", "0xb1", "0xd5", "0f56", "0f<32>1.5", "0f<16>1.5",
	"0f1e5", "0fp<8.4>1.5", "0fxp<8.4>-1.5", "0lq<8.1>0.5", "0flp<4.4>1.45", "0u", "0f", "0x", "0b<8>", "0u140x0", "x0u140",
}

// TypeName generates a name to offer to EventuallyCreateType.
func (x *Gen) TypeName() string {
	switch x.G.Draw(12) {
	case 0, 1, 2:
		s := x.SParam()
		return "fps" + strconv.Itoa(s) + "f" + strconv.Itoa(x.G.Draw(s+1))
	case 3, 4:
		s := x.SParam()
		return "fxps" + strconv.Itoa(s) + "f" + strconv.Itoa(x.G.Draw(s+1))
	case 5, 6:
		t := x.G.Draw(7)
		if len(x.LQIndexes) > 0 && x.G.Draw(4) != 3 {
			t = x.LQIndexes[x.G.Draw(len(x.LQIndexes))]
		}
		return "lqs" + strconv.Itoa(x.SParam()) + "t" + strconv.Itoa(t)
	case 7, 8:
		return "flpe" + strconv.Itoa(2+x.G.Draw(10)) + "f" + strconv.Itoa(1+x.G.Draw(52))
	case 9:
		return x.pick([]string{"fps8f4", "fxps8f4", "lqs8t0", "flpe4f4", "fps16f8", "fps32f16", "fps08f4", "fps8f04"})
	case 10:
		// names of the static types and names no family knows
		return x.pick([]string{"unsigned", "float32", "float16", "hex", "bin", "signed", "fp8f4", "fps8", "lqs8", "flpe4", "", "foo"})
	}
	return "fps" + strconv.Itoa(x.SParam()) + "f" + strconv.Itoa(x.G.Draw(33))
}
