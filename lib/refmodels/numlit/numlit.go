// Package numlit is the reference model of the numeric-literal notations of
// the BondMachine number library (property C08): for every notation a
// hand-written recogniser (no regular expressions, nothing shared with the code
// under test), the typed bit pattern the literal denotes, and generators that
// produce literals biased to the places where two notations touch.
//
// The reference languages are pairwise disjoint by construction: Interpret
// walks one decision tree over the prefix of the string, so at most one
// notation claims a string. "The number library accepts exactly these
// languages, each string with this meaning" is what the C08 harness compares
// the real matchers with — under every iteration order of the matcher map and
// every history of type creation.
//
// Pure Go, standard library only.
package numlit

import (
	"math"
	"strconv"
	"strings"
)

// Notation names.
const (
	NPlain      = "unsigned-plain"    // 123
	NU          = "unsigned-0u"       // 0u123
	ND          = "unsigned-0d"       // 0d123
	NUDot       = "unsigned-0u-dot"   // 0u123.000
	NDDot       = "unsigned-0d-dot"   // 0d123.000
	NUSized     = "unsigned-0u-sized" // 0u<8>123
	NDSized     = "unsigned-0d-sized" // 0d<8>123
	NS          = "signed-0s"         // 0s-5
	NSD         = "signed-0sd"        // 0sd-5
	NBin        = "bin"               // 0b101
	NBinSized   = "bin-sized"         // 0b<8>101
	NHex        = "hex"               // 0xab
	NHexSized   = "hex-sized"         // 0x<16>ab
	NF16        = "float16"           // 0f<16>1.5
	NF32Sized   = "float32-sized"     // 0f<32>1.5
	NF32        = "float32"           // 0f1.5
	NFixedPoint = "fixedpoint"        // 0fp<s.f>1.5
	NFloPoCo    = "flopoco"           // 0flp<e.f>1.5
	NLQ         = "lq"                // 0lq<s.t>1.5
	NFXP        = "fxp"               // 0fxp<s.f>1.5
	NNone       = "none"              // no notation claims the string
)

// Family maps a notation to the label of the type family it belongs to.
func Family(notation string) string {
	switch notation {
	case NPlain, NU, ND, NUDot, NDDot, NUSized, NDSized:
		return "unsigned"
	case NS, NSD:
		return "signed"
	case NBin, NBinSized:
		return "bin"
	case NHex, NHexSized:
		return "hex"
	case NF16:
		return "float16"
	case NF32, NF32Sized:
		return "float32"
	}
	return notation
}

// FamilyOfType maps a type name of the library (static names, or the names of
// dynamically created types such as fps8f4) to its family label.
func FamilyOfType(name string) string {
	switch {
	case isDynName(name, "fxps", 'f'):
		return NFXP
	case isDynName(name, "fps", 'f'):
		return NFixedPoint
	case isDynName(name, "lqs", 't'):
		return NLQ
	case isDynName(name, "flpe", 'f'):
		return NFloPoCo
	}
	return name
}

func isDynName(name, prefix string, sep byte) bool {
	if !strings.HasPrefix(name, prefix) {
		return false
	}
	rest := name[len(prefix):]
	i := 0
	for i < len(rest) && isDigit(rest[i]) {
		i++
	}
	if i == 0 || i >= len(rest) || rest[i] != sep {
		return false
	}
	rest = rest[i+1:]
	return len(rest) > 0 && allDigits(rest)
}

// Meaning is what a string denotes according to the reference.
type Meaning struct {
	Notation string // NNone when no notation claims the string
	Accept   bool   // the literal denotes a value; false: the library must reject it with an error
	Why      string // reason of a rejection
	TypeName string
	Bits     int
	Bytes    []byte // most significant byte first (the layout of BMNumber.GetBytes), exactly ceil(Bits/8) bytes
	NaN      bool   // float notations: the value is a NaN; sign and payload are not predicted
	// AltBytes: a second acceptable bit pattern. Only the linear quantiser uses
	// it: the property fixes neither "truncate" nor "round to nearest" as its
	// quantisation rule, so both bands are accepted (Bytes = truncated).
	AltBytes []byte
	// External: the value is computed by an external program (FloPoCo's fp2bin);
	// only the claim is predicted.
	External bool
	// Unspecified: the conversion goes through a float -> int64 conversion that is
	// out of range, which Go leaves implementation-defined; only the claim is predicted.
	Unspecified bool
}

// Config carries the process-wide configuration the meaning depends on.
type Config struct {
	LQMax map[int]float64 // linear quantiser: range index -> largest absolute value of the data set
}

func isDigit(c byte) bool { return c >= '0' && c <= '9' }

func allDigits(s string) bool {
	if s == "" {
		return false
	}
	for i := 0; i < len(s); i++ {
		if !isDigit(s[i]) {
			return false
		}
	}
	return true
}

func allIn(s string, set string) bool {
	if s == "" {
		return false
	}
	for i := 0; i < len(s); i++ {
		if strings.IndexByte(set, s[i]) < 0 {
			return false
		}
	}
	return true
}

// sized splits "<digits>rest" (rest may be empty).
func sized(s string) (size, rest string, ok bool) {
	if len(s) < 3 || s[0] != '<' {
		return "", "", false
	}
	i := strings.IndexByte(s, '>')
	if i < 2 || !allDigits(s[1:i]) {
		return "", "", false
	}
	return s[1:i], s[i+1:], true
}

// dotted splits "<digits.digits>rest" with non-empty rest free of newlines.
func dotted(s string) (a, b, rest string, ok bool) {
	if len(s) < 5 || s[0] != '<' {
		return
	}
	i := strings.IndexByte(s, '>')
	if i < 0 {
		return
	}
	in := s[1:i]
	d := strings.IndexByte(in, '.')
	if d < 0 || !allDigits(in[:d]) || !allDigits(in[d+1:]) {
		return
	}
	rest = s[i+1:]
	if rest == "" || strings.IndexByte(rest, '\n') >= 0 {
		return
	}
	return in[:d], in[d+1:], rest, true
}

func reject(n, why string) Meaning { return Meaning{Notation: n, Why: why} }

// uintBytes returns the low nbytes bytes of v, most significant first.
func uintBytes(v uint64, nbytes int) []byte {
	out := make([]byte, nbytes)
	for i := 0; i < nbytes; i++ {
		if i < 8 {
			out[nbytes-1-i] = byte(v >> (8 * uint(i)))
		}
	}
	return out
}

// Interpret is the reference meaning of s.
func Interpret(s string, cfg Config) Meaning {
	if allDigits(s) {
		return unsigned64(NPlain, s)
	}
	if len(s) < 3 || s[0] != '0' {
		return Meaning{Notation: NNone}
	}
	body := s[2:]
	switch s[1] {
	case 'u', 'd':
		n, nDot, nSized := NU, NUDot, NUSized
		if s[1] == 'd' {
			n, nDot, nSized = ND, NDDot, NDSized
		}
		if allDigits(body) {
			return unsigned64(n, body)
		}
		if i := strings.IndexByte(body, '.'); i > 0 && allDigits(body[:i]) && allIn(body[i+1:], "0") {
			return unsigned64(nDot, body[:i])
		}
		if size, rest, ok := sized(body); ok && allDigits(rest) {
			return unsignedSized(nSized, size, rest)
		}
	case 's':
		n := NS
		if len(body) > 0 && body[0] == 'd' {
			n, body = NSD, body[1:]
		}
		d := body
		if len(d) > 0 && d[0] == '-' {
			d = d[1:]
		}
		if allDigits(d) {
			v, err := strconv.ParseInt(body, 10, 64)
			if err != nil {
				return reject(n, "does not fit 64 bits")
			}
			return Meaning{Notation: n, Accept: true, TypeName: "signed", Bits: 64, Bytes: uintBytes(uint64(v), 8)}
		}
	case 'b':
		if allIn(body, "01") {
			return binary(NBin, len(body), body)
		}
		if size, rest, ok := sized(body); ok && allIn(rest, "01") {
			n, err := strconv.Atoi(size)
			if err != nil {
				return reject(NBinSized, "size out of range")
			}
			if len(rest) > n {
				return reject(NBinSized, "more digits than the stated size")
			}
			return binary(NBinSized, n, rest)
		}
	case 'x':
		const hexd = "0123456789abcdefABCDEF"
		if allIn(body, hexd) {
			return hexa(NHex, -1, body)
		}
		if size, rest, ok := sized(body); ok && allIn(rest, hexd) {
			n, err := strconv.Atoi(size)
			if err != nil {
				return reject(NHexSized, "size out of range")
			}
			if n%8 != 0 {
				return reject(NHexSized, "size is not a multiple of 8")
			}
			return hexa(NHexSized, n, rest)
		}
	case 'f':
		return floatFamily(s, body, cfg)
	case 'l':
		if strings.HasPrefix(body, "q") {
			if a, b, rest, ok := dotted(body[1:]); ok {
				return lq(a, b, rest, cfg)
			}
		}
	}
	return Meaning{Notation: NNone}
}

func unsigned64(n, digits string) Meaning {
	v, err := strconv.ParseUint(digits, 10, 64)
	if err != nil {
		return reject(n, "does not fit 64 bits")
	}
	return Meaning{Notation: n, Accept: true, TypeName: "unsigned", Bits: 64, Bytes: uintBytes(v, 8)}
}

func unsignedSized(n, size, digits string) Meaning {
	sz, err := strconv.Atoi(size)
	if err != nil || sz <= 0 || sz > 64 {
		return reject(n, "size must be 1..64")
	}
	v, err := strconv.ParseUint(digits, 10, 64)
	if err != nil {
		return reject(n, "does not fit 64 bits")
	}
	if sz < 64 && v>>uint(sz) != 0 {
		return reject(n, "value exceeds the stated size")
	}
	return Meaning{Notation: n, Accept: true, TypeName: "unsigned", Bits: sz, Bytes: uintBytes(v, (sz+7)/8)}
}

func binary(n string, bits int, digits string) Meaning {
	if bits > 1<<24 {
		return Meaning{Notation: n, Accept: true, TypeName: "bin", Bits: bits, Unspecified: true}
	}
	nb := (bits + 7) / 8
	out := make([]byte, nb)
	for i := 0; i < len(digits); i++ {
		if digits[len(digits)-1-i] == '1' {
			out[nb-1-i/8] |= 1 << uint(i%8)
		}
	}
	return Meaning{Notation: n, Accept: true, TypeName: "bin", Bits: bits, Bytes: out}
}

func hexVal(c byte) byte {
	switch {
	case c >= '0' && c <= '9':
		return c - '0'
	case c >= 'a' && c <= 'f':
		return c - 'a' + 10
	}
	return c - 'A' + 10
}

// hexa: bits < 0 means "as many whole bytes as the digits need".
func hexa(n string, bits int, digits string) Meaning {
	need := (len(digits) + 1) / 2
	if bits < 0 {
		bits = need * 8
	} else if need*8 > bits {
		return reject(n, "more digits than the stated size")
	}
	if bits > 1<<24 {
		return Meaning{Notation: n, Accept: true, TypeName: "hex", Bits: bits, Unspecified: true}
	}
	nb := bits / 8
	out := make([]byte, nb)
	for i := 0; i < len(digits); i++ {
		out[nb-1-i/2] |= hexVal(digits[len(digits)-1-i]) << uint(4*(i%2))
	}
	return Meaning{Notation: n, Accept: true, TypeName: "hex", Bits: bits, Bytes: out}
}

func floatFamily(s, body string, cfg Config) Meaning {
	// s = "0f" + body
	switch {
	case strings.HasPrefix(body, "p<"):
		if a, b, rest, ok := dotted(body[1:]); ok {
			return fixed(NFixedPoint, "fps", a, b, rest)
		}
		return Meaning{Notation: NNone}
	case strings.HasPrefix(body, "xp<"):
		if a, b, rest, ok := dotted(body[2:]); ok {
			return fixed(NFXP, "fxps", a, b, rest)
		}
		return Meaning{Notation: NNone}
	case strings.HasPrefix(body, "lp<"):
		if a, b, _, ok := dotted(body[2:]); ok {
			return Meaning{Notation: NFloPoCo, Accept: true, External: true, TypeName: "flpe" + a + "f" + b}
		}
		return Meaning{Notation: NNone}
	}
	// the number part is one character outside an exclusion set (a newline is
	// allowed there) followed by anything but newlines
	tailOK := func(x string) bool { return x != "" && strings.IndexByte(x[1:], '\n') < 0 }
	if body == "" {
		return Meaning{Notation: NNone}
	}
	switch {
	case strings.HasPrefix(body, "<16>"):
		x := body[4:]
		if !tailOK(x) || strings.IndexByte("lL", x[0]) >= 0 {
			return Meaning{Notation: NNone}
		}
		v, err := strconv.ParseFloat(x, 32)
		if err != nil {
			return reject(NF16, "not a float32 number")
		}
		h := F32ToF16(float32(v))
		return Meaning{Notation: NF16, Accept: true, TypeName: "float16", Bits: 16, Bytes: uintBytes(uint64(h), 2), NaN: v != v}
	case strings.HasPrefix(body, "<32>"):
		x := body[4:]
		if !tailOK(x) || strings.IndexByte("pxPlL", x[0]) >= 0 {
			return Meaning{Notation: NNone}
		}
		return float32Of(NF32Sized, x)
	case !tailOK(body) || strings.IndexByte("pxPlL<", body[0]) >= 0:
		return Meaning{Notation: NNone}
	}
	return float32Of(NF32, body)
}

func float32Of(n, x string) Meaning {
	v, err := strconv.ParseFloat(x, 32)
	if err != nil {
		return reject(n, "not a float32 number")
	}
	return Meaning{Notation: n, Accept: true, TypeName: "float32", Bits: 32,
		Bytes: uintBytes(uint64(math.Float32bits(float32(v))), 4), NaN: v != v}
}

// atoi0 is strconv.Atoi with the error dropped, as the library uses it: digit
// strings beyond the int range give the largest int.
func atoi0(s string) int {
	v, _ := strconv.Atoi(s)
	return v
}

func lowBits(v int64, s int) []byte {
	u := uint64(v)
	if s < 64 {
		u &= (uint64(1) << uint(s)) - 1
	}
	return uintBytes(u, (s+7)/8)
}

// pow2int is float64(int(1) << f) with Go's shift semantics on a 64-bit int.
func pow2int(f int) float64 {
	if f < 0 || f >= 64 {
		return 0
	}
	return float64(int64(1) << uint(f))
}

func fixed(n, namePrefix, ss, fs, x string) Meaning {
	s, f := atoi0(ss), atoi0(fs)
	if s < 1 || s > 32 {
		return reject(n, "s must be 1..32")
	}
	v, err := strconv.ParseFloat(x, 64)
	if err != nil {
		return reject(n, "not a number")
	}
	m := Meaning{Notation: n, Accept: true, TypeName: namePrefix + ss + "f" + fs, Bits: s}
	t := v * pow2int(f)
	if t != t || t >= 9.2e18 || t <= -9.2e18 {
		m.Unspecified = true
		return m
	}
	m.Bytes = lowBits(int64(t), s)
	return m
}

func lq(ss, ts, x string, cfg Config) Meaning {
	s, t := atoi0(ss), atoi0(ts)
	if s < 1 || s > 32 {
		return reject(NLQ, "s must be 1..32")
	}
	max, ok := cfg.LQMax[t]
	if !ok {
		return reject(NLQ, "no data range loaded for this index")
	}
	v, err := strconv.ParseFloat(x, 64)
	if err != nil {
		return reject(NLQ, "not a number")
	}
	m := Meaning{Notation: NLQ, Accept: true, TypeName: "lqs" + ss + "t" + ts, Bits: s}
	bandNum := pow2int(s - 1)
	q := v / (max / bandNum)
	if q != q || q >= 9.2e18 || q <= -9.2e18 {
		m.Unspecified = true
		return m
	}
	band, near := int64(q), int64(math.Round(q))
	out := func(b int64) bool { return b >= int64(bandNum) || b <= -int64(bandNum) }
	switch {
	case out(band) && out(near):
		return reject(NLQ, "out of the quantiser's range")
	case out(band) != out(near):
		// on the edge of the range: in or out depending on the quantisation rule
		m.Unspecified = true
		return m
	}
	m.Bytes = lowBits(band, s)
	if near != band {
		m.AltBytes = lowBits(near, s)
	}
	return m
}

// F32ToF16 converts with round-to-nearest-even (IEEE 754 binary16).
func F32ToF16(f float32) uint16 {
	x := float64(f)
	var sign uint16
	if math.Signbit(x) {
		sign = 0x8000
		x = -x
	}
	switch {
	case x != x:
		return sign | 0x7e00
	case x >= 65520:
		return sign | 0x7c00
	case x == 0:
		return sign
	}
	_, e := math.Frexp(x) // x = m * 2^e, 0.5 <= m < 1
	e--                   // x = m' * 2^e, 1 <= m' < 2
	if e < -14 {
		e = -14
	}
	ulp := math.Ldexp(1, e-10)
	q := math.RoundToEven(x / ulp) // 0 .. 2048
	if e == -14 && q < 1024 {
		return sign | uint16(q) // subnormal (or zero)
	}
	if q >= 2048 {
		q /= 2
		e++
	}
	if e > 15 {
		return sign | 0x7c00
	}
	return sign | uint16(e+15)<<10 | uint16(q-1024)
}

// F16ToF32 is the exact widening conversion.
func F16ToF32(h uint16) float32 {
	sign := 1.0
	if h&0x8000 != 0 {
		sign = -1
	}
	e := int(h>>10) & 0x1f
	m := float64(h & 0x3ff)
	switch {
	case e == 0x1f && m != 0:
		return float32(math.NaN())
	case e == 0x1f:
		return float32(math.Inf(int(sign)))
	case e == 0:
		return float32(sign * math.Ldexp(m, -24))
	}
	return float32(sign * math.Ldexp(1024+m, e-25))
}

// SignedValue is the two's complement value of an s-bit pattern given most
// significant byte first in ceil(s/8) bytes (s <= 64).
func SignedValue(be []byte, s int) int64 {
	var u uint64
	for _, b := range be {
		u = u<<8 | uint64(b)
	}
	if s < 64 && u&(uint64(1)<<uint(s-1)) != 0 {
		u |= ^uint64(0) << uint(s)
	}
	return int64(u)
}

// FixedValue is the number an s.f fixed point pattern stands for.
func FixedValue(be []byte, s, f int) float64 {
	return float64(SignedValue(be, s)) / pow2int(f)
}

// LQValue is the number a band of the linear quantiser stands for.
func LQValue(be []byte, s int, max float64) float64 {
	return float64(SignedValue(be, s)) * (max / pow2int(s-1))
}
