package rules

import "testing"

func TestParsePrint(t *testing.T) {
	for _, s := range []string{
		"absolute:100:set:r0:42", "absolute:200:get:r1:unsigned", "relative:10:set:r0:100", "relative:25:get:memory_0:signed",
		"onvalid:get:r0:unsigned", "onrecv:show:r1:hex", "onexit:get:io_output:signed", "config:show_pc", "config:get_all:hex",
		"absolute:20:show:p0r1:hex",
	} {
		r, err := Parse(s)
		if err != nil {
			t.Fatalf("%s: %v", s, err)
		}
		if r.String() != s {
			t.Fatalf("%s prints as %s", s, r.String())
		}
	}
	r, err := Parse("onvalid:show:r2")
	if err != nil || r.Extra != "unsigned" || r.Text(false) != "onvalid:show:r2" || r.String() != "onvalid:show:r2:unsigned" {
		t.Fatalf("default format: %+v %v", r, err)
	}
	for _, s := range []string{"absolute:x:set:r0:1", "absolute:1:set:r0", "config:nope", "config:get_all", "sometimes:get:r0", "onexit:set:r0:1", ""} {
		if _, err := Parse(s); err == nil {
			t.Fatalf("%q accepted", s)
		}
	}
}

func TestHistoryAndListing(t *testing.T) {
	var l []Rule
	ok := false
	for _, op := range []Op{{Kind: "add", Text: "absolute:10:set:i0:5"}, {Kind: "add", Text: "relative:5:get:o0"}, {Kind: "add", Text: "config:show_ticks"},
		{Kind: "suspend", Idx: 2}, {Kind: "del", Idx: 0}} {
		if l, ok = Apply(l, op); !ok {
			t.Fatal(op)
		}
	}
	if _, ok := Apply(l, Op{Kind: "del", Idx: 2}); ok {
		t.Fatal("out of range delete accepted")
	}
	want := "000 - relative:5:get:o0:unsigned\n001 - config:show_ticks [SUSPENDED]\n"
	if Listing(l) != want {
		t.Fatalf("listing %q", Listing(l))
	}
	back, err := ParseListing(want)
	if err != nil || len(back) != 2 || back[1] != l[1] || back[0] != l[0] {
		t.Fatalf("listing does not parse back: %v %v", back, err)
	}
	if len(Active(l)) != 1 {
		t.Fatal("active")
	}
}

func TestPredict(t *testing.T) {
	sh := Shape{Rsize: 8, Inputs: 1, Outputs: 1, Procs: []Proc{{Regs: 2, Ins: 1, Outs: 1}}}
	var l []Rule
	for _, s := range []string{"absolute:2:set:i0:5", "relative:3:set:p0r1:0x10", "absolute:6:show:o0:hex", "relative:4:get:o0", "onexit:show:p0r0", "onvalid:show:o0"} {
		r, _ := Parse(s)
		l = append(l, r)
	}
	l[2].Suspended = true
	if f := PredictSets(l, 2, sh); len(f) != 1 || f[0].Object != "i0" || f[0].Allowed[0] != 5 || f[0].Input != 0 {
		t.Fatalf("%+v", f)
	}
	if f := PredictSets(l, 6, sh); len(f) != 1 || f[0].Object != "p0r1" || f[0].Allowed[0] != 16 || f[0].Input != -1 || f[0].Timec != Rel {
		t.Fatalf("%+v", f)
	}
	if f := PredictSets(l, 0, sh); len(f) != 1 || !f[0].Optional {
		t.Fatalf("%+v", f)
	}
	must, _ := PredictReports(l, Show, 6, Events{RoseValid: map[string]bool{"o0": true}})
	if len(must) != 1 || must[0].Timec != OnValid {
		t.Fatalf("%+v", must)
	}
	must, _ = PredictReports(l, Get, 8, Events{})
	if len(must) != 1 || must[0].Object != "o0" {
		t.Fatalf("%+v", must)
	}
	must, _ = PredictReports(l, Show, 9, Events{Exit: true})
	if len(must) != 1 || must[0].Object != "p0r0" {
		t.Fatalf("%+v", must)
	}
	if !sh.Resolves("p0o0") || sh.Resolves("p1r0") || sh.Resolves("r0") || !sh.Resolves("i0v") || sh.Resolves("o1r") {
		t.Fatal("resolve")
	}
	for _, c := range []struct {
		f, s string
		w    int
		v    uint64
	}{{"unsigned", "201", 8, 201}, {"hex", "0x<8>c9", 8, 201}, {"hex", "0xC9", 8, 201}, {"signed", "-55", 8, 201}, {"binary", "0b<8>110", 8, 6}, {"bin", "0b110", 8, 6}} {
		if v, ok := Decode(c.f, c.s, c.w); !ok || v != c.v {
			t.Fatalf("decode %v: %d %v", c, v, ok)
		}
	}
	if _, ok := Decode("unsigned", "0x<8>c9", 8); ok {
		t.Fatal("hex text accepted as unsigned")
	}
}
