// Package rules is the reference model of simbox rule lists (property C15):
// the documented textual forms (docs/simbox-rules.md, cmd/simbox/README.md),
// list histories (add / delete / suspend / reactivate / save-reload) and a
// predictor that says, from the ACTIVE rules alone, what a simulation has to
// inject and to report at every tick. It is pure Go and shares no code with
// the repository: the parser, the printer and the tick arithmetic below are
// written from the documentation.
package rules

import (
	"errors"
	"fmt"
	"sort"
	"strconv"
	"strings"
)

// Time constraints and actions; the numeric values are those of the rule
// file (JSON) format so that a model rule and a real rule compare field by field.
const (
	Abs     uint8 = 0
	None    uint8 = 1
	Rel     uint8 = 2
	OnValid uint8 = 3
	OnRecv  uint8 = 4
	OnExit  uint8 = 5
)

const (
	Set    uint8 = 0
	Get    uint8 = 1
	Show   uint8 = 2
	Config uint8 = 3
)

type Rule struct {
	Timec     uint8
	Tick      uint64
	Action    uint8
	Object    string
	Extra     string
	Suspended bool
}

var timecNames = map[uint8]string{Abs: "absolute", None: "config", Rel: "relative", OnValid: "onvalid", OnRecv: "onrecv", OnExit: "onexit"}
var actionNames = map[uint8]string{Set: "set", Get: "get", Show: "show", Config: "config"}

func TimecName(t uint8) string  { return timecNames[t] }
func ActionName(a uint8) string { return actionNames[a] }

// SimpleOptions are the configuration rules without parameter, BulkOptions
// those with a format parameter (docs "Configuration Rules").
var SimpleOptions = []string{"show_pc", "show_instruction", "show_disasm", "show_ticks", "get_ticks",
	"show_proc_regs_pre", "show_proc_regs_post", "show_proc_io_pre", "show_proc_io_post", "show_io_pre", "show_io_post"}
var BulkOptions = []string{"get_all", "get_all_internal", "show_all", "show_all_internal"}

// Formats are the documented "extra" format names.
var Formats = []string{"unsigned", "signed", "hex", "binary"}

func isBulk(o string) bool {
	for _, b := range BulkOptions {
		if b == o {
			return true
		}
	}
	return false
}

func isSimple(o string) bool {
	for _, b := range SimpleOptions {
		if b == o {
			return true
		}
	}
	return false
}

// Form names the documented rule form of r (used in violation signatures).
func (r Rule) Form() string {
	if r.Timec == None {
		return "config-" + r.Object
	}
	return timecNames[r.Timec] + "-" + actionNames[r.Action]
}

// Text prints r in its documented form. withType=false leaves the optional
// format field out where the documentation allows that (get/show rules whose
// format is the default "unsigned").
func (r Rule) Text(withType bool) string {
	omit := !withType && r.Extra == "unsigned" && (r.Action == Get || r.Action == Show)
	tail := ":" + r.Extra
	if omit {
		tail = ""
	}
	switch r.Timec {
	case Abs, Rel:
		return timecNames[r.Timec] + ":" + strconv.FormatUint(r.Tick, 10) + ":" + actionNames[r.Action] + ":" + r.Object + tail
	case OnValid, OnRecv, OnExit:
		return timecNames[r.Timec] + ":" + actionNames[r.Action] + ":" + r.Object + tail
	case None:
		if isBulk(r.Object) {
			return "config:" + r.Object + ":" + r.Extra
		}
		return "config:" + r.Object
	}
	return ""
}

// String is the canonical form (every field present).
func (r Rule) String() string { return r.Text(true) }

var ErrDecode = errors.New("rule cannot be decoded")

// Parse reads one rule in any documented form.
func Parse(text string) (Rule, error) {
	w := strings.Split(text, ":")
	switch w[0] {
	case "absolute", "relative":
		if len(w) != 4 && len(w) != 5 {
			return Rule{}, ErrDecode
		}
		tick, err := strconv.ParseUint(w[1], 10, 63)
		if err != nil {
			return Rule{}, ErrDecode
		}
		r := Rule{Timec: Abs, Tick: tick, Object: w[3]}
		if w[0] == "relative" {
			r.Timec = Rel
		}
		switch w[2] {
		case "set":
			if len(w) != 5 {
				return Rule{}, ErrDecode
			}
			r.Action, r.Extra = Set, w[4]
		case "get", "show":
			r.Action = Get
			if w[2] == "show" {
				r.Action = Show
			}
			r.Extra = "unsigned"
			if len(w) == 5 {
				r.Extra = w[4]
			}
		default:
			return Rule{}, ErrDecode
		}
		return r, nil
	case "onvalid", "onrecv", "onexit":
		if len(w) != 3 && len(w) != 4 {
			return Rule{}, ErrDecode
		}
		r := Rule{Object: w[2], Extra: "unsigned"}
		switch w[0] {
		case "onvalid":
			r.Timec = OnValid
		case "onrecv":
			r.Timec = OnRecv
		default:
			r.Timec = OnExit
		}
		switch w[1] {
		case "get":
			r.Action = Get
		case "show":
			r.Action = Show
		default:
			return Rule{}, ErrDecode
		}
		if len(w) == 4 {
			r.Extra = w[3]
		}
		return r, nil
	case "config":
		if len(w) == 2 && isSimple(w[1]) {
			return Rule{Timec: None, Action: Config, Object: w[1]}, nil
		}
		if len(w) == 3 && isBulk(w[1]) {
			return Rule{Timec: None, Action: Config, Object: w[1], Extra: w[2]}, nil
		}
	}
	return Rule{}, ErrDecode
}

// ---- lists and histories -----------------------------------------------------

// Op is one operation on a rule list.
type Op struct {
	Kind string // add, del, suspend, reactivate, reload
	Idx  int
	Text string
}

func (o Op) String() string {
	switch o.Kind {
	case "add":
		return "add " + o.Text
	case "reload":
		return "save+reload"
	}
	return fmt.Sprintf("%s %d", o.Kind, o.Idx)
}

// Apply returns the list after op; ok=false means the operation must be
// refused (index out of range, undecodable rule) and leave the list as it was.
func Apply(l []Rule, op Op) (out []Rule, ok bool) {
	out = append([]Rule(nil), l...)
	switch op.Kind {
	case "add":
		r, err := Parse(op.Text)
		if err != nil {
			return out, false
		}
		return append(out, r), true
	case "del":
		if op.Idx < 0 || op.Idx >= len(out) {
			return out, false
		}
		return append(out[:op.Idx], out[op.Idx+1:]...), true
	case "suspend", "reactivate":
		if op.Idx < 0 || op.Idx >= len(out) {
			return out, false
		}
		out[op.Idx].Suspended = op.Kind == "suspend"
		return out, true
	case "reload":
		return out, true
	}
	return out, false
}

// Active returns the rules a simulation has to honour.
func Active(l []Rule) []Rule {
	var out []Rule
	for _, r := range l {
		if !r.Suspended {
			out = append(out, r)
		}
	}
	return out
}

// Listing is the documented list output: "NNN - <rule>[ [SUSPENDED]]" per line.
func Listing(l []Rule) string {
	var b strings.Builder
	for i, r := range l {
		fmt.Fprintf(&b, "%03d - %s", i, r.String())
		if r.Suspended {
			b.WriteString(" [SUSPENDED]")
		}
		b.WriteString("\n")
	}
	return b.String()
}

// ParseListing reads a listing back.
func ParseListing(s string) ([]Rule, error) {
	var out []Rule
	if s == "" {
		return out, nil
	}
	if !strings.HasSuffix(s, "\n") {
		return nil, errors.New("listing does not end with a newline")
	}
	for i, line := range strings.Split(strings.TrimSuffix(s, "\n"), "\n") {
		sep := strings.Index(line, " - ")
		if sep < 0 {
			return nil, fmt.Errorf("line %d has no index separator: %q", i, line)
		}
		idx, err := strconv.Atoi(line[:sep])
		if err != nil || idx != i {
			return nil, fmt.Errorf("line %d carries index %q", i, line[:sep])
		}
		body := line[sep+3:]
		susp := false
		if strings.HasSuffix(body, " [SUSPENDED]") {
			susp = true
			body = strings.TrimSuffix(body, " [SUSPENDED]")
		}
		r, err := Parse(body)
		if err != nil {
			return nil, fmt.Errorf("line %d: %q does not parse", i, body)
		}
		r.Suspended = susp
		out = append(out, r)
	}
	return out, nil
}

// ---- machine shape and object names -------------------------------------------

type Proc struct{ Regs, Ins, Outs int }

type Shape struct {
	Rsize   int
	Inputs  int
	Outputs int
	Procs   []Proc
}

func (s Shape) Mask() uint64 {
	if s.Rsize >= 64 {
		return ^uint64(0)
	}
	return (uint64(1) << uint(s.Rsize)) - 1
}

// Width is the width of the value container the simulator uses for Rsize.
func (s Shape) Width() int {
	switch {
	case s.Rsize <= 8:
		return 8
	case s.Rsize <= 16:
		return 16
	case s.Rsize <= 32:
		return 32
	}
	return 64
}

const (
	KUnknown = iota
	KIn
	KOut
	KInValid
	KInRecv
	KOutValid
	KOutRecv
	KProcIn
	KProcOut
	KProcReg
)

func num(s string) (int, bool) {
	if s == "" {
		return 0, false
	}
	for _, c := range s {
		if c < '0' || c > '9' {
			return 0, false
		}
	}
	n, err := strconv.Atoi(s)
	return n, err == nil
}

// ParseObject splits an object mnemonic (i<k>, o<k>, i<k>v, i<k>r, o<k>v,
// o<k>r, p<k>i<j>, p<k>o<j>, p<k>r<j>).
func ParseObject(s string) (kind, a, b int) {
	if len(s) < 2 {
		return KUnknown, 0, 0
	}
	switch s[0] {
	case 'i', 'o':
		body := s[1:]
		suffix := byte(0)
		if l := body[len(body)-1]; l == 'v' || l == 'r' {
			suffix = l
			body = body[:len(body)-1]
		}
		n, ok := num(body)
		if !ok {
			return KUnknown, 0, 0
		}
		switch {
		case s[0] == 'i' && suffix == 0:
			return KIn, n, 0
		case s[0] == 'i' && suffix == 'v':
			return KInValid, n, 0
		case s[0] == 'i':
			return KInRecv, n, 0
		case suffix == 0:
			return KOut, n, 0
		case suffix == 'v':
			return KOutValid, n, 0
		}
		return KOutRecv, n, 0
	case 'p':
		rest := s[1:]
		pos := strings.IndexAny(rest, "ior")
		if pos <= 0 {
			return KUnknown, 0, 0
		}
		p, ok1 := num(rest[:pos])
		j, ok2 := num(rest[pos+1:])
		if !ok1 || !ok2 {
			return KUnknown, 0, 0
		}
		switch rest[pos] {
		case 'i':
			return KProcIn, p, j
		case 'o':
			return KProcOut, p, j
		}
		return KProcReg, p, j
	}
	return KUnknown, 0, 0
}

// Resolves reports whether obj names an element of a machine of this shape.
func (s Shape) Resolves(obj string) bool {
	k, a, b := ParseObject(obj)
	switch k {
	case KIn, KInValid, KInRecv:
		return a < s.Inputs
	case KOut, KOutValid, KOutRecv:
		return a < s.Outputs
	case KProcIn:
		return a < len(s.Procs) && b < s.Procs[a].Ins
	case KProcOut:
		return a < len(s.Procs) && b < s.Procs[a].Outs
	case KProcReg:
		return a < len(s.Procs) && b < s.Procs[a].Regs
	}
	return false
}

// ValueObjects lists every data-carrying object of the shape in a fixed order.
func (s Shape) ValueObjects() []string {
	var out []string
	for i := 0; i < s.Inputs; i++ {
		out = append(out, fmt.Sprintf("i%d", i))
	}
	for i := 0; i < s.Outputs; i++ {
		out = append(out, fmt.Sprintf("o%d", i))
	}
	for p, pr := range s.Procs {
		for j := 0; j < pr.Regs; j++ {
			out = append(out, fmt.Sprintf("p%dr%d", p, j))
		}
		for j := 0; j < pr.Ins; j++ {
			out = append(out, fmt.Sprintf("p%di%d", p, j))
		}
		for j := 0; j < pr.Outs; j++ {
			out = append(out, fmt.Sprintf("p%do%d", p, j))
		}
	}
	return out
}

// HasValidSignal: objects that own a valid flag (what an onvalid rule can watch).
func HasValidSignal(obj string) bool {
	k, _, _ := ParseObject(obj)
	return k == KIn || k == KOut
}

// ---- values ---------------------------------------------------------------------

// ParseValue reads the value of a set rule: decimal, 0x hex, 0b binary, 0u / 0d decimal.
func ParseValue(s string) (uint64, bool) {
	base, body := 10, s
	switch {
	case strings.HasPrefix(s, "0x"):
		base, body = 16, s[2:]
	case strings.HasPrefix(s, "0b"):
		base, body = 2, s[2:]
	case strings.HasPrefix(s, "0u"), strings.HasPrefix(s, "0d"):
		body = s[2:]
	}
	v, err := strconv.ParseUint(body, base, 64)
	return v, err == nil
}

func stripSize(s string) string {
	if strings.HasPrefix(s, "<") {
		if i := strings.IndexByte(s, '>'); i > 0 {
			return s[i+1:]
		}
	}
	return s
}

// Decode turns a reported text back into the value it stands for under the
// given format; width is the container width (for signed values). The layout
// is deliberately liberal (prefix and size annotation optional): the
// documentation names the formats, not their exact spelling.
func Decode(format, text string, width int) (uint64, bool) {
	mask := ^uint64(0)
	if width < 64 {
		mask = (uint64(1) << uint(width)) - 1
	}
	switch format {
	case "unsigned", "":
		t := strings.TrimPrefix(strings.TrimPrefix(text, "0u"), "0d")
		v, err := strconv.ParseUint(stripSize(t), 10, 64)
		return v, err == nil
	case "signed":
		t := strings.TrimPrefix(strings.TrimPrefix(text, "0sd"), "0s")
		v, err := strconv.ParseInt(stripSize(t), 10, 64)
		return uint64(v) & mask, err == nil
	case "hex":
		if !strings.HasPrefix(text, "0x") {
			return 0, false
		}
		v, err := strconv.ParseUint(stripSize(text[2:]), 16, 64)
		return v, err == nil
	case "binary", "bin":
		if !strings.HasPrefix(text, "0b") {
			return 0, false
		}
		v, err := strconv.ParseUint(stripSize(text[2:]), 2, 64)
		return v, err == nil
	}
	return 0, false
}

// ---- prediction -------------------------------------------------------------------

// SetFire: at this tick the named object has to take one of the Allowed values
// (several only when the rule list itself is contradictory for that tick).
type SetFire struct {
	Object   string
	Allowed  []uint64
	Rules    []int // indices into the list handed to PredictSets
	Timec    uint8 // of the first contributing rule
	Input    int   // >= 0: external input whose valid flag has to be raised as well
	Optional bool  // documentation does not say whether the rule fires here (periodic rule at tick 0)
}

// PredictSets returns what has to be injected at tick (before the machine
// computes that tick), from the non-suspended set rules of l.
func PredictSets(l []Rule, tick uint64, sh Shape) []SetFire {
	by := map[string]*SetFire{}
	var order []string
	for i, r := range l {
		if r.Suspended || r.Action != Set {
			continue
		}
		optional := false
		switch r.Timec {
		case Abs:
			if r.Tick != tick {
				continue
			}
		case Rel:
			if r.Tick == 0 || tick%r.Tick != 0 {
				continue
			}
			optional = tick == 0
		default:
			continue
		}
		v, ok := ParseValue(r.Extra)
		if !ok {
			continue
		}
		v &= sh.Mask()
		f := by[r.Object]
		if f == nil {
			f = &SetFire{Object: r.Object, Timec: r.Timec, Input: -1, Optional: true}
			if k, a, _ := ParseObject(r.Object); k == KIn {
				f.Input = a
			}
			by[r.Object] = f
			order = append(order, r.Object)
		}
		f.Allowed = append(f.Allowed, v)
		f.Rules = append(f.Rules, i)
		if !optional {
			f.Optional = false
		}
	}
	sort.Strings(order)
	out := make([]SetFire, 0, len(order))
	for _, o := range order {
		out = append(out, *by[o])
	}
	return out
}

// Events of one loop iteration, derived from the trace of the same simulation.
type Events struct {
	Exit      bool            // the stop condition was met: this iteration only reports
	LastTick  bool            // last iteration of a run that ends because its tick budget is used up
	RoseValid map[string]bool // objects whose valid flag is up after this tick and was down after the previous one
	RoseRecv  map[string]bool // same for the receive flag
}

// RepFire: the object has to be reported (get or show) in this iteration, in Format.
type RepFire struct {
	Object string
	Format string
	Rule   int
	Timec  uint8
	AtEnd  bool // onexit rule demanded because the run ended by exhausting its tick budget
}

// PredictReports returns the reports of the given action (Get or Show) for one
// iteration: must have to be there, may are allowed (the documentation leaves
// them open: periodic rules at tick 0, time based rules in the final
// report-only iteration).
func PredictReports(l []Rule, action uint8, tick uint64, ev Events) (must, may []RepFire) {
	for i, r := range l {
		if r.Suspended || r.Action != action {
			continue
		}
		f := RepFire{Object: r.Object, Format: r.Extra, Rule: i, Timec: r.Timec}
		switch r.Timec {
		case Abs:
			if r.Tick != tick {
				continue
			}
			if ev.Exit {
				may = append(may, f)
			} else {
				must = append(must, f)
			}
		case Rel:
			if r.Tick == 0 || tick%r.Tick != 0 {
				continue
			}
			if ev.Exit || tick == 0 {
				may = append(may, f)
			} else {
				must = append(must, f)
			}
		case OnValid:
			if ev.RoseValid[r.Object] {
				must = append(must, f)
			}
		case OnRecv:
			if ev.RoseRecv[r.Object] {
				must = append(must, f)
			}
		case OnExit:
			if ev.Exit {
				must = append(must, f)
			} else if ev.LastTick {
				f.AtEnd = true
				must = append(must, f)
			}
		}
	}
	return must, may
}

// ReportsEverything: a bulk get option is active, every reportable column may be filled at every tick.
func ReportsEverything(l []Rule, action uint8) bool {
	for _, r := range l {
		if r.Suspended || r.Timec != None {
			continue
		}
		if action == Get && (r.Object == "get_all" || r.Object == "get_all_internal") {
			return true
		}
		if action == Show && (r.Object == "show_all" || r.Object == "show_all_internal") {
			return true
		}
	}
	return false
}

// WouldFire: would r (were it active) do something in a run of nticks ticks?
func WouldFire(r Rule, nticks uint64) bool {
	switch r.Timec {
	case Abs:
		return r.Tick < nticks
	case Rel:
		return r.Tick > 0 && r.Tick < nticks
	}
	return true
}

// FirstSetTick is the first tick at which a non-suspended set rule of l fires for certain.
func FirstSetTick(l []Rule, nticks uint64) (uint64, bool) {
	best, found := uint64(0), false
	for _, r := range l {
		if r.Suspended || r.Action != Set {
			continue
		}
		var t uint64
		switch r.Timec {
		case Abs:
			t = r.Tick
		case Rel:
			if r.Tick == 0 {
				continue
			}
			t = 0 // may fire at tick 0 already
		default:
			continue
		}
		if t < nticks && (!found || t < best) {
			best, found = t, true
		}
	}
	return best, found
}
