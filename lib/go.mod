module veriflib

go 1.25

require github.com/anishathalye/porcupine v1.3.0
