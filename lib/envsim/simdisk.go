package envsim

// simdisk: a byte store with named files and two images. The volatile image
// is what the running system reads back (page cache), the durable image is
// what survives a dirty restart. Writes are acknowledged against the volatile
// image; Sync moves a file to the durable image, and that is where the
// storage faults act. Every fault is counted in Fired only when it actually
// changed what became durable (a "torn write" at an offset beyond the file is
// no fault). Nothing here draws random numbers: the caller supplies the fault
// plan (kind + position), so a harness can sample plans from its tape or
// enumerate them.

import (
	"errors"
	"sort"
)

const (
	DiskNone               = iota
	DiskShort              // only the first N bytes of the file reach the durable image (the write was acknowledged in full)
	DiskTornOldPrefix      // bytes [0,N) keep the previous durable content, bytes [N,len) are new
	DiskTornNewPrefix      // bytes [0,N) are new, from N on the previous durable content stays
	DiskLost               // acknowledged, but nothing ever reaches the durable image
	DiskENOSPC             // the write fails with ErrNoSpace after N bytes
	DiskCrashAfterTruncate // dirty restart between the truncation (os.Create) and the write
	DiskBitFlip            // bit N of the durable image flips at rest, after a correct write and sync
	NDiskFaults
)

var DiskFaultNames = [NDiskFaults]string{"none", "short", "torn-old-prefix", "torn-new-prefix", "lost", "enospc", "crash-after-truncate", "bitflip"}

// DiskPlan is the fault that hits one write.
type DiskPlan struct {
	Kind int
	N    int // byte count (short, enospc), byte offset (torn), bit index (bitflip)
}

var (
	ErrNoSpace  = errors.New("simdisk: no space left on device")
	ErrCrashed  = errors.New("simdisk: system crashed")
	ErrNotExist = errors.New("simdisk: file does not exist")
	ErrRange    = errors.New("simdisk: position outside the file")
)

const SectorSize = 512

type Disk struct {
	vol     map[string][]byte
	dur     map[string][]byte
	pending map[string]DiskPlan // durability fault waiting for the next Sync of the file
	Fired   map[string]int
}

func NewDisk() *Disk {
	return &Disk{vol: map[string][]byte{}, dur: map[string][]byte{}, pending: map[string]DiskPlan{}, Fired: map[string]int{}}
}

func clone(b []byte) []byte {
	out := make([]byte, len(b))
	copy(out, b)
	return out
}

func equal(a, b []byte) bool {
	if len(a) != len(b) {
		return false
	}
	for i := range a {
		if a[i] != b[i] {
			return false
		}
	}
	return true
}

// Create truncates (or creates) the file in the volatile image, like
// os.Create. The durable image keeps its content until Sync.
func (d *Disk) Create(name string) error {
	d.vol[name] = []byte{}
	delete(d.pending, name)
	return nil
}

// Write appends data to the file (the sequential write that follows Create).
// Only DiskENOSPC is visible to the writer; the other kinds are acknowledged
// in full and act when the file becomes durable.
func (d *Disk) Write(name string, data []byte, p DiskPlan) (int, error) {
	cur, ok := d.vol[name]
	if !ok {
		return 0, ErrNotExist
	}
	switch p.Kind {
	case DiskENOSPC:
		n := p.N
		if n < 0 {
			n = 0
		}
		if n >= len(data) {
			d.vol[name] = append(cur, data...)
			return len(data), nil
		}
		d.vol[name] = append(cur, data[:n]...)
		d.Fired["enospc"]++
		return n, ErrNoSpace
	case DiskShort, DiskTornOldPrefix, DiskTornNewPrefix, DiskLost:
		d.pending[name] = p
	}
	d.vol[name] = append(cur, data...)
	return len(data), nil
}

// Sync makes the file durable, subject to the pending fault of its last write.
func (d *Disk) Sync(name string) error {
	cur, ok := d.vol[name]
	if !ok {
		return ErrNotExist
	}
	old := d.dur[name]
	p := d.pending[name]
	delete(d.pending, name)
	res := clone(cur)
	switch p.Kind {
	case DiskShort:
		if p.N >= 0 && p.N < len(cur) {
			res = clone(cur[:p.N])
		}
	case DiskTornOldPrefix:
		b := p.N
		if b > len(cur) {
			b = len(cur)
		}
		for i := 0; i < b; i++ {
			if i < len(old) {
				res[i] = old[i]
			} else {
				res[i] = 0 // never written: a hole
			}
		}
	case DiskTornNewPrefix:
		b := p.N
		if b < 0 {
			b = 0
		}
		if b < len(cur) {
			res = clone(cur[:b])
			if b < len(old) {
				res = append(res, old[b:]...)
			}
		}
	case DiskLost:
		if _, had := d.dur[name]; !had {
			// nothing durable at all: the file does not exist after a restart
			if len(cur) > 0 {
				d.Fired["lost"]++
			}
			return nil
		}
		res = clone(old)
	}
	if p.Kind != DiskNone && !equal(res, cur) {
		d.Fired[DiskFaultNames[p.Kind]]++
	}
	d.dur[name] = res
	return nil
}

// Crash is the dirty restart: the volatile image is discarded, what the
// system sees afterwards is the durable image.
func (d *Disk) Crash() {
	d.vol = map[string][]byte{}
	for k, v := range d.dur {
		d.vol[k] = clone(v)
	}
	d.pending = map[string]DiskPlan{}
	d.Fired["crash"]++
}

// FlipBit flips one bit of the durable image (corruption at rest). It is
// seen by readers after the next Crash.
func (d *Disk) FlipBit(name string, bit int) error {
	b, ok := d.dur[name]
	if !ok {
		return ErrNotExist
	}
	if bit < 0 || bit >= 8*len(b) {
		return ErrRange
	}
	b[bit/8] ^= 1 << uint(bit%8)
	d.Fired["bitflip"]++
	return nil
}

// Read returns the file as the running system sees it.
func (d *Disk) Read(name string) ([]byte, error) {
	b, ok := d.vol[name]
	if !ok {
		return nil, ErrNotExist
	}
	return clone(b), nil
}

// ReadDurable returns what a restart would find.
func (d *Disk) ReadDurable(name string) ([]byte, error) {
	b, ok := d.dur[name]
	if !ok {
		return nil, ErrNotExist
	}
	return clone(b), nil
}

// Files lists the files of the volatile image.
func (d *Disk) Files() []string {
	var out []string
	for k := range d.vol {
		out = append(out, k)
	}
	sort.Strings(out)
	return out
}

// WriteFile is the sequence the command line tools use to save a file:
// os.Create, one WriteString, close (modelled as Sync). The error is what the
// tool sees; a nil error says nothing about what is durable.
func (d *Disk) WriteFile(name string, data []byte, p DiskPlan) error {
	if err := d.Create(name); err != nil {
		return err
	}
	if p.Kind == DiskCrashAfterTruncate {
		// the truncation reached the disk, the data never did
		if prev, had := d.dur[name]; !had || len(prev) > 0 || len(data) > 0 {
			d.Fired["crash-after-truncate"]++
		}
		d.dur[name] = []byte{}
		d.Crash()
		return ErrCrashed
	}
	n, err := d.Write(name, data, p)
	if err != nil {
		// the tools do not clean up: what was written stays
		d.Sync(name)
		return err
	}
	if n != len(data) {
		return errors.New("simdisk: short write")
	}
	if err := d.Sync(name); err != nil {
		return err
	}
	if p.Kind == DiskBitFlip {
		if err := d.FlipBit(name, p.N); err != nil {
			return nil // no such bit: no fault
		}
	}
	return nil
}

// SectorBoundaries returns the offsets k*SectorSize with 0 < offset < n.
func SectorBoundaries(n int) []int {
	var out []int
	for b := SectorSize; b < n; b += SectorSize {
		out = append(out, b)
	}
	return out
}
