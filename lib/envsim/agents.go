// Package envsim holds the environment side of the simulations: 4-phase
// valid/received handshake agents with seeded stalls (used against both the
// Go simulator, per tick, and vsim, per clock) and the simulated disk.
package envsim

// Draw yields a value in [0,n) from the run's tape.
type Draw func(n int) int

// Stall profiles: how long an agent waits before each protocol reaction.
const (
	StallNone = iota // react at once
	StallShort       // 0..3
	StallLong        // mostly short, sometimes up to 60
	StallEdge        // 0 or 1: "exactly when the peer changes, or just after"
	NProfiles
)

func stall(profile int, d Draw) int {
	switch profile {
	case StallShort:
		return d(4)
	case StallLong:
		if d(6) == 1 {
			return d(60)
		}
		return d(3)
	case StallEdge:
		return d(2)
	}
	return 0
}

// Source offers a stream on a handshaked input: raise valid with the data,
// hold both until received is seen, lower valid, wait for received to fall.
type Source struct {
	Vals    []uint64
	Profile int
	// outputs towards the design
	Valid bool
	Data  uint64
	// bookkeeping
	Pos       int // values whose transfer completed
	state     int // 0 idle/stalling before offer, 1 offering, 2 saw recv (stalling before drop), 3 dropped (waiting recv low)
	wait      int
	StalledHi int // ticks spent holding valid high after recv was seen (reach probe)
}

// Tick advances the agent one step given the received line it observes now.
// maxRTZ >= 0 bounds the stall of the return-to-zero phases (disciplined
// runs); -1 means unbounded by the profile.
func (s *Source) Tick(recv bool, d Draw, quiet bool, maxRTZ int) {
	prof := s.Profile
	if quiet {
		prof = StallNone
		s.wait = 0 // faults have stopped: a stall drawn earlier does not outlast them
	}
	switch s.state {
	case 0:
		if s.Pos >= len(s.Vals) {
			return
		}
		if recv {
			return // previous handshake not yet back to zero
		}
		if s.wait > 0 {
			s.wait--
			return
		}
		s.Valid, s.Data = true, s.Vals[s.Pos]
		s.state = 1
	case 1:
		if recv {
			s.state = 2
			s.wait = stall(prof, d)
			if maxRTZ >= 0 && s.wait > maxRTZ {
				s.wait = maxRTZ
			}
			if s.wait == 0 {
				s.Valid = false
				s.state = 3
			}
		}
	case 2:
		s.StalledHi++
		s.wait--
		if s.wait <= 0 {
			s.Valid = false
			s.state = 3
		}
	case 3:
		if !recv {
			s.Pos++
			s.state = 0
			s.wait = stall(prof, d)
		}
	}
}

// Sink consumes a handshaked output: raise received only while valid is
// high (recording the data at that moment), lower it only after valid fell.
type Sink struct {
	Profile int
	Recv    bool
	Got     []uint64
	state   int // 0 waiting valid, 1 stalling before ack, 2 acked (waiting valid low), 3 stalling before release
	wait    int
	StalledValid int // ticks valid was high before the ack (reach probe: "stall landed while valid high")
}

func (k *Sink) Tick(valid bool, data uint64, d Draw, quiet bool, maxRTZ int) {
	prof := k.Profile
	if quiet {
		prof = StallNone
		k.wait = 0 // faults have stopped: a stall drawn earlier does not outlast them
	}
	switch k.state {
	case 0:
		if valid {
			k.wait = stall(prof, d)
			if k.wait == 0 {
				k.Recv = true
				k.Got = append(k.Got, data)
				k.state = 2
			} else {
				k.state = 1
			}
		}
	case 1:
		k.StalledValid++
		k.wait--
		if k.wait <= 0 {
			if !valid {
				// a protocol-abiding producer holds valid until received; report by not acking
				k.state = 0
				return
			}
			k.Recv = true
			k.Got = append(k.Got, data)
			k.state = 2
		}
	case 2:
		if !valid {
			k.wait = stall(prof, d)
			if maxRTZ >= 0 && k.wait > maxRTZ {
				k.wait = maxRTZ
			}
			if k.wait == 0 {
				k.Recv = false
				k.state = 0
			} else {
				k.state = 3
			}
		}
	case 3:
		k.wait--
		if k.wait <= 0 {
			k.Recv = false
			k.state = 0
		}
	}
}
