package envsim

import (
	"bytes"
	"testing"
)

func mk(n int, c byte) []byte { return bytes.Repeat([]byte{c}, n) }

func restart(t *testing.T, d *Disk, name string) []byte {
	t.Helper()
	d.Crash()
	b, err := d.Read(name)
	if err != nil {
		t.Fatalf("read after restart: %v", err)
	}
	return b
}

func TestDiskPlainWriteSyncCrash(t *testing.T) {
	d := NewDisk()
	if _, err := d.Read("f"); err != ErrNotExist {
		t.Fatalf("want ErrNotExist, got %v", err)
	}
	if err := d.WriteFile("f", []byte("hello"), DiskPlan{}); err != nil {
		t.Fatal(err)
	}
	if b, _ := d.Read("f"); string(b) != "hello" {
		t.Fatalf("volatile: %q", b)
	}
	if b := restart(t, d, "f"); string(b) != "hello" {
		t.Fatalf("durable: %q", b)
	}
	// unsynced data is lost by a restart, the old durable content comes back
	d.Create("f")
	d.Write("f", []byte("new content"), DiskPlan{})
	if b, _ := d.Read("f"); string(b) != "new content" {
		t.Fatalf("volatile after write: %q", b)
	}
	if b := restart(t, d, "f"); string(b) != "hello" {
		t.Fatalf("unsynced write survived: %q", b)
	}
	// a file that was never synced does not exist after a restart
	d.Create("g")
	d.Write("g", []byte("x"), DiskPlan{})
	d.Crash()
	if _, err := d.Read("g"); err != ErrNotExist {
		t.Fatalf("unsynced file exists after restart: %v", err)
	}
	if len(d.Fired) != 1 || d.Fired["crash"] != 3 {
		t.Fatalf("fired: %v", d.Fired)
	}
	// Read returns a copy
	b, _ := d.Read("f")
	b[0] = 'X'
	if c, _ := d.Read("f"); string(c) != "hello" {
		t.Fatalf("Read aliases the image: %q", c)
	}
	if got := d.Files(); len(got) != 1 || got[0] != "f" {
		t.Fatalf("files: %v", got)
	}
}

func TestDiskShort(t *testing.T) {
	for n := 0; n <= 6; n++ {
		d := NewDisk()
		d.WriteFile("f", []byte("old"), DiskPlan{})
		if err := d.WriteFile("f", []byte("abcde"), DiskPlan{Kind: DiskShort, N: n}); err != nil {
			t.Fatalf("short write must be acknowledged: %v", err)
		}
		if b, _ := d.Read("f"); string(b) != "abcde" {
			t.Fatalf("volatile image must hold the full write: %q", b)
		}
		b := restart(t, d, "f")
		want := "abcde"
		if n < 5 {
			want = want[:n]
		}
		if string(b) != want {
			t.Fatalf("n=%d: durable %q want %q", n, b, want)
		}
		if fired := d.Fired["short"]; (n < 5) != (fired == 1) {
			t.Fatalf("n=%d fired=%d", n, fired)
		}
	}
}

func TestDiskTorn(t *testing.T) {
	old := append(mk(512, 'o'), mk(512, 'p')...) // 1024
	nw := append(append(mk(512, 'a'), mk(512, 'b')...), mk(100, 'c')...)
	d := NewDisk()
	d.WriteFile("f", old, DiskPlan{})
	d.WriteFile("f", nw, DiskPlan{Kind: DiskTornOldPrefix, N: 512})
	b := restart(t, d, "f")
	want := append(append(mk(512, 'o'), mk(512, 'b')...), mk(100, 'c')...)
	if !bytes.Equal(b, want) {
		t.Fatalf("old-prefix tear wrong: len %d", len(b))
	}
	if d.Fired["torn-old-prefix"] != 1 {
		t.Fatalf("fired %v", d.Fired)
	}

	d = NewDisk()
	d.WriteFile("f", old, DiskPlan{})
	d.WriteFile("f", nw, DiskPlan{Kind: DiskTornNewPrefix, N: 512})
	b = restart(t, d, "f")
	want = append(mk(512, 'a'), mk(512, 'p')...)
	if !bytes.Equal(b, want) {
		t.Fatalf("new-prefix tear wrong: len %d", len(b))
	}
	if d.Fired["torn-new-prefix"] != 1 {
		t.Fatalf("fired %v", d.Fired)
	}

	// old content shorter than the boundary: a hole of zeros / nothing after the new prefix
	d = NewDisk()
	d.WriteFile("f", []byte("xy"), DiskPlan{})
	d.WriteFile("f", []byte("abcdef"), DiskPlan{Kind: DiskTornOldPrefix, N: 4})
	if b := restart(t, d, "f"); !bytes.Equal(b, []byte{'x', 'y', 0, 0, 'e', 'f'}) {
		t.Fatalf("hole: %q", b)
	}
	d = NewDisk()
	d.WriteFile("f", []byte("xy"), DiskPlan{})
	d.WriteFile("f", []byte("abcdef"), DiskPlan{Kind: DiskTornNewPrefix, N: 4})
	if b := restart(t, d, "f"); string(b) != "abcd" {
		t.Fatalf("new prefix, short old: %q", b)
	}

	// a boundary at or beyond the end of the new file: new-prefix is no fault
	d = NewDisk()
	d.WriteFile("f", old, DiskPlan{})
	d.WriteFile("f", []byte("abc"), DiskPlan{Kind: DiskTornNewPrefix, N: 512})
	if b := restart(t, d, "f"); string(b) != "abc" {
		t.Fatalf("%q", b)
	}
	if d.Fired["torn-new-prefix"] != 0 {
		t.Fatalf("fired without effect: %v", d.Fired)
	}
	// identical old and new content: a tear changes nothing and is not counted
	d = NewDisk()
	d.WriteFile("f", old, DiskPlan{})
	d.WriteFile("f", old, DiskPlan{Kind: DiskTornOldPrefix, N: 512})
	if b := restart(t, d, "f"); !bytes.Equal(b, old) {
		t.Fatal("identical tear changed the file")
	}
	if d.Fired["torn-old-prefix"] != 0 {
		t.Fatalf("fired without effect: %v", d.Fired)
	}
}

func TestDiskLost(t *testing.T) {
	d := NewDisk()
	d.WriteFile("f", []byte("old"), DiskPlan{})
	if err := d.WriteFile("f", []byte("new"), DiskPlan{Kind: DiskLost}); err != nil {
		t.Fatalf("lost write must be acknowledged: %v", err)
	}
	if b, _ := d.Read("f"); string(b) != "new" {
		t.Fatalf("volatile %q", b)
	}
	if b := restart(t, d, "f"); string(b) != "old" {
		t.Fatalf("durable %q", b)
	}
	if d.Fired["lost"] != 1 {
		t.Fatalf("fired %v", d.Fired)
	}
	// lost write of a new file: no file after restart
	d = NewDisk()
	d.WriteFile("g", []byte("new"), DiskPlan{Kind: DiskLost})
	d.Crash()
	if _, err := d.Read("g"); err != ErrNotExist {
		t.Fatalf("want ErrNotExist got %v", err)
	}
	if d.Fired["lost"] != 1 {
		t.Fatalf("fired %v", d.Fired)
	}
	// the fault hits one write only
	d.WriteFile("g", []byte("again"), DiskPlan{})
	if b := restart(t, d, "g"); string(b) != "again" {
		t.Fatalf("%q", b)
	}
}

func TestDiskENOSPC(t *testing.T) {
	d := NewDisk()
	d.WriteFile("f", []byte("old"), DiskPlan{})
	err := d.WriteFile("f", []byte("abcdef"), DiskPlan{Kind: DiskENOSPC, N: 2})
	if err != ErrNoSpace {
		t.Fatalf("want ErrNoSpace, got %v", err)
	}
	if b := restart(t, d, "f"); string(b) != "ab" {
		t.Fatalf("%q", b)
	}
	if d.Fired["enospc"] != 1 {
		t.Fatalf("fired %v", d.Fired)
	}
	// enough room: no fault
	d = NewDisk()
	if err := d.WriteFile("f", []byte("abc"), DiskPlan{Kind: DiskENOSPC, N: 3}); err != nil {
		t.Fatal(err)
	}
	if d.Fired["enospc"] != 0 {
		t.Fatalf("fired %v", d.Fired)
	}
	// the primitive reports the count
	d = NewDisk()
	d.Create("f")
	if n, err := d.Write("f", []byte("abcdef"), DiskPlan{Kind: DiskENOSPC, N: 4}); n != 4 || err != ErrNoSpace {
		t.Fatalf("n=%d err=%v", n, err)
	}
	if _, err := d.Write("nofile", []byte("x"), DiskPlan{}); err != ErrNotExist {
		t.Fatalf("write to a file that was not created: %v", err)
	}
}

func TestDiskCrashAfterTruncate(t *testing.T) {
	d := NewDisk()
	d.WriteFile("f", []byte("old"), DiskPlan{})
	if err := d.WriteFile("f", []byte("new"), DiskPlan{Kind: DiskCrashAfterTruncate}); err != ErrCrashed {
		t.Fatalf("want ErrCrashed got %v", err)
	}
	b, err := d.Read("f")
	if err != nil || len(b) != 0 {
		t.Fatalf("file must exist and be empty: %q %v", b, err)
	}
	if d.Fired["crash-after-truncate"] != 1 || d.Fired["crash"] != 1 {
		t.Fatalf("fired %v", d.Fired)
	}
}

func TestDiskBitFlip(t *testing.T) {
	data := []byte{0x00, 0xff, 0x10}
	for bit := 0; bit < 24; bit++ {
		d := NewDisk()
		if err := d.WriteFile("f", data, DiskPlan{Kind: DiskBitFlip, N: bit}); err != nil {
			t.Fatal(err)
		}
		// the cache still holds the good copy, the platter does not
		if b, _ := d.Read("f"); !bytes.Equal(b, data) {
			t.Fatalf("volatile image changed: %v", b)
		}
		b := restart(t, d, "f")
		diff := 0
		for i := range b {
			x := b[i] ^ data[i]
			for ; x != 0; x &= x - 1 {
				diff++
			}
			if i == bit/8 && b[i]^data[i] != 1<<uint(bit%8) {
				t.Fatalf("bit %d: wrong bit flipped: %08b", bit, b[i]^data[i])
			}
		}
		if diff != 1 || d.Fired["bitflip"] != 1 {
			t.Fatalf("bit %d: %d bits differ, fired %v", bit, diff, d.Fired)
		}
	}
	d := NewDisk()
	d.WriteFile("f", data, DiskPlan{Kind: DiskBitFlip, N: 24})
	if b := restart(t, d, "f"); !bytes.Equal(b, data) || d.Fired["bitflip"] != 0 {
		t.Fatalf("flip outside the file: %v %v", b, d.Fired)
	}
	if err := d.FlipBit("nofile", 0); err != ErrNotExist {
		t.Fatalf("%v", err)
	}
	if err := d.FlipBit("f", -1); err != ErrRange {
		t.Fatalf("%v", err)
	}
}

func TestSectorBoundaries(t *testing.T) {
	if b := SectorBoundaries(512); len(b) != 0 {
		t.Fatalf("%v", b)
	}
	if b := SectorBoundaries(513); len(b) != 1 || b[0] != 512 {
		t.Fatalf("%v", b)
	}
	if b := SectorBoundaries(1600); len(b) != 3 || b[2] != 1536 {
		t.Fatalf("%v", b)
	}
	if len(DiskFaultNames) != NDiskFaults {
		t.Fatal("names")
	}
}
