package simrt

import (
	"fmt"
	"hash/fnv"
	"runtime"
	"sort"
	"strconv"
	"strings"
	"sync"
	"sync/atomic"
)

// Stream names of the per-run tapes. Keeping the streams apart lets the
// minimiser shrink the schedule without shifting the generated workload.
const (
	StreamGen   = "gen"   // workload generation (harness)
	StreamSched = "sched" // which parked goroutine runs next
	StreamMap   = "map"   // map iteration policies
	StreamRand  = "rand"  // math/rand draws of the code under test
	StreamEnv   = "env"   // environment agents, stalls, faults
)

// Tapes is the set of named choice streams of one run.
type Tapes struct {
	mu     sync.Mutex
	seed   uint64
	run    uint64
	replay map[string][]uint32 // non-nil: replay mode
	t      map[string]*Tape
	root   *Tapes // non-nil: this is a prefixed view of root
	prefix string
}

// Sub returns a view whose stream names are prefixed; all draws are recorded
// in (and replayed from) the root set, so one replay file covers a run that
// consists of several simulated executions.
func (ts *Tapes) Sub(prefix string) *Tapes {
	root := ts
	if ts.root != nil {
		root = ts.root
		prefix = ts.prefix + prefix
	}
	return &Tapes{root: root, prefix: prefix + "/"}
}

func NewTapes(seed, run uint64) *Tapes {
	return &Tapes{seed: seed, run: run, t: map[string]*Tape{}}
}

func ReplayTapes(rec map[string][]uint32) *Tapes {
	if rec == nil {
		rec = map[string][]uint32{}
	}
	return &Tapes{replay: rec, t: map[string]*Tape{}}
}

func (ts *Tapes) Get(name string) *Tape {
	if ts.root != nil {
		return ts.root.Get(ts.prefix + name)
	}
	ts.mu.Lock()
	defer ts.mu.Unlock()
	if t, ok := ts.t[name]; ok {
		return t
	}
	var t *Tape
	if ts.replay != nil {
		t = ReplayTape(ts.replay[name])
	} else {
		h := fnv.New64a()
		h.Write([]byte(name))
		t = NewTape(ts.seed^h.Sum64(), ts.run)
	}
	ts.t[name] = t
	return t
}

// Recorded returns everything drawn so far, per stream.
func (ts *Tapes) Recorded() map[string][]uint32 {
	if ts.root != nil {
		return ts.root.Recorded()
	}
	ts.mu.Lock()
	defer ts.mu.Unlock()
	out := map[string][]uint32{}
	for k, t := range ts.t {
		out[k] = t.Recorded()
	}
	return out
}

// G is one simulated goroutine.
type G struct {
	ID       string // hierarchical: "0", "0.1", "0.1.2"; independent of interleaving
	Spawn    string // spawn site ("pkg.Func>callee")
	Site     string // last site reached (channel operation or yield)
	Op       string // what it is doing there: "start","send","recv","select","close","yield"
	wake     chan struct{}
	children int
	parked   bool
	ended    bool
	prio     int
}

// ExitPanic is the sentinel simrt.Exit panics with (os.Exit replacement).
type ExitPanic struct{ Code int }

// Event is one entry of the run's event log.
type Event struct {
	Step int
	G    string
	Kind string // release, spawn, end, map, rand, fault, probe, exit
	Site string
}

// Run is the state of one simulated execution.
type Run struct {
	mu     sync.Mutex
	Tapes  *Tapes
	byGoid map[int64]*G
	All    []*G
	Steps  int

	// map iteration policy
	MapMode  int // 0 canonical (all sorted), 1 all sites perturbed, 2 random subset, 3 single site, 4 forced (ForceMap)
	ForceMap map[string]int // mode 4: site -> policy, every other site sorted
	mapSites map[string]*mapSite
	mapOnly  int // for mode 3: index of the (lazily numbered) site to perturb
	// forced policies (replay / minimisation): site -> policy string
	MapSeen map[string]int // site -> calls with len>=2

	// log
	KeepLog bool
	Log     []Event
	logHash uint64
	NLog    int

	Probes map[string]int
	Faults map[string]int

	// outcome
	Exited   bool
	ExitCode int
	Panicked bool
	PanicVal string
	PanicG   string
	Stopped  bool // scheduler must not release anyone any more

	NewChan func() chan struct{} // creates the wake channel (inside the bubble)

	RandKeyed bool   // math/rand draws come from per-goroutine generators keyed by RandKey, not from the tape
	RandKey   uint64
	randGen   map[string]*Tape
}

var active atomic.Pointer[Run]

// Active returns the running simulation or nil.
func Active() *Run { return active.Load() }

// Start installs r as the active run. The caller (sched) is responsible for
// being inside the bubble.
func Start(r *Run) {
	if r.byGoid == nil {
		r.byGoid = map[int64]*G{}
	}
	if r.mapSites == nil {
		r.mapSites = map[string]*mapSite{}
	}
	if r.MapSeen == nil {
		r.MapSeen = map[string]int{}
	}
	if r.Probes == nil {
		r.Probes = map[string]int{}
	}
	if r.Faults == nil {
		r.Faults = map[string]int{}
	}
	r.logHash = 14695981039346656037
	if !active.CompareAndSwap(nil, r) {
		panic("simrt: a run is already active")
	}
}

// Stop removes the active run.
func Stop(r *Run) { active.CompareAndSwap(r, nil) }

func goid() int64 {
	var buf [64]byte
	n := runtime.Stack(buf[:], false)
	// "goroutine 123 ["
	s := buf[10:n]
	var id int64
	for _, c := range s {
		if c < '0' || c > '9' {
			break
		}
		id = id*10 + int64(c-'0')
	}
	return id
}

// Self returns the simulated goroutine the caller is, or nil.
func (r *Run) Self() *G {
	id := goid()
	r.mu.Lock()
	g := r.byGoid[id]
	r.mu.Unlock()
	return g
}

func (r *Run) logEv(g, kind, site string) {
	// caller holds r.mu
	r.NLog++
	h := r.logHash
	for _, s := range [...]string{g, "|", kind, "|", site, "\n"} {
		for i := 0; i < len(s); i++ {
			h ^= uint64(s[i])
			h *= 1099511628211
		}
	}
	r.logHash = h
	if r.KeepLog {
		r.Log = append(r.Log, Event{Step: r.Steps, G: g, Kind: kind, Site: site})
	}
}

// LogEvent appends to the event log (harness / envsim use).
func (r *Run) LogEvent(kind, site string) {
	r.mu.Lock()
	r.logEv("-", kind, site)
	r.mu.Unlock()
}

// Fingerprint is the hash of the whole event log so far.
func (r *Run) Fingerprint() uint64 {
	r.mu.Lock()
	defer r.mu.Unlock()
	return r.logHash
}

// NewRoot registers the calling goroutine as the root simulated goroutine
// and parks it until the scheduler releases it.
func (r *Run) NewRoot() *G {
	g := &G{ID: "0", Spawn: "root", Site: "root", Op: "start", wake: r.NewChan()}
	r.mu.Lock()
	r.byGoid[goid()] = g
	r.All = append(r.All, g)
	r.logEv(g.ID, "spawn", "root")
	r.mu.Unlock()
	return g
}

// Park blocks g until the scheduler releases it.
func (r *Run) park(g *G, site, op string) {
	r.mu.Lock()
	g.Site, g.Op = site, op
	g.parked = true
	r.mu.Unlock()
	<-g.wake
}

// Parked returns the parked goroutines sorted by hierarchical id.
func (r *Run) Parked() []*G {
	r.mu.Lock()
	defer r.mu.Unlock()
	var out []*G
	for _, g := range r.All {
		if g.parked && !g.ended {
			out = append(out, g)
		}
	}
	sort.Slice(out, func(i, j int) bool { return idLess(out[i].ID, out[j].ID) })
	return out
}

// Live returns the goroutines that have not ended, sorted by id.
func (r *Run) Live() []*G {
	r.mu.Lock()
	defer r.mu.Unlock()
	var out []*G
	for _, g := range r.All {
		if !g.ended {
			out = append(out, g)
		}
	}
	sort.Slice(out, func(i, j int) bool { return idLess(out[i].ID, out[j].ID) })
	return out
}

// Release lets g run (scheduler only).
func (r *Run) Release(g *G) {
	r.mu.Lock()
	g.parked = false
	r.Steps++
	r.logEv(g.ID, "release", g.Op+"@"+g.Site)
	r.mu.Unlock()
	g.wake <- struct{}{}
}

func (g *G) Prio() int     { return g.prio }
func (g *G) SetPrio(p int) { g.prio = p }
func (g *G) Ended() bool   { return g.ended }
func (g *G) IsParked() bool { return g.parked }

func idLess(a, b string) bool {
	as, bs := strings.Split(a, "."), strings.Split(b, ".")
	for i := 0; i < len(as) && i < len(bs); i++ {
		x, _ := strconv.Atoi(as[i])
		y, _ := strconv.Atoi(bs[i])
		if x != y {
			return x < y
		}
	}
	return len(as) < len(bs)
}

// Yield is a scheduling point. No-op without an active run or when called
// from a goroutine that is not simulated.
func Yield(site string) {
	r := active.Load()
	if r == nil {
		return
	}
	g := r.Self()
	if g == nil {
		return
	}
	r.park(g, site, "yield")
}

func setOp(site, op string) (*Run, *G) {
	r := active.Load()
	if r == nil {
		return nil, nil
	}
	g := r.Self()
	if g == nil {
		return nil, nil
	}
	r.mu.Lock()
	g.Site, g.Op = site, op
	r.mu.Unlock()
	return r, g
}

func after(r *Run, g *G, site, op string) {
	if r != nil && g != nil {
		r.park(g, site, op)
	}
}

// Recv is `<-ch`.
func Recv[T any](site string, ch <-chan T) T {
	r, g := setOp(site, "recv")
	v := <-ch
	after(r, g, site, "recv-done")
	return v
}

// Recv2 is `v, ok := <-ch`.
func Recv2[T any](site string, ch <-chan T) (T, bool) {
	r, g := setOp(site, "recv")
	v, ok := <-ch
	after(r, g, site, "recv-done")
	return v, ok
}

// Send is `ch <- v`.
func Send[T any](site string, ch chan<- T, v T) {
	r, g := setOp(site, "send")
	ch <- v
	after(r, g, site, "send-done")
}

// Close is `close(ch)`.
func Close[T any](site string, ch chan<- T) {
	r, g := setOp(site, "close")
	close(ch)
	after(r, g, site, "close-done")
}

// PreSelect is inserted before a select statement.
func PreSelect(site string) { setOp(site, "select") }

// PostSelect is the first statement of every select clause body.
func PostSelect(site string) {
	r := active.Load()
	if r == nil {
		return
	}
	if g := r.Self(); g != nil {
		r.park(g, site, "select-done")
	}
}

// ChanIter is `for v := range ch`.
func ChanIter[T any](site string, ch <-chan T) func(yield func(T) bool) {
	return func(yield func(T) bool) {
		for {
			v, ok := Recv2(site, ch)
			if !ok {
				return
			}
			if !yield(v) {
				return
			}
		}
	}
}

// Go is `go f()`. The child's id is allocated in the parent; the child parks
// before its first instruction.
func Go(site string, f func()) {
	r := active.Load()
	if r == nil {
		go f()
		return
	}
	parent := r.Self()
	if parent == nil {
		go f()
		return
	}
	r.mu.Lock()
	if r.Stopped {
		r.mu.Unlock()
		// the simulated process has exited or was aborted: nothing starts any more
		select {}
	}
	parent.children++
	g := &G{ID: parent.ID + "." + strconv.Itoa(parent.children), Spawn: site, Site: site, Op: "start", wake: r.NewChan()}
	r.All = append(r.All, g)
	r.logEv(g.ID, "spawn", site)
	r.mu.Unlock()
	started := r.NewChan()
	go func() {
		r.mu.Lock()
		r.byGoid[goid()] = g
		g.parked = true
		r.mu.Unlock()
		close(started)
		<-g.wake
		defer r.endG(g)
		f()
	}()
	<-started
}

// RunRoot runs f as goroutine "0" on the calling goroutine, with the same
// panic protocol as spawned goroutines.
func (r *Run) RunRoot(g *G, f func()) {
	r.mu.Lock()
	g.parked = true
	r.mu.Unlock()
	<-g.wake
	defer r.endG(g)
	f()
}

func (r *Run) endG(g *G) {
	if p := recover(); p != nil {
		r.mu.Lock()
		if ep, ok := p.(ExitPanic); ok {
			if !r.Exited && !r.Panicked {
				r.Exited = true
				r.ExitCode = ep.Code
				r.logEv(g.ID, "exit", strconv.Itoa(ep.Code))
			}
		} else if !r.Panicked && !r.Exited {
			r.Panicked = true
			r.PanicG = g.ID
			buf := make([]byte, 1<<14)
			n := runtime.Stack(buf, false)
			r.PanicVal = fmt.Sprint(p) + "\n" + string(buf[:n])
			r.logEv(g.ID, "panic", firstLine(fmt.Sprint(p)))
		}
		r.Stopped = true
		g.ended = true
		delete(r.byGoid, goid())
		r.mu.Unlock()
		return
	}
	r.mu.Lock()
	g.ended = true
	delete(r.byGoid, goid())
	r.logEv(g.ID, "end", g.Spawn)
	r.mu.Unlock()
}

func firstLine(s string) string {
	if i := strings.IndexByte(s, '\n'); i >= 0 {
		return s[:i]
	}
	return s
}

// Exit replaces os.Exit in instrumented mains.
func Exit(code int) {
	if active.Load() == nil {
		panic(ExitPanic{code})
	}
	panic(ExitPanic{code})
}

// Probe counts that a rare condition was reached.
func Probe(name string) {
	r := active.Load()
	if r == nil {
		return
	}
	r.mu.Lock()
	r.Probes[name]++
	r.mu.Unlock()
}

// Fault counts an injected fault that actually fired.
func (r *Run) Fault(kind string) {
	r.mu.Lock()
	r.Faults[kind]++
	r.logEv("-", "fault", kind)
	r.mu.Unlock()
}

// StoppedNow reports whether the simulated process has exited/panicked.
func (r *Run) StoppedNow() bool {
	r.mu.Lock()
	defer r.mu.Unlock()
	return r.Stopped
}

// Abort stops scheduling (step cap).
func (r *Run) Abort() {
	r.mu.Lock()
	r.Stopped = true
	r.mu.Unlock()
}

// Describe returns "id spawn op@site" of every live goroutine.
func (r *Run) Describe() []string {
	var out []string
	for _, g := range r.Live() {
		out = append(out, fmt.Sprintf("%s spawn=%s %s@%s", g.ID, g.Spawn, g.Op, g.Site))
	}
	return out
}
