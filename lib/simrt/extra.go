package simrt

import (
	"fmt"
	"os"
)

// ChanOp brackets a channel statement (send, close) executed by f.
func ChanOp(site, op string, f func()) {
	r, g := setOp(site, op)
	f()
	after(r, g, site, op+"-done")
}

// Nop replaces flag.Parse in instrumented mains (the harness sets the flag
// variables itself).
func Nop() {}

// LogFatal* replace log.Fatal*: print, then end the simulated process.
func LogFatal(a ...any) {
	fmt.Fprintln(os.Stderr, a...)
	Exit(1)
}

func LogFatalf(format string, a ...any) {
	fmt.Fprintf(os.Stderr, format+"\n", a...)
	Exit(1)
}

func LogFatalln(a ...any) {
	fmt.Fprintln(os.Stderr, a...)
	Exit(1)
}
