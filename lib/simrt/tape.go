// Package simrt is the runtime linked into the instrumented copy of the
// BondMachine repository (see /verif/DESIGN.md §2.1, §2.2). Every source of
// nondeterminism that simgen puts behind a seam ends here: goroutine
// scheduling points, map iteration order, math/rand, time. All choices of one
// run are drawn from one Tape.
//
// Without an active run (package init, plain unit tests) every entry point
// degrades to the original behaviour with sorted map order and a fixed-seed
// generator.
package simrt

import "sync"

// Tape is the single source of choices of one simulated run. In generate mode
// it expands a seed with splitmix64 and records every value drawn; in replay
// mode it returns the recorded values (mod n) and 0 once they are exhausted,
// 0 always meaning "the simplest choice".
type Tape struct {
	mu     sync.Mutex
	state  uint64
	replay []uint32
	isRep  bool
	pos    int
	Rec    []uint32
	limit  int
}

func splitmix(x *uint64) uint64 {
	*x += 0x9e3779b97f4a7c15
	z := *x
	z = (z ^ (z >> 30)) * 0xbf58476d1ce4e5b9
	z = (z ^ (z >> 27)) * 0x94d049bb133111eb
	return z ^ (z >> 31)
}

// NewTape returns a generating tape for (seed, run).
func NewTape(seed uint64, run uint64) *Tape {
	s := seed*0x9e3779b97f4a7c15 ^ (run+1)*0xd1342543de82ef95
	splitmix(&s)
	return &Tape{state: s, limit: 1 << 22}
}

// ReplayTape returns a tape that replays rec.
func ReplayTape(rec []uint32) *Tape {
	return &Tape{replay: rec, isRep: true, limit: 1 << 22}
}

// Draw returns a value in [0,n). n<=1 draws nothing and returns 0.
func (t *Tape) Draw(n int) int {
	if n <= 1 {
		return 0
	}
	t.mu.Lock()
	defer t.mu.Unlock()
	var v uint32
	if t.isRep {
		if t.pos < len(t.replay) {
			v = t.replay[t.pos] % uint32(n)
		}
		t.pos++
	} else {
		v = uint32(splitmix(&t.state)>>33) % uint32(n)
	}
	if len(t.Rec) < t.limit {
		t.Rec = append(t.Rec, v)
	}
	return int(v)
}

// Draw64 returns 64 pseudo-random bits (two entries on the tape).
func (t *Tape) Draw64() uint64 {
	hi := uint64(t.Draw(1 << 31))
	lo := uint64(t.Draw(1 << 31))
	mid := uint64(t.Draw(4))
	return hi<<33 | lo<<2 | mid
}

// Pos is the number of draws made so far.
func (t *Tape) Pos() int {
	t.mu.Lock()
	defer t.mu.Unlock()
	if t.isRep {
		return t.pos
	}
	return len(t.Rec)
}

// Recorded returns a copy of the values drawn so far.
func (t *Tape) Recorded() []uint32 {
	t.mu.Lock()
	defer t.mu.Unlock()
	out := make([]uint32, len(t.Rec))
	copy(out, t.Rec)
	return out
}
