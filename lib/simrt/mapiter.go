package simrt

import (
	"fmt"
	"reflect"
	"sort"
	"strconv"
)

// Map iteration policies. The Go specification leaves the order of a map
// range unspecified, so each of these is a legal execution.
const (
	polSorted = iota
	polReversed
	polRotated
	polShuffled
	nPol
)

type mapSite struct {
	idx   int
	pol   int
	param uint64
	calls int
}

// canonical ordering of keys ------------------------------------------------

func lessKey(a, b reflect.Value) bool {
	switch a.Kind() {
	case reflect.String:
		return a.String() < b.String()
	case reflect.Int, reflect.Int8, reflect.Int16, reflect.Int32, reflect.Int64:
		return a.Int() < b.Int()
	case reflect.Uint, reflect.Uint8, reflect.Uint16, reflect.Uint32, reflect.Uint64, reflect.Uintptr:
		return a.Uint() < b.Uint()
	case reflect.Float32, reflect.Float64:
		return a.Float() < b.Float()
	case reflect.Bool:
		return !a.Bool() && b.Bool()
	case reflect.Struct:
		for i := 0; i < a.NumField(); i++ {
			if lessKey(a.Field(i), b.Field(i)) {
				return true
			}
			if lessKey(b.Field(i), a.Field(i)) {
				return false
			}
		}
		return false
	case reflect.Array:
		for i := 0; i < a.Len(); i++ {
			if lessKey(a.Index(i), b.Index(i)) {
				return true
			}
			if lessKey(b.Index(i), a.Index(i)) {
				return false
			}
		}
		return false
	case reflect.Interface:
		if a.IsNil() || b.IsNil() {
			return a.IsNil() && !b.IsNil()
		}
		ae, be := a.Elem(), b.Elem()
		if ae.Type() != be.Type() {
			return ae.Type().String() < be.Type().String()
		}
		return lessKey(ae, be)
	}
	panic("simrt: map key kind without canonical order: " + a.Kind().String())
}

func sortKeys[K comparable](keys []K) {
	if len(keys) < 2 {
		return
	}
	switch ks := any(keys).(type) {
	case []string:
		sort.Strings(ks)
		return
	case []int:
		sort.Ints(ks)
		return
	}
	sort.Slice(keys, func(i, j int) bool {
		return lessKey(reflect.ValueOf(&keys[i]).Elem(), reflect.ValueOf(&keys[j]).Elem())
	})
}

func (r *Run) sitePolicy(site string, n int) (pol int, param uint64, call int) {
	r.mu.Lock()
	defer r.mu.Unlock()
	ms := r.mapSites[site]
	if ms == nil {
		ms = &mapSite{idx: len(r.mapSites)}
		r.mapSites[site] = ms
		perturb := false
		t := r.Tapes.Get(StreamMap)
		switch r.MapMode {
		case 4:
			if pol, ok := r.ForceMap[site]; ok {
				ms.pol = pol
				ms.param = 1
			}
		case 1:
			perturb = true
		case 2:
			perturb = t.Draw(4) == 1
		case 3:
			perturb = ms.idx == r.mapOnly
		}
		if perturb && r.MapMode != 4 {
			ms.pol = 1 + t.Draw(nPol-1)
			ms.param = uint64(t.Draw(1 << 30))
		}
	}
	ms.calls++
	if n >= 2 {
		r.MapSeen[site]++
		if ms.pol != polSorted && ms.calls == 1 {
			r.logEv("-", "map", site+"="+strconv.Itoa(ms.pol))
		}
	}
	return ms.pol, ms.param, ms.calls
}

// Policies usable in ForceMap.
const (
	PolSorted   = polSorted
	PolReversed = polReversed
	PolRotated  = polRotated
	PolShuffled = polShuffled
)

// SetMapMode configures the swarm mode of map perturbation for this run.
// mode 3 perturbs only the k-th distinct site encountered.
func (r *Run) SetMapMode(mode, only int) { r.MapMode, r.mapOnly = mode, only }

// PerturbedSites lists the sites that were iterated with >=2 keys under a
// non-canonical policy in this run.
func (r *Run) PerturbedSites() []string {
	r.mu.Lock()
	defer r.mu.Unlock()
	var out []string
	for s, ms := range r.mapSites {
		if ms.pol != polSorted && r.MapSeen[s] > 0 {
			out = append(out, s)
		}
	}
	sort.Strings(out)
	return out
}

// MapSitesSeen lists all sites iterated with >=2 keys.
func (r *Run) MapSitesSeen() []string {
	r.mu.Lock()
	defer r.mu.Unlock()
	var out []string
	for s := range r.MapSeen {
		out = append(out, s)
	}
	sort.Strings(out)
	return out
}

func orderKeys[K comparable](site string, keys []K) {
	sortKeys(keys)
	r := active.Load()
	if r == nil || len(keys) < 2 {
		if r != nil {
			r.sitePolicy(site, len(keys))
		}
		return
	}
	pol, param, call := r.sitePolicy(site, len(keys))
	n := len(keys)
	switch pol {
	case polReversed:
		for i, j := 0, n-1; i < j; i, j = i+1, j-1 {
			keys[i], keys[j] = keys[j], keys[i]
		}
	case polRotated:
		k := int(param%uint64(n-1)) + 1
		tmp := append(append([]K{}, keys[k:]...), keys[:k]...)
		copy(keys, tmp)
	case polShuffled:
		s := param*0x9e3779b97f4a7c15 + uint64(call)
		for i := n - 1; i > 0; i-- {
			j := int(splitmix(&s) % uint64(i+1))
			keys[i], keys[j] = keys[j], keys[i]
		}
	}
}

// MapIter replaces `range m` for maps: it iterates a snapshot of the keys in
// the order chosen for this site and run, re-reading m[k] at yield time and
// skipping keys deleted meanwhile (both legal under the Go specification).
func MapIter[M ~map[K]V, K comparable, V any](site string, m M) func(yield func(K, V) bool) {
	return func(yield func(K, V) bool) {
		if len(m) == 0 {
			return
		}
		keys := make([]K, 0, len(m))
		for k := range m {
			keys = append(keys, k)
		}
		orderKeys(site, keys)
		for _, k := range keys {
			v, ok := m[k]
			if !ok {
				continue
			}
			if !yield(k, v) {
				return
			}
		}
	}
}

// MapKeys is MapIter for the single-variable form `for k := range m`.
func MapKeys[M ~map[K]V, K comparable, V any](site string, m M) func(yield func(K) bool) {
	return func(yield func(K) bool) {
		if len(m) == 0 {
			return
		}
		keys := make([]K, 0, len(m))
		for k := range m {
			keys = append(keys, k)
		}
		orderKeys(site, keys)
		for _, k := range keys {
			if _, ok := m[k]; !ok {
				continue
			}
			if !yield(k) {
				return
			}
		}
	}
}

var _ = fmt.Sprint
