package simrt

import (
	"math/rand"
	"sync"
	"time"
)

// Outside a run the replacements behave like a fixed-seed generator.
var (
	fbMu sync.Mutex
	fb   = rand.New(rand.NewSource(1))
)

func randTape() *Tape {
	r := active.Load()
	if r == nil {
		return nil
	}
	// One stream per simulated goroutine: pseudo-random draws are stimulus, and
	// which draw a worker gets must not depend on the order in which workers
	// happen to reach the generator (that would make every randomised
	// simulation look schedule-dependent).
	id := ""
	if g := r.Self(); g != nil {
		id = g.ID
	}
	if r.RandKeyed {
		// keyed mode: the stream of goroutine id is a pure function of (RandKey, id),
		// so several executions of one run (e.g. the same simulation under different
		// schedules) see identical pseudo-random stimulus.
		r.mu.Lock()
		defer r.mu.Unlock()
		if r.randGen == nil {
			r.randGen = map[string]*Tape{}
		}
		t := r.randGen[id]
		if t == nil {
			h := uint64(14695981039346656037)
			for i := 0; i < len(id); i++ {
				h = (h ^ uint64(id[i])) * 1099511628211
			}
			t = NewTape(r.RandKey^h, 0)
			t.limit = 0
			r.randGen[id] = t
		}
		return t
	}
	return r.Tapes.Get(StreamRand + "@" + id)
}

func RandIntn(n int) int {
	if n <= 0 {
		panic("invalid argument to Intn")
	}
	if t := randTape(); t != nil {
		if n <= 1<<31-1 {
			return t.Draw(n)
		}
		return int(t.Draw64() % uint64(n))
	}
	fbMu.Lock()
	defer fbMu.Unlock()
	return fb.Intn(n)
}

func RandInt31n(n int32) int32 { return int32(RandIntn(int(n))) }
func RandInt32N(n int32) int32 { return int32(RandIntn(int(n))) }
func RandIntN(n int) int       { return RandIntn(n) }
func RandInt63n(n int64) int64 { return int64(RandIntn(int(n))) }
func RandInt() int             { return RandIntn(1<<31 - 1) }
func RandInt63() int64 {
	if t := randTape(); t != nil {
		return int64(t.Draw64() >> 1)
	}
	fbMu.Lock()
	defer fbMu.Unlock()
	return fb.Int63()
}
func RandUint32() uint32 { return uint32(RandInt63() >> 31) }
func RandUint64() uint64 {
	if t := randTape(); t != nil {
		return t.Draw64()
	}
	fbMu.Lock()
	defer fbMu.Unlock()
	return fb.Uint64()
}

// RandFloat64 returns a value in [0,1) with 24 bits of resolution when drawn
// from the tape (one tape entry; 0 is the simplest choice).
func RandFloat64() float64 {
	if t := randTape(); t != nil {
		return float64(t.Draw(1<<24)) / float64(1<<24)
	}
	fbMu.Lock()
	defer fbMu.Unlock()
	return fb.Float64()
}

func RandFloat32() float32 {
	if t := randTape(); t != nil {
		return float32(t.Draw(1<<23)) / float32(1<<23)
	}
	fbMu.Lock()
	defer fbMu.Unlock()
	return fb.Float32()
}

func RandSeed(int64) {}

func RandPerm(n int) []int {
	p := make([]int, n)
	for i := range p {
		p[i] = i
	}
	for i := n - 1; i > 0; i-- {
		j := RandIntn(i + 1)
		p[i], p[j] = p[j], p[i]
	}
	return p
}

func RandShuffle(n int, swap func(i, j int)) {
	for i := n - 1; i > 0; i-- {
		swap(i, RandIntn(i+1))
	}
}

// ---- time ----------------------------------------------------------------

var simEpoch = time.Unix(1700000000, 0)

type clock struct {
	mu  sync.Mutex
	now time.Duration
}

var clk clock

// Now is the simulated clock: it only advances through Sleep.
func Now() time.Time {
	clk.mu.Lock()
	defer clk.mu.Unlock()
	return simEpoch.Add(clk.now)
}

func Since(t time.Time) time.Duration { return Now().Sub(t) }

// Sleep advances the simulated clock and is a scheduling point.
func Sleep(d time.Duration) {
	clk.mu.Lock()
	if d > 0 {
		clk.now += d
	}
	clk.mu.Unlock()
	Yield("time.Sleep")
}

// ResetClock is called at the start of every run.
func ResetClock() {
	clk.mu.Lock()
	clk.now = 0
	clk.mu.Unlock()
}
