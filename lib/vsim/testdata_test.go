package vsim

import (
	"errors"
	"fmt"
	"math/big"
	"os"
	"path/filepath"
	"sort"
	"strings"
	"testing"
)

// loadDirT parses every *.v file of a directory (except the generated
// test bench, which is a timed process) into one design.
func loadDirT(dir string) (*Design, error) {
	return LoadDir(dir, "bondmachine_tb.v")
}

func loadBM(t *testing.T, name string, opts Options) *Sim {
	t.Helper()
	d, err := loadDirT(filepath.Join("testdata", name))
	if err != nil {
		t.Fatalf("%s: %v", name, err)
	}
	s, err := ElaborateOpts(d, "bondmachine", opts)
	if err != nil {
		t.Fatalf("%s: %v", name, err)
	}
	return s
}

func resetBM(t *testing.T, s *Sim) {
	t.Helper()
	set(t, s, "reset", 1)
	eval(t, s)
	set(t, s, "reset", 0)
	eval(t, s)
}

// designs that must pass strict elaboration without errors or warnings
var cleanDesigns = []string{"counter8", "alu16", "io32", "addi8", "ram64", "pipe16", "bm2", "bm3_fanout", "bm_queue", "bm_stack", "float32"}

// Generated designs that fail strict elaboration because of genuine
// problems in the generated Verilog. vsim is deliberately NOT relaxed for
// them; the expected error is pinned here (see README.md, "Findings").
var defectDesigns = []struct {
	name, class, fragment string
}{
	// N>0 inputs but no i2r/i2rw/sicv2/sicv3/addi opcode: conproc.go:731 emits
	// "assign i0_received = i0_recv;" and nothing declares i0_recv.
	{"defect_unserved_input", ClassUndeclared, "identifier 'i0_recv' is read but not declared"},
	// incc/cilc templates use {0,_rN}: unsized constant in a concatenation.
	{"defect_unsized_concat", ClassSyntax, "unsized constant 0 in concatenation"},
	// jria (and jcmpria) emit "vn_state <= FETCH;" also in "ha" mode.
	{"defect_jria_ha", ClassUndeclared, "identifier 'vn_state' is assigned but not declared"},
	// m2r without r2m/r2mri: "assign ram_addr = (...==M2R) ? addr_ram_m2r : ;"
	{"defect_m2r_only", ClassSyntax, "unexpected ';' in expression"},
	// addi together with i2r: both headers declare and drive iN_recv.
	{"defect_addi_i2r", ClassSyntax, "'i0_recv' is declared twice"},
}

func TestTestdataElaborates(t *testing.T) {
	dirs, _ := filepath.Glob("testdata/*")
	sort.Strings(dirs)
	known := map[string]bool{"stacks": true, "generate": true}
	for _, n := range cleanDesigns {
		known[n] = true
	}
	for _, d := range defectDesigns {
		known[d.name] = true
	}
	for _, dir := range dirs {
		if !known[filepath.Base(dir)] {
			t.Errorf("testdata/%s is not covered by any test list", filepath.Base(dir))
		}
	}
	for _, name := range cleanDesigns {
		d, err := loadDirT(filepath.Join("testdata", name))
		if err != nil {
			t.Errorf("%s: parse: %v", name, err)
			continue
		}
		if tops := d.Tops(); len(tops) != 1 || tops[0] != "bondmachine" {
			t.Errorf("%s: tops = %v", name, tops)
		}
		if errs := Check(d, "bondmachine", Options{}); len(errs) != 0 {
			t.Errorf("%s: %d errors, first: %v", name, len(errs), errs[0])
			continue
		}
		s, _ := Elaborate(d, "bondmachine")
		if w := s.Warnings(); len(w) != 0 {
			t.Errorf("%s: unexpected warnings: %v", name, w)
		}
		if len(s.Signals()) == 0 || len(s.Conns()) == 0 {
			t.Errorf("%s: empty design", name)
		}
	}
	stacks, _ := filepath.Glob("testdata/stacks/*.v")
	if len(stacks) < 5 {
		t.Errorf("stack designs missing: %v", stacks)
	}
	for _, f := range stacks {
		b, _ := os.ReadFile(f)
		d, err := Parse(filepath.Base(f), string(b))
		if err != nil {
			t.Errorf("%s: %v", f, err)
			continue
		}
		if errs := Check(d, d.Modules()[0], Options{}); len(errs) != 0 {
			t.Errorf("%s: %v", f, errs[0])
		}
	}
}

func TestGeneratedDefectsStayStrict(t *testing.T) {
	for _, dd := range defectDesigns {
		d, err := loadDirT(filepath.Join("testdata", dd.name))
		var errs []error
		if err != nil {
			errs = []error{err}
		} else {
			errs = Check(d, "bondmachine", Options{})
		}
		found := false
		for _, e := range errs {
			var de *DesignError
			if errors.As(e, &de) && de.Class == dd.class && strings.Contains(de.Error(), dd.fragment) {
				found = true
			}
		}
		if !found {
			t.Errorf("%s: want [%s] %q, got %v", dd.name, dd.class, dd.fragment, errs)
		}
		t.Logf("%s: %v", dd.name, errs[0])
	}
	// The generated test bench is a free-running timed process.
	b, err := os.ReadFile("testdata/counter8/bondmachine_tb.v")
	if err != nil {
		t.Fatal(err)
	}
	_, err = Parse("bondmachine_tb.v", string(b))
	var ue *UnsupportedError
	if !errors.As(err, &ue) || !strings.Contains(ue.Construct, "always without event control") {
		t.Errorf("test bench: %v", err)
	}
}

const p0 = "a0_inst.p0_instance."

func TestCounter8(t *testing.T) {
	// rset r0 0 ; L: inc r0 ; r2o r0 o0 ; j L   -- one instruction per clock
	s := loadBM(t, "counter8", Options{})
	resetBM(t, s)
	expect(t, s, p0+"_pc", 0)
	for c := 1; c <= 300; c++ {
		tick(t, s, "clk")
		if !s.Assigned(p0 + "_pc") {
			t.Fatalf("cycle %d: _pc not assigned (every instruction retires in one clock)", c)
		}
		wantO0 := uint64(c / 3)
		if got := s.Get("o0"); got != wantO0&0xff {
			t.Fatalf("cycle %d: o0 = %d, want %d", c, got, wantO0&0xff)
		}
		wantPC := uint64(1 + (c-1)%3)
		if c == 0 {
			wantPC = 0
		}
		if got := s.Get(p0 + "_pc"); got != wantPC {
			t.Fatalf("cycle %d: pc = %d, want %d", c, got, wantPC)
		}
		if c >= 3 {
			expect(t, s, "o0_valid", 1)
		}
	}
	expect(t, s, "o0", 100)
	expect(t, s, p0+"_r0", 100)
	// the ROM is visible as a memory
	if !s.IsMem("a0_inst.p0rom_instance._rom") || s.MemDepth("a0_inst.p0rom_instance._rom") != 8 {
		t.Errorf("rom shape")
	}
	if got := s.GetMem("a0_inst.p0rom_instance._rom", 3).Text(2); got != "110010000000" {
		t.Errorf("rom[3] = %s", got)
	}
	// asynchronous reset brings everything back
	resetBM(t, s)
	expect(t, s, p0+"_pc", 0)
	expect(t, s, p0+"_r0", 0)
	expect(t, s, "o0_valid", 0)
}

func TestAlu16(t *testing.T) {
	// see testdata/alu16/program.txt; values worked out by hand:
	// sum 10..1 = 55 is output at clock 42 (2 + 9*4 + 3 + 1), the logic
	// chain ends with 0x7fe7 at clock 61, then hlt freezes the processor.
	s := loadBM(t, "alu16", Options{})
	resetBM(t, s)
	for c := 1; c <= 41; c++ {
		tick(t, s, "clk")
	}
	expect(t, s, "o0", 0)
	expect(t, s, p0+"_r1", 55)
	expect(t, s, p0+"_r0", 0)
	expect(t, s, p0+"_pc", 6)
	tick(t, s, "clk")
	expect(t, s, "o0", 55)
	want := []struct {
		r  string
		v  uint64
		pc uint64
	}{
		{"_r2", 6, 8}, {"_r3", 55, 9}, {"_r3", 330, 10}, {"_r3", 55, 11}, {"_r3", 1, 12}, {"_r3", 2, 13}, {"_r3", 4, 14},
		{"_r3", 2, 15}, {"_r3", 6, 16}, {"_r3", 49, 17}, {"_r3", 49, 18}, {"_r2", 0xffce, 19}, {"_r2", 0xff97, 20},
		{"_r2", 0xffee, 21}, {"_r2", 0, 22}, {"_r2", 0xffce, 23}, {"_r2", 0x7fe7, 24},
	}
	for i, w := range want {
		tick(t, s, "clk")
		if got := s.Get(p0 + w.r); got != w.v {
			t.Errorf("step %d: %s = %#x, want %#x", i, w.r, got, w.v)
		}
		expect(t, s, p0+"_pc", w.pc)
		if !s.Assigned(p0 + w.r) {
			t.Errorf("step %d: %s not assigned", i, w.r)
		}
	}
	tick(t, s, "clk") // nop
	expect(t, s, p0+"_pc", 25)
	tick(t, s, "clk") // r2o r2 o0
	expect(t, s, "o0", 0x7fe7)
	expect(t, s, p0+"_pc", 26)
	h := s.StateHash()
	for i := 0; i < 50; i++ {
		tick(t, s, "clk") // hlt
		if s.Assigned(p0 + "_pc") {
			t.Fatalf("pc assigned while halted")
		}
	}
	if s.StateHash() != h {
		t.Errorf("state changed while halted")
	}
}

func TestIO32(t *testing.T) {
	// i2rw r0 i0 ; i2rw r1 i1 ; add r0 r1 ; r2owa r0 o0 ; i2r r2 i0 ; inc r2 ; r2o r2 o1 ; nop ; j 0
	s := loadBM(t, "io32", Options{})
	resetBM(t, s)
	// nothing valid: the processor waits at pc 0 and does not assign _pc
	for i := 0; i < 5; i++ {
		tick(t, s, "clk")
		if s.Assigned(p0+"_pc") || s.Get(p0+"_pc") != 0 {
			t.Fatalf("i2rw did not wait")
		}
	}
	set(t, s, "i0", 20)
	set(t, s, "i0_valid", 1)
	set(t, s, "i1", 0xffffffff)
	set(t, s, "i1_valid", 1)
	tick(t, s, "clk") // i2rw r0 i0
	expect(t, s, p0+"_r0", 20)
	expect(t, s, p0+"_pc", 1)
	expect(t, s, "i0_received", 1)
	expect(t, s, "i1_received", 0)
	set(t, s, "i0_valid", 0) // source withdraws after seeing received
	tick(t, s, "clk")        // i2rw r1 i1
	expect(t, s, p0+"_r1", 0xffffffff)
	expect(t, s, "i1_received", 1)
	expect(t, s, "i0_received", 0)
	set(t, s, "i1_valid", 0)
	tick(t, s, "clk") // add r0 r1: 32-bit wrap
	expect(t, s, p0+"_r0", 19)
	expect(t, s, "i1_received", 0)
	tick(t, s, "clk") // r2owa, phase 0: o0_received is low -> arm
	expect(t, s, p0+"waitsm", 1)
	expect(t, s, "o0_valid", 0)
	tick(t, s, "clk") // r2owa, phase 1: data and valid out
	expect(t, s, "o0", 19)
	expect(t, s, "o0_valid", 1)
	expect(t, s, p0+"_pc", 3)
	for i := 0; i < 3; i++ { // sink stalls: the instruction does not retire
		tick(t, s, "clk")
		if s.Assigned(p0 + "_pc") {
			t.Fatalf("r2owa retired without o0_received")
		}
	}
	set(t, s, "o0_received", 1)
	tick(t, s, "clk")
	expect(t, s, p0+"_pc", 4)
	expect(t, s, p0+"waitsm", 0)
	expect(t, s, "o0_valid", 1)
	set(t, s, "i0", 99) // i2r does not wait for valid
	tick(t, s, "clk")   // i2r r2 i0
	expect(t, s, p0+"_r2", 99)
	expect(t, s, "o0_valid", 0) // withdrawn because received is high
	set(t, s, "o0_received", 0)
	tick(t, s, "clk") // inc r2
	tick(t, s, "clk") // r2o r2 o1
	expect(t, s, "o1", 100)
	expect(t, s, "o1_valid", 1)
	tick(t, s, "clk") // nop
	tick(t, s, "clk") // j 0
	expect(t, s, p0+"_pc", 0)
	tick(t, s, "clk")
	expect(t, s, p0+"_pc", 0) // waits again
}

func TestAddi8(t *testing.T) {
	// addi r1 ; r2o r1 o0 ; j 0  -- r1 = i0 + i1 (8 bit)
	s := loadBM(t, "addi8", Options{})
	resetBM(t, s)
	set(t, s, "i0", 200)
	set(t, s, "i1", 100)
	tick(t, s, "clk")
	tick(t, s, "clk")
	expect(t, s, "o0", 44)
}

func TestRam64(t *testing.T) {
	// see testdata/ram64/program.txt. ROM words are 69 bits wide (5 opcode
	// bits... + 64-bit immediate), r2m and m2r take two clocks each.
	s := loadBM(t, "ram64", Options{})
	if w := s.Width("a0_inst.rom_value"); w <= 64 {
		t.Fatalf("rom word is %d bits, expected more than 64", w)
	}
	resetBM(t, s)
	for c := 1; c <= 11; c++ {
		tick(t, s, "clk")
	}
	expect(t, s, p0+"_r2", 0xfedcba987654320f)
	expect(t, s, p0+"_r3", 0xffffffffffffffff)
	expect(t, s, p0+"carryflag", 1)
	ram := "a0_inst.p0ram_instance.mem"
	if got := s.GetMem(ram, 3).Text(16); got != "fedcba9876543210" {
		t.Errorf("ram[3] = %s", got)
	}
	if got := s.GetMem(ram, 5).Text(16); got != "ffffffffffffffff" {
		t.Errorf("ram[5] = %s", got)
	}
	if got := s.GetMem(ram, 4).Sign(); got != 0 {
		t.Errorf("ram[4] not zero")
	}
	tick(t, s, "clk") // r2o r2 o0
	expect(t, s, "o0", 0xfedcba987654320f)
	tick(t, s, "clk") // inc r3 -> 0
	expect(t, s, p0+"_r3", 0)
	tick(t, s, "clk") // jz r3 11
	expect(t, s, p0+"_pc", 11)
	tick(t, s, "clk") // mulc r3 r2 -> 0, carry 0
	expect(t, s, p0+"carryflag", 0)
	tick(t, s, "clk") // sbc r3 r2 -> 0 - r2, borrow
	expect(t, s, p0+"_r3", 0x0123456789abcdf1)
	expect(t, s, p0+"carryflag", 1)
	tick(t, s, "clk") // r2o r3 o0
	expect(t, s, "o0", 0x0123456789abcdf1)
	for i := 0; i < 100; i++ {
		tick(t, s, "clk")
	}
	expect(t, s, "o0", 0x0123456789abcdf1)
	snap := s.Snapshot()
	if snap[ram+"[3]"] != "fedcba9876543210" {
		t.Errorf("snapshot ram[3] = %q", snap[ram+"[3]"])
	}
}

func TestPipe16(t *testing.T) {
	s := loadBM(t, "pipe16", Options{})
	resetBM(t, s)
	for c := 1; c <= 7; c++ {
		tick(t, s, "clk")
	}
	expect(t, s, "o0", 48) // 7*6 + 6
	for c := 8; c <= 14; c++ {
		tick(t, s, "clk")
	}
	expect(t, s, "o0", 49)
	expect(t, s, p0+"_r3", 12)
	expect(t, s, p0+"cmpflag", 1)
	for c := 0; c < 200; c++ {
		tick(t, s, "clk")
	}
	expect(t, s, p0+"_r0", 49)
	expect(t, s, "o0", 49)
}

func TestFloat32Cores(t *testing.T) {
	// Outside the required subset (floating point), kept as a regression for
	// $signed arithmetic and large state machines: 1.5 + 2.25 = 3.75,
	// 3.75 * 2.25 = 8.4375, 8.4375 / 2.25 = 3.75.
	s := loadBM(t, "float32", Options{})
	resetBM(t, s)
	var seen []uint64
	last := uint64(0)
	for c := 0; c < 300; c++ {
		tick(t, s, "clk")
		if v := s.Get("o0"); v != last {
			seen = append(seen, v)
			last = v
		}
	}
	want := []uint64{0x40700000, 0x41070000, 0x40700000}
	if len(seen) != len(want) {
		t.Fatalf("o0 sequence %x, want %x", seen, want)
	}
	for i := range want {
		if seen[i] != want[i] {
			t.Fatalf("o0 sequence %x, want %x", seen, want)
		}
	}
}

func TestUnsizedConcatOption(t *testing.T) {
	// rset r0 254 ; L: incc r0 ; incc r0 ; r2o r0 o0 ; cilc r0 ; j L
	s := loadBM(t, "defect_unsized_concat", Options{UnsizedInConcat: true})
	resetBM(t, s)
	tick(t, s, "clk") // rset
	tick(t, s, "clk") // incc -> 255, no carry
	expect(t, s, p0+"_r0", 255)
	expect(t, s, p0+"carryflag", 0)
	tick(t, s, "clk") // incc -> 0, carry
	expect(t, s, p0+"_r0", 0)
	expect(t, s, p0+"carryflag", 1)
}

// sourceAgent/sinkAgent implement the disciplined four-phase handshake on
// the external ports of a bondmachine top.
type sourceAgent struct {
	data, valid, recv string
	next              uint64
	sent              []uint64
	limit             int
}

func (a *sourceAgent) step(t *testing.T, s *Sim) {
	v, r := s.Get(a.valid), s.Get(a.recv)
	switch {
	case v == 0 && r == 0 && len(a.sent) < a.limit:
		set(t, s, a.data, a.next)
		set(t, s, a.valid, 1)
		a.sent = append(a.sent, a.next)
		a.next++
	case v == 1 && r == 1:
		set(t, s, a.valid, 0)
	}
}

type sinkAgent struct {
	data, valid, recv string
	got               []uint64
}

func (a *sinkAgent) step(t *testing.T, s *Sim) {
	v, r := s.Get(a.valid), s.Get(a.recv)
	switch {
	case v == 1 && r == 0:
		a.got = append(a.got, s.Get(a.data))
		set(t, s, a.recv, 1)
	case v == 0 && r == 1:
		set(t, s, a.recv, 0)
	}
}

func TestBondmachineTwoProcessors(t *testing.T) {
	// external i0 -> p0 (inc) -> bond -> p1 (double) -> external o0
	s := loadBM(t, "bm2", Options{})
	resetBM(t, s)
	src := &sourceAgent{data: "i0", valid: "i0_valid", recv: "i0_received", next: 1, limit: 20}
	snk := &sinkAgent{data: "o0", valid: "o0_valid", recv: "o0_received"}
	for c := 0; c < 600; c++ {
		src.step(t, s)
		snk.step(t, s)
		tick(t, s, "clk")
	}
	if len(snk.got) != 20 {
		t.Fatalf("received %d values: %v", len(snk.got), snk.got)
	}
	for i, v := range snk.got {
		if want := 2 * (src.sent[i] + 1); v != want {
			t.Errorf("value %d: got %d, want %d (all: %v)", i, v, want, snk.got)
			break
		}
	}
	// netlist: p0's output is wired to p1's input, handshake in both directions
	var sawData, sawRecv bool
	for _, c := range s.Conns() {
		if c.Inst == "a1_inst" && c.Port == "i0" && c.Expr == "p0o0" {
			sawData = true
		}
		if c.Inst == "a1_inst" && c.Port == "i0_received" && c.Expr == "p1i0_received" && c.Dir == "output" {
			sawRecv = true
		}
	}
	for _, ca := range s.ContAssigns() {
		if ca.Scope == "" && ca.LHS == "p0o0_received" {
			if ca.RHS != "p1i0_received" || ca.Op != "" {
				t.Errorf("received path: %+v", ca)
			}
			sawRecv = sawRecv && true
		}
	}
	if !sawData || !sawRecv {
		t.Errorf("bond not found in Conns (data %v, received %v)", sawData, sawRecv)
	}
}

func TestBondmachineFanout(t *testing.T) {
	// i0 -> p0 (inc) -> {p1 (double) -> o0, p2 (nop nop dec) -> o1}
	s := loadBM(t, "bm3_fanout", Options{})
	resetBM(t, s)
	src := &sourceAgent{data: "i0", valid: "i0_valid", recv: "i0_received", next: 1000, limit: 12}
	snk0 := &sinkAgent{data: "o0", valid: "o0_valid", recv: "o0_received"}
	snk1 := &sinkAgent{data: "o1", valid: "o1_valid", recv: "o1_received"}
	for c := 0; c < 800; c++ {
		src.step(t, s)
		snk0.step(t, s)
		snk1.step(t, s)
		tick(t, s, "clk")
	}
	if len(snk0.got) != 12 || len(snk1.got) != 12 {
		t.Fatalf("received %d / %d values: %v %v", len(snk0.got), len(snk1.got), snk0.got, snk1.got)
	}
	for i := range src.sent {
		if snk0.got[i] != 2*(src.sent[i]+1) || snk1.got[i] != src.sent[i] {
			t.Errorf("value %d: o0=%d o1=%d for input %d", i, snk0.got[i], snk1.got[i], src.sent[i])
		}
	}
	// the fan-out acknowledge is the AND of both consumers
	found := false
	for _, ca := range s.ContAssigns() {
		if ca.Scope == "" && ca.LHS == "p0o0_received" {
			found = true
			if ca.Op != "&" || strings.Join(ca.RHSNets, ",") != "p1i0_received,p2i0_received" {
				t.Errorf("fan-out acknowledge: %+v", ca)
			}
		}
	}
	if !found {
		t.Errorf("no assign to p0o0_received")
	}
}

func TestBondmachineSharedQueueAndStack(t *testing.T) {
	// p0: rset r0 1 ; L: r2q r0 q0 ; inc r0 ; j L      p1: L: q2r r0 q0 ; r2o r0 o0 ; j L
	s := loadBM(t, "bm_queue", Options{})
	resetBM(t, s)
	aux := "a1_inst.p1_instance._auxo0"
	var seen []uint64
	for c := 0; c < 1000; c++ {
		tick(t, s, "clk")
		if s.Assigned(aux) {
			seen = append(seen, s.Get(aux))
		}
	}
	if len(seen) < 20 {
		t.Fatalf("queue: only %d values popped: %v", len(seen), seen)
	}
	for i, v := range seen {
		if v != uint64(i+1)&0xff {
			t.Fatalf("queue: FIFO order broken at %d: %v", i, seen)
		}
	}
	if !s.IsMem("q0_inst.memory") || s.MemDepth("q0_inst.memory") != 4 {
		t.Errorf("queue memory not found")
	}

	// same with a stack: every popped value was pushed before and is popped once
	s = loadBM(t, "bm_stack", Options{})
	resetBM(t, s)
	pushed := map[uint64]bool{}
	popped := map[uint64]bool{}
	n := 0
	for c := 0; c < 1000; c++ {
		tick(t, s, "clk")
		if s.Get("a0_inst.p0_instance.st0senderWrite") == 1 {
			pushed[s.Get("a0_inst.p0_instance.st0senderData")] = true
		}
		if s.Assigned(aux) {
			v := s.Get(aux)
			if !pushed[v] {
				t.Fatalf("stack: popped %d which was never pushed", v)
			}
			if popped[v] && n < 200 {
				t.Fatalf("stack: %d popped twice", v)
			}
			popped[v] = true
			n++
		}
	}
	if n < 20 {
		t.Fatalf("stack: only %d pops", n)
	}
}

// ---------- bmstack modules driven through their req/ack protocol ----------

func loadStack(t *testing.T, name string) *Sim {
	t.Helper()
	b, err := os.ReadFile(filepath.Join("testdata", "stacks", name+".v"))
	if err != nil {
		t.Fatal(err)
	}
	d, err := Parse(name+".v", string(b))
	if err != nil {
		t.Fatal(err)
	}
	s, err := Elaborate(d, name)
	if err != nil {
		t.Fatal(err)
	}
	set(t, s, "reset", 1)
	tick(t, s, "clk")
	set(t, s, "reset", 0)
	return s
}

// push follows stackfile.go: present data and Write, wait for Ack, drop
// Write, wait for Ack to fall.
func push(t *testing.T, s *Sim, agent string, v *big.Int) {
	t.Helper()
	if err := s.SetBig(agent+"Data", v); err != nil {
		t.Fatal(err)
	}
	set(t, s, agent+"Write", 1)
	for i := 0; s.Get(agent+"Ack") == 0; i++ {
		if i > 20 {
			t.Fatalf("push via %s: no Ack", agent)
		}
		tick(t, s, "clk")
	}
	set(t, s, agent+"Write", 0)
	for i := 0; s.Get(agent+"Ack") == 1; i++ {
		if i > 20 {
			t.Fatalf("push via %s: Ack stuck", agent)
		}
		tick(t, s, "clk")
	}
}

func pop(t *testing.T, s *Sim, agent string) *big.Int {
	t.Helper()
	set(t, s, agent+"Read", 1)
	for i := 0; s.Get(agent+"Ack") == 0; i++ {
		if i > 20 {
			t.Fatalf("pop via %s: no Ack", agent)
		}
		tick(t, s, "clk")
	}
	v := s.GetBig(agent + "Data")
	set(t, s, agent+"Read", 0)
	for i := 0; s.Get(agent+"Ack") == 1; i++ {
		if i > 20 {
			t.Fatalf("pop via %s: Ack stuck", agent)
		}
		tick(t, s, "clk")
	}
	return v
}

func TestStacksAndQueues(t *testing.T) {
	type tc struct {
		name    string
		lifo    bool
		depth   int
		senders []string
		recvs   []string
		vals    []string // hex
	}
	cases := []tc{
		{"lifo_1s1r", true, 4, []string{"push"}, []string{"pop"}, []string{"11", "22", "33"}},
		{"fifo_1s1r", false, 4, []string{"push"}, []string{"pop"}, []string{"11", "22", "33"}},
		{"fifo_3s2r", false, 8, []string{"sender1", "sender2", "sender3"}, []string{"receiver1", "receiver2"}, []string{"deadbeef", "2", "cafe0003"}},
		{"lifo_2s3r", true, 5, []string{"sa", "sb"}, []string{"ra", "rb", "rc"}, []string{"a001", "b002", "c003"}},
		{"fifo_wide", false, 3, []string{"push"}, []string{"pop"}, []string{"ff0123456789abcdef", "1", "800000000000000000"}},
	}
	for _, c := range cases {
		s := loadStack(t, c.name)
		expect(t, s, "empty", 1)
		expect(t, s, "full", 0)
		for round := 0; round < 3; round++ { // several rounds exercise pointer wrap-around
			for i, h := range c.vals {
				v, _ := new(big.Int).SetString(h, 16)
				push(t, s, c.senders[i%len(c.senders)], v)
				expect(t, s, "empty", 0)
				expect(t, s, "sp", uint64(i+1))
			}
			if c.depth == len(c.vals) {
				expect(t, s, "full", 1)
			}
			for i := range c.vals {
				got := pop(t, s, c.recvs[i%len(c.recvs)])
				idx := i
				if c.lifo {
					idx = len(c.vals) - 1 - i
				}
				if got.Text(16) != c.vals[idx] {
					t.Errorf("%s round %d pop %d: got %s, want %s", c.name, round, i, got.Text(16), c.vals[idx])
				}
			}
			expect(t, s, "empty", 1)
			expect(t, s, "sp", 0)
		}
		// a pop on an empty stack is never acknowledged
		set(t, s, c.recvs[0]+"Read", 1)
		for i := 0; i < 10; i++ {
			tick(t, s, "clk")
		}
		expect(t, s, c.recvs[0]+"Ack", 0)
		set(t, s, c.recvs[0]+"Read", 0)
		tick(t, s, "clk")
		// fill to the brim: the push beyond the depth is never acknowledged
		for i := 0; i < c.depth; i++ {
			push(t, s, c.senders[0], big.NewInt(int64(i+1)))
		}
		expect(t, s, "full", 1)
		set(t, s, c.senders[0]+"Write", 1)
		for i := 0; i < 10; i++ {
			tick(t, s, "clk")
		}
		expect(t, s, c.senders[0]+"Ack", 0)
		set(t, s, c.senders[0]+"Write", 0)
		if t.Failed() {
			t.Fatalf("%s failed", c.name)
		}
	}
}

func TestDeterminism(t *testing.T) {
	run := func() []string {
		s := loadBM(t, "bm3_fanout", Options{})
		resetBM(t, s)
		src := &sourceAgent{data: "i0", valid: "i0_valid", recv: "i0_received", next: 7, limit: 5}
		snk0 := &sinkAgent{data: "o0", valid: "o0_valid", recv: "o0_received"}
		snk1 := &sinkAgent{data: "o1", valid: "o1_valid", recv: "o1_received"}
		var trace []string
		for c := 0; c < 200; c++ {
			src.step(t, s)
			snk0.step(t, s)
			snk1.step(t, s)
			tick(t, s, "clk")
			snap := s.Snapshot()
			keys := make([]string, 0, len(snap))
			for k := range snap {
				keys = append(keys, k)
			}
			sort.Strings(keys)
			var sb strings.Builder
			for _, k := range keys {
				fmt.Fprintf(&sb, "%s=%s;", k, snap[k])
			}
			fmt.Fprintf(&sb, "hash=%x;assigned=%s", s.StateHash(), strings.Join(s.AssignedList(), ","))
			trace = append(trace, sb.String())
		}
		trace = append(trace, strings.Join(s.Signals(), ","))
		for _, c := range s.Conns() {
			trace = append(trace, fmt.Sprintf("%+v", c))
		}
		for _, c := range s.ContAssigns() {
			trace = append(trace, fmt.Sprintf("%+v", c))
		}
		return trace
	}
	a, b := run(), run()
	if len(a) != len(b) {
		t.Fatalf("trace lengths differ")
	}
	for i := range a {
		if a[i] != b[i] {
			t.Fatalf("runs diverge at step %d:\n%s\n%s", i, a[i], b[i])
		}
	}
	if len(a) < 200 {
		t.Fatalf("trace too short")
	}
}

func BenchmarkCounter8(b *testing.B) {
	d, err := loadDirT("testdata/counter8")
	if err != nil {
		b.Fatal(err)
	}
	s, err := Elaborate(d, "bondmachine")
	if err != nil {
		b.Fatal(err)
	}
	b.ResetTimer()
	for i := 0; i < b.N; i++ {
		if err := s.Tick("clk"); err != nil {
			b.Fatal(err)
		}
	}
}

func BenchmarkAlu16Elaborate(b *testing.B) {
	d, err := loadDirT("testdata/alu16")
	if err != nil {
		b.Fatal(err)
	}
	for i := 0; i < b.N; i++ {
		if _, err := Elaborate(d, "bondmachine"); err != nil {
			b.Fatal(err)
		}
	}
}

func BenchmarkBm3(b *testing.B) {
	d, err := loadDirT("testdata/bm3_fanout")
	if err != nil {
		b.Fatal(err)
	}
	s, err := Elaborate(d, "bondmachine")
	if err != nil {
		b.Fatal(err)
	}
	s.Set("i0_valid", 1)
	b.ResetTimer()
	for i := 0; i < b.N; i++ {
		if i%8 == 0 {
			s.Set("o0_received", s.Get("o0_valid"))
			s.Set("o1_received", s.Get("o1_valid"))
			s.Set("i0_valid", 1-s.Get("i0_received"))
		}
		if err := s.Tick("clk"); err != nil {
			b.Fatal(err)
		}
	}
}

func TestThroughput(t *testing.T) {
	if testing.Short() {
		t.Skip()
	}
	res := testing.Benchmark(BenchmarkCounter8)
	perSec := float64(res.N) / res.T.Seconds()
	t.Logf("counter8: %.0f clock cycles/s (%d cycles in %v)", perSec, res.N, res.T)
	if perSec < 30000 {
		t.Errorf("throughput %.0f cycles/s is below the 30k target", perSec)
	}
}
