package vsim

import (
	"fmt"
	"os"
	"strings"
	"testing"
)

func TestExplore(t *testing.T) {
	name := os.Getenv("VSIM_EXPLORE")
	if name == "" {
		t.Skip()
	}
	d, err := loadDirT("testdata/" + name)
	if err != nil {
		t.Fatal(err)
	}
	s, err := ElaborateOpts(d, "bondmachine", Options{UnsizedInConcat: true})
	if err != nil {
		t.Fatal(err)
	}
	watch := strings.Split(os.Getenv("VSIM_WATCH"), ",")
	s.Set("reset", 1)
	s.Eval()
	s.Set("reset", 0)
	s.Eval()
	for _, kv := range strings.Split(os.Getenv("VSIM_SET"), ",") {
		var n string
		var v uint64
		if _, err := fmt.Sscanf(strings.Replace(kv, "=", " ", 1), "%s %d", &n, &v); err == nil {
			if err := s.Set(n, v); err != nil {
				t.Fatal(err)
			}
		}
	}
	for c := 1; c <= 70; c++ {
		if err := s.Tick("clk"); err != nil {
			t.Fatal(err)
		}
		line := fmt.Sprintf("%3d:", c)
		for _, w := range watch {
			if s.Has(w) {
				line += fmt.Sprintf(" %s=%s", w[strings.LastIndex(w, ".")+1:], s.GetBig(w).Text(16))
			}
		}
		line += " A=" + strings.Join(s.AssignedList(), ",")
		t.Log(line)
	}
}
