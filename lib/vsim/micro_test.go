package vsim

import (
	"errors"
	"math/big"
	"strings"
	"testing"
)

func mustSim(t *testing.T, src, top string) *Sim {
	t.Helper()
	d, err := Parse("test.v", src)
	if err != nil {
		t.Fatalf("parse: %v", err)
	}
	s, err := Elaborate(d, top)
	if err != nil {
		t.Fatalf("elaborate: %v", err)
	}
	return s
}

func set(t *testing.T, s *Sim, name string, v uint64) {
	t.Helper()
	if err := s.Set(name, v); err != nil {
		t.Fatal(err)
	}
}

func eval(t *testing.T, s *Sim) {
	t.Helper()
	if err := s.Eval(); err != nil {
		t.Fatal(err)
	}
}

func tick(t *testing.T, s *Sim, clk string) {
	t.Helper()
	if err := s.Tick(clk); err != nil {
		t.Fatal(err)
	}
}

func expect(t *testing.T, s *Sim, name string, want uint64) {
	t.Helper()
	if !s.Has(name) {
		t.Fatalf("no signal %q (have %v)", name, s.Signals())
	}
	if got := s.Get(name); got != want {
		t.Errorf("%s = %#x, want %#x", name, got, want)
	}
}

func TestNBASwap(t *testing.T) {
	s := mustSim(t, `
module m(input clk, input load);
	reg [7:0] a, b;
	always @(posedge clk) begin
		if (load) begin a <= 8'd1; b <= 8'd2; end
		else begin a <= b; b <= a; end
	end
endmodule`, "m")
	set(t, s, "load", 1)
	tick(t, s, "clk")
	expect(t, s, "a", 1)
	expect(t, s, "b", 2)
	set(t, s, "load", 0)
	tick(t, s, "clk")
	expect(t, s, "a", 2)
	expect(t, s, "b", 1)
	tick(t, s, "clk")
	expect(t, s, "a", 1)
	expect(t, s, "b", 2)
}

func TestBlockingVsNonBlocking(t *testing.T) {
	s := mustSim(t, `
module m(clk, d);
	input clk; input [3:0] d;
	reg [3:0] b1, b2, n1, n2;
	always @(posedge clk) begin
		b1 = d;      // visible at once
		b2 = b1 + 1; // sees the new b1
		n1 <= d;
		n2 <= n1 + 1; // sees the old n1
	end
endmodule`, "m")
	set(t, s, "d", 5)
	tick(t, s, "clk")
	expect(t, s, "b1", 5)
	expect(t, s, "b2", 6)
	expect(t, s, "n1", 5)
	expect(t, s, "n2", 1)
	set(t, s, "d", 9)
	tick(t, s, "clk")
	expect(t, s, "b2", 10)
	expect(t, s, "n1", 9)
	expect(t, s, "n2", 6)
}

func TestAsyncReset(t *testing.T) {
	s := mustSim(t, `
module m(clk, reset, q);
	input clk, reset; output [3:0] q;
	reg [3:0] cnt;
	always @(posedge clk or posedge reset)
		if (reset) cnt <= #1 4'h0; else cnt <= #1 cnt + 1'b1;
	assign q = cnt;
endmodule`, "m")
	tick(t, s, "clk")
	tick(t, s, "clk")
	tick(t, s, "clk")
	expect(t, s, "q", 3)
	// asynchronous: the reset edge alone clears the counter
	set(t, s, "reset", 1)
	eval(t, s)
	expect(t, s, "q", 0)
	if !s.Assigned("cnt") {
		t.Errorf("cnt not reported as assigned on reset edge")
	}
	// clock while reset is high keeps it cleared
	tick(t, s, "clk")
	expect(t, s, "q", 0)
	// releasing reset is a negedge: nothing happens
	set(t, s, "reset", 0)
	eval(t, s)
	expect(t, s, "q", 0)
	if s.Assigned("cnt") {
		t.Errorf("cnt assigned on reset release")
	}
	tick(t, s, "clk")
	expect(t, s, "q", 1)
}

func TestNegedgeAndCommaList(t *testing.T) {
	s := mustSim(t, `
module m(input clk, input rst);
	reg [7:0] p, n;
	always @(posedge clk, posedge rst) if (rst) p <= 0; else p <= p + 1;
	always @(negedge clk) n <= n + 8'd2;
endmodule`, "m")
	set(t, s, "clk", 1)
	eval(t, s)
	expect(t, s, "p", 1)
	expect(t, s, "n", 0)
	set(t, s, "clk", 0)
	eval(t, s)
	expect(t, s, "p", 1)
	expect(t, s, "n", 2)
	// no edge: nothing moves
	eval(t, s)
	expect(t, s, "p", 1)
	expect(t, s, "n", 2)
}

func TestMemoryWriteRead(t *testing.T) {
	s := mustSim(t, `
module ram(clk, rst, din, dout, addr, wren, en);
	input clk; input rst; input [2:0] addr; input [7:0] din; input wren; input en;
	output [7:0] dout;
	reg [7:0] mem [0:7];
	reg [7:0] dout_i;
	always @ (posedge clk)
	begin : MEM_WRITE
		integer k;
		if (rst)
		begin
		end
		else if (wren)
			mem[addr] <= #1 din;
	end
	always @ (posedge clk)
	begin : MEM_READ
		if (!wren)
			dout_i <= #1 mem[addr];
	end
	assign dout = dout_i;
endmodule`, "ram")
	if !s.IsMem("mem") || s.MemDepth("mem") != 8 || s.Width("mem") != 8 {
		t.Fatalf("memory shape wrong: mem=%v depth=%d width=%d", s.IsMem("mem"), s.MemDepth("mem"), s.Width("mem"))
	}
	if !s.Has("MEM_WRITE.k") {
		t.Errorf("block-local integer not visible as MEM_WRITE.k: %v", s.Signals())
	}
	for a := uint64(0); a < 8; a++ {
		set(t, s, "addr", a)
		set(t, s, "din", 0x10+a)
		set(t, s, "wren", 1)
		tick(t, s, "clk")
		if !s.Assigned("mem") {
			t.Errorf("mem not assigned at %d", a)
		}
	}
	set(t, s, "wren", 0)
	for a := uint64(0); a < 8; a++ {
		set(t, s, "addr", a)
		tick(t, s, "clk")
		expect(t, s, "dout", 0x10+a)
		if s.Assigned("mem") {
			t.Errorf("mem assigned during read")
		}
	}
	if got := s.GetMem("mem", 3).Uint64(); got != 0x13 {
		t.Errorf("GetMem(3) = %#x", got)
	}
	if err := s.SetMem("mem", 3, big.NewInt(0x1ff)); err != nil {
		t.Fatal(err)
	}
	set(t, s, "addr", 3)
	tick(t, s, "clk")
	expect(t, s, "dout", 0xff)
	if s.GetMem("mem", 8) != nil {
		t.Errorf("out-of-range GetMem should be nil")
	}
}

func TestPartSelectBothSides(t *testing.T) {
	s := mustSim(t, `
module m(input clk, input [15:0] d, input [1:0] sel);
	reg [15:0] r;
	reg [7:4] off;       // non-zero lsb
	reg [3:0] nib;
	reg bit;
	wire [3:0] hi = d[15:12];
	wire [7:0] mid = d[11:4];
	wire [3:0] dyn = d[sel*4 +: 4];
	wire [3:0] dyn2 = d[15 - sel*4 -: 4];
	always @(posedge clk) begin
		r[7:0] <= d[15:8];
		r[15:8] <= d[7:0];
		off[7:6] <= d[1:0];
		off[5:4] <= 2'b11;
		nib[sel] <= 1'b1;
		bit <= d[sel];
	end
endmodule`, "m")
	set(t, s, "d", 0xabcd)
	set(t, s, "sel", 2)
	tick(t, s, "clk")
	expect(t, s, "hi", 0xa)
	expect(t, s, "mid", 0xbc)
	expect(t, s, "dyn", 0xb)
	expect(t, s, "dyn2", 0xc) // d[7 -: 4] = d[7:4]
	expect(t, s, "r", 0xcdab)
	expect(t, s, "off", 0x7) // {2'b01, 2'b11}
	expect(t, s, "nib", 0x4)
	expect(t, s, "bit", 1) // d[2] of ...1101
	set(t, s, "sel", 1)
	tick(t, s, "clk")
	expect(t, s, "nib", 0x6)
	expect(t, s, "bit", 0)
	expect(t, s, "dyn", 0xc)
}

func TestConcatLHSAndCarry(t *testing.T) {
	s := mustSim(t, `
module m(input clk, input [7:0] a, input [7:0] b);
	reg c; reg [7:0] sum;
	reg c2; reg [7:0] s2;
	wire [8:0] w9 = a + b;        // 9-bit context keeps the carry
	wire [7:0] w8 = a + b;        // truncated
	wire [7:0] avg = (a + b) >> 1; // 8-bit context: carry lost before the shift
	wire [7:0] avg9 = (a + b + 9'd0) >> 1;
	wire x, y; wire [1:0] z;
	assign {x, z, y} = a[3:0];
	always @(posedge clk) begin
		{c, sum} <= a + b;
		{c2, s2} <= {1'b0, a} - {1'b0, b};
	end
endmodule`, "m")
	set(t, s, "a", 200)
	set(t, s, "b", 100)
	tick(t, s, "clk")
	expect(t, s, "c", 1)
	expect(t, s, "sum", 44)
	expect(t, s, "w9", 300)
	expect(t, s, "w8", 44)
	expect(t, s, "avg", 22)
	expect(t, s, "avg9", 150)
	expect(t, s, "c2", 0)
	expect(t, s, "s2", 100)
	set(t, s, "a", 0x0b) // 1011
	set(t, s, "b", 0x0c)
	tick(t, s, "clk")
	expect(t, s, "x", 1)
	expect(t, s, "z", 1)
	expect(t, s, "y", 1)
	expect(t, s, "c2", 1) // 11 - 12 borrows
	expect(t, s, "s2", 0xff)
}

func TestTernaryCaseDefault(t *testing.T) {
	s := mustSim(t, `
module m(input clk, input [2:0] op, input [7:0] a, input [7:0] b);
	localparam ADD=3'b000, SUB=3'b001, AND_=3'b010, PASS=3'b100, PASS2=3'b101;
	reg [7:0] r;
	wire [7:0] mx = (op == ADD) ? a : (op == SUB) ? b : 8'hee;
	always @(posedge clk)
		case (op)
			ADD: r <= a + b;
			SUB: r <= a - b;
			AND_: begin r <= a & b; end
			PASS, PASS2: r <= a;
			default: r <= 8'hff;
		endcase
endmodule`, "m")
	set(t, s, "a", 12)
	set(t, s, "b", 10)
	for _, c := range []struct{ op, r, mx uint64 }{{0, 22, 12}, {1, 2, 10}, {2, 8, 0xee}, {4, 12, 0xee}, {5, 12, 0xee}, {3, 0xff, 0xee}, {7, 0xff, 0xee}} {
		set(t, s, "op", c.op)
		tick(t, s, "clk")
		expect(t, s, "r", c.r)
		expect(t, s, "mx", c.mx)
	}
}

func TestCasezWildcard(t *testing.T) {
	s := mustSim(t, `
module m(input [3:0] v);
	reg [1:0] r;
	always @* begin
		casez (v)
			4'b1???: r = 2'd3;
			4'b01??: r = 2'd2;
			4'b001?: r = 2'd1;
			default: r = 2'd0;
		endcase
	end
endmodule`, "m")
	for v, want := range map[uint64]uint64{0: 0, 1: 0, 2: 1, 3: 1, 5: 2, 9: 3, 15: 3} {
		set(t, s, "v", v)
		eval(t, s)
		expect(t, s, "r", want)
	}
}

func TestInitialForLoopMemory(t *testing.T) {
	s := mustSim(t, `
module m(input [3:0] a, output [7:0] q);
	reg [7:0] tbl [0:15];
	integer i;
	reg [7:0] seed = 8'd3;
	reg started;
	initial begin
		started = 1'b1;
		for (i = 0; i < 16; i = i + 1)
			tbl[i] = i * 3 + seed;
	end
	assign q = tbl[a];
endmodule`, "m")
	expect(t, s, "started", 1)
	expect(t, s, "seed", 3)
	for a := uint64(0); a < 16; a++ {
		set(t, s, "a", a)
		eval(t, s)
		expect(t, s, "q", a*3+3)
	}
	expect(t, s, "i", 16)
}

const hierSrc = `
module leaf(input [3:0] x, output [3:0] y);
	assign y = x + 4'd1;
endmodule
module mid(a, b);
	input [3:0] a; output [3:0] b;
	wire [3:0] t;
	leaf l0(.y(t), .x(a));   // named, out of order
	leaf l1(t, b);           // positional
endmodule
module top(input [3:0] in, output [3:0] out, output [3:0] out2);
	wire [3:0] w;
	mid m0(in, w);
	mid m1(.a(w), .b(out));
	leaf lone(.x(in), .y(out2));
endmodule`

func TestHierarchyNamedPositional(t *testing.T) {
	s := mustSim(t, hierSrc, "top")
	set(t, s, "in", 3)
	eval(t, s)
	expect(t, s, "out", 7)
	expect(t, s, "out2", 4)
	expect(t, s, "m0.t", 4)
	expect(t, s, "m1.l1.y", 7)
	expect(t, s, "m1.l0.x", 5)
	if s.Width("m0.l0.x") != 4 {
		t.Errorf("width of m0.l0.x = %d", s.Width("m0.l0.x"))
	}
	// structure
	var found bool
	for _, c := range s.Conns() {
		if c.Inst == "m0.l0" && c.Port == "y" {
			found = true
			if c.Dir != "output" || c.Module != "leaf" || c.Expr != "t" || len(c.Nets) != 1 || c.Nets[0] != "m0.t" {
				t.Errorf("conn = %+v", c)
			}
		}
	}
	if !found {
		t.Errorf("no Conn for m0.l0.y: %+v", s.Conns())
	}
	if n := len(s.Conns()); n != 2*2+4*2+2 {
		t.Errorf("%d conns", n)
	}
	ports := s.Ports()
	if len(ports) != 3 || ports[0].Name != "in" || ports[0].Dir != "input" || ports[2].Dir != "output" || ports[1].Width != 4 {
		t.Errorf("ports = %+v", ports)
	}
}

func TestChainedAssignFixpoint(t *testing.T) {
	// declared in "wrong" order on purpose
	s := mustSim(t, `
module m(input [7:0] a, output [7:0] z);
	wire [7:0] b, c, d, e;
	assign z = e + 8'd1;
	assign e = d + 8'd1;
	assign d = c + 8'd1;
	assign c = b + 8'd1;
	assign b = a + 8'd1;
endmodule`, "m")
	set(t, s, "a", 10)
	eval(t, s)
	expect(t, s, "z", 15)
	set(t, s, "a", 250)
	eval(t, s)
	expect(t, s, "z", 255)
}

func TestBitwiseFalseLoopConverges(t *testing.T) {
	// signal-level cycle (v depends on v) that is acyclic bit by bit
	s := mustSim(t, `
module m(input a, output [2:0] v);
	assign v[0] = a;
	assign v[1] = v[0];
	assign v[2] = ~v[1];
endmodule`, "m")
	set(t, s, "a", 1)
	eval(t, s)
	expect(t, s, "v", 3)
	set(t, s, "a", 0)
	eval(t, s)
	expect(t, s, "v", 4)
}

func TestCombinationalLoopError(t *testing.T) {
	s := mustSim(t, `
module m(input en, output x);
	wire y;
	assign x = en ? ~y : 1'b0;
	assign y = x;
endmodule`, "m")
	eval(t, s)
	expect(t, s, "x", 0)
	set(t, s, "en", 1)
	err := s.Eval()
	var re *RuntimeError
	if !errors.As(err, &re) || !strings.Contains(re.Msg, "combinational loop") {
		t.Fatalf("want combinational loop error, got %v", err)
	}
}

func TestDerivedClockDeltaCycles(t *testing.T) {
	s := mustSim(t, `
module m(input clk, input rst);
	reg div2, div4;
	reg [7:0] slow;
	wire gated = clk & div2;
	reg [7:0] gcount;
	always @(posedge clk or posedge rst) if (rst) div2 <= 0; else div2 <= ~div2;
	always @(posedge div2 or posedge rst) if (rst) div4 <= 0; else div4 <= ~div4;
	always @(posedge div4 or posedge rst) if (rst) slow <= 0; else slow <= slow + 1;
	always @(posedge gated) gcount <= gcount + 1;
endmodule`, "m")
	for i := 0; i < 16; i++ {
		tick(t, s, "clk")
	}
	// div2 toggles every clk: 8 rising edges; div4 4 rising edges
	expect(t, s, "div2", 0)
	expect(t, s, "div4", 0)
	expect(t, s, "slow", 4)
	// gated = clk & div2 rises in every cycle: with the clock edge itself
	// when div2 was 1 (and falls again one delta later when div2 toggles),
	// or one delta after the clock edge when div2 becomes 1.
	expect(t, s, "gcount", 16)
	// one more clock: div2 rises, div4 rises, slow increments, all in one Eval
	set(t, s, "clk", 1)
	eval(t, s)
	expect(t, s, "div2", 1)
	expect(t, s, "div4", 1)
	expect(t, s, "slow", 5)
	for _, n := range []string{"div2", "div4", "slow"} {
		if !s.Assigned(n) {
			t.Errorf("%s not assigned in the delta cascade", n)
		}
	}
}

func TestSignedIntegerLoop(t *testing.T) {
	s := mustSim(t, `
module m(input clk);
	integer i, acc, neg;
	reg [7:0] cnt;
	reg lt, ltu;
	reg signed [7:0] sb;
	reg [7:0] shr, ashr;
	always @(posedge clk) begin
		acc = 0;
		cnt = 0;
		for (i = 3; i >= 0; i = i - 1) begin   // terminates only if i is signed
			acc = acc + i;
			cnt = cnt + 1;
		end
		neg = -5;
		lt = (neg < 3);             // signed compare: true
		ltu = (neg < 32'd3);        // mixed -> unsigned compare: false
		sb = -8'sd16;
		shr = sb >> 2;              // logical: 0x3c
		ashr = sb >>> 2;            // arithmetic: 0xfc
		neg = neg / 2;              // -2 (truncates toward zero)
	end
endmodule`, "m")
	tick(t, s, "clk")
	expect(t, s, "acc", 6)
	expect(t, s, "cnt", 4)
	expect(t, s, "i", 0xffffffff)
	expect(t, s, "lt", 1)
	expect(t, s, "ltu", 0)
	expect(t, s, "sb", 0xf0)
	expect(t, s, "shr", 0x3c)
	expect(t, s, "ashr", 0xfc)
	expect(t, s, "neg", 0xfffffffe)
}

func TestWideValuesAndShifts(t *testing.T) {
	s := mustSim(t, `
module m(input clk, input [99:0] a, input [7:0] n);
	reg [99:0] r;
	reg [199:0] prod;
	wire [99:0] shl = a << n;
	wire [99:0] shr = a >> n;
	wire [127:0] cat = {a[99:64], 28'hfffffff, a[63:0]};
	wire [7:0] top8 = a[99:92];
	wire [64:0] sum65 = {1'b0, a[63:0]} + {1'b0, a[63:0]};
	wire eq = (a == 100'h8_0000_0000_0000_0000_0000_0001);
	wire [99:0] lit = 100'd1267650600228229401496703205375; // 2^100-1
	always @(posedge clk) begin
		r <= ~a;
		prod <= a * a;
	end
endmodule`, "m")
	a, _ := new(big.Int).SetString("8000000000000000000000001", 16)
	if err := s.SetBig("a", a); err != nil {
		t.Fatal(err)
	}
	set(t, s, "n", 70)
	tick(t, s, "clk")
	wantBig := func(name, hex string) {
		t.Helper()
		want, _ := new(big.Int).SetString(hex, 16)
		if got := s.GetBig(name); got.Cmp(want) != 0 {
			t.Errorf("%s = %s, want %s", name, got.Text(16), hex)
		}
	}
	wantBig("shl", "0000000400000000000000000") // 1<<70, top bit shifted out
	wantBig("shr", "20000000")                  // bit 99 -> bit 29
	wantBig("cat", "800000000fffffff0000000000000001")
	expect(t, s, "top8", 0x80)
	wantBig("sum65", "2")
	expect(t, s, "eq", 1)
	wantBig("r", "7fffffffffffffffffffffffe")
	wantBig("prod", "40000000000000000000000010000000000000000000000001")
	wantBig("lit", "fffffffffffffffffffffffff")
	set(t, s, "n", 100)
	eval(t, s)
	wantBig("shl", "0")
	wantBig("shr", "0")
	set(t, s, "n", 0)
	eval(t, s)
	wantBig("shl", "8000000000000000000000001")
	if s.Width("prod") != 200 || s.Width("cat") != 128 {
		t.Errorf("widths: %d %d", s.Width("prod"), s.Width("cat"))
	}
}

func TestWideMemoryAndConcatStore(t *testing.T) {
	s := mustSim(t, `
module m(input clk, input we, input [1:0] addr, input [71:0] d, output [71:0] q);
	reg [71:0] mem [3:0];
	reg [71:0] qi;
	reg [3:0] tag; reg [67:0] body;
	integer i;
	always @(posedge clk) begin
		if (we) mem[addr] <= d;
		qi[71:0] <= mem[addr];
		{tag, body} <= d;
	end
	assign q = qi;
endmodule`, "m")
	d, _ := new(big.Int).SetString("a5123456789abcdef0", 16)
	s.SetBig("d", d)
	set(t, s, "we", 1)
	set(t, s, "addr", 2)
	tick(t, s, "clk")
	set(t, s, "we", 0)
	tick(t, s, "clk")
	if got := s.GetBig("q"); got.Cmp(d) != 0 {
		t.Errorf("q = %s", got.Text(16))
	}
	expect(t, s, "tag", 0xa)
	if got := s.GetBig("body").Text(16); got != "5123456789abcdef0" {
		t.Errorf("body = %s", got)
	}
	if got := s.GetMem("mem", 2); got.Cmp(d) != 0 {
		t.Errorf("mem[2] = %s", got.Text(16))
	}
}

func TestWidthRules(t *testing.T) {
	s := mustSim(t, `
module m(input [3:0] a, input [3:0] b);
	wire [7:0] zext = a;                 // zero extension
	wire [3:0] trunc = 8'hab;            // truncation
	wire [7:0] neg = -a;                 // 8-bit context: two's complement of zero-extended a
	wire [7:0] inv = ~a;                 // 8-bit context: upper bits become 1
	wire [7:0] inv4 = {~a};              // self-determined inside the concatenation
	wire cmp = (a - b) > 0;              // 32-bit context because of the unsized 0
	wire cmp4 = (a - b) > 4'd0;          // 4-bit
	wire [7:0] shl = a << 4;             // 8-bit context, bits are kept
	wire [7:0] shlc = {a << 4};          // 4-bit self-determined, bits are lost
	wire [3:0] rep = {2{a[1:0]}};
	wire red_and = &a, red_or = |a, red_xor = ^a, lnot = !a;
	wire [7:0] un = 'b1;                 // unsized based literal
	wire [31:0] ulit = 5;
	wire land = a && b, lor = a || b;
	wire [4:0] xnr = a ~^ b;
	wire [3:0] dz = a / (b - b), mz = a % (b - b); // division by zero -> 0
endmodule`, "m")
	set(t, s, "a", 0x6)
	set(t, s, "b", 0x9)
	eval(t, s)
	expect(t, s, "zext", 6)
	expect(t, s, "trunc", 0xb)
	expect(t, s, "neg", 0xfa)
	expect(t, s, "inv", 0xf9)
	expect(t, s, "inv4", 0x09)
	expect(t, s, "cmp", 1)  // 6-9 = 0xfffffffd > 0
	expect(t, s, "cmp4", 1) // 6-9 = 0xd > 0
	expect(t, s, "shl", 0x60)
	expect(t, s, "shlc", 0)
	expect(t, s, "rep", 0xa)
	expect(t, s, "red_and", 0)
	expect(t, s, "red_or", 1)
	expect(t, s, "red_xor", 0)
	expect(t, s, "lnot", 0)
	expect(t, s, "un", 1)
	expect(t, s, "ulit", 5)
	expect(t, s, "land", 1)
	expect(t, s, "lor", 1)
	expect(t, s, "xnr", 0x10) // ~(00110 ^ 01001) = ~01111 = 10000
	expect(t, s, "dz", 0)
	expect(t, s, "mz", 0)
	set(t, s, "a", 0xf)
	set(t, s, "b", 0)
	eval(t, s)
	expect(t, s, "red_and", 1)
	expect(t, s, "land", 0)
	expect(t, s, "cmp4", 1)
}

func TestParameterOverrideAndAlwaysStar(t *testing.T) {
	s := mustSim(t, `
module add #(parameter W = 4, parameter INC = 1) (input [W-1:0] x, output reg [W-1:0] y);
	always @(*) y = x + INC;
endmodule
module top(input [7:0] a, output [3:0] y0, output [7:0] y1, output [7:0] y2);
	add u0(.x(a[3:0]), .y(y0));
	add #(8, 3) u1(.x(a), .y(y1));
	add #(.W(8), .INC(16)) u2(a, y2);
endmodule`, "top")
	set(t, s, "a", 0x1f)
	eval(t, s)
	expect(t, s, "y0", 0x0)
	expect(t, s, "y1", 0x22)
	expect(t, s, "y2", 0x2f)
	if s.Width("u1.y") != 8 || s.Width("u0.y") != 4 {
		t.Errorf("parameterised widths wrong")
	}
}

func TestAssignedSemantics(t *testing.T) {
	s := mustSim(t, `
module m(input clk, input en);
	reg [3:0] a, b;
	always @(posedge clk) begin
		a <= 4'd7;          // same value every time
		if (en) b <= b + 1;
	end
endmodule`, "m")
	tick(t, s, "clk")
	tick(t, s, "clk")
	if !s.Assigned("a") || s.Assigned("b") {
		t.Errorf("assigned a=%v b=%v", s.Assigned("a"), s.Assigned("b"))
	}
	if l := s.AssignedList(); len(l) != 1 || l[0] != "a" {
		t.Errorf("AssignedList = %v", l)
	}
	set(t, s, "en", 1)
	tick(t, s, "clk")
	if !s.Assigned("b") {
		t.Errorf("b should be assigned")
	}
	// an Eval without an edge clears the flags
	eval(t, s)
	if s.Assigned("a") || s.Assigned("b") {
		t.Errorf("flags not cleared")
	}
}

func TestSetRules(t *testing.T) {
	s := mustSim(t, `
module m(input a, output y);
	reg r;
	wire w;
	assign w = a;
	assign y = w & r;
endmodule`, "m")
	if err := s.Set("w", 1); err == nil {
		t.Errorf("setting a driven net must fail")
	}
	if err := s.Set("nosuch", 1); err == nil {
		t.Errorf("setting an unknown signal must fail")
	}
	set(t, s, "r", 1) // forcing a reg is allowed
	set(t, s, "a", 1)
	eval(t, s)
	expect(t, s, "y", 1)
	if s.Kind("r") != "reg" || s.Kind("w") != "wire" {
		t.Errorf("kinds %s %s", s.Kind("r"), s.Kind("w"))
	}
}

func TestStateHashAndSaveRestore(t *testing.T) {
	s := mustSim(t, `
module m(input clk);
	reg [7:0] c; reg [7:0] mem [0:3];
	always @(posedge clk) begin c <= c + 1; mem[c[1:0]] <= c; end
endmodule`, "m")
	h0 := s.StateHash()
	st := s.SaveState()
	tick(t, s, "clk")
	tick(t, s, "clk")
	h2 := s.StateHash()
	if h0 == h2 {
		t.Errorf("hash did not change")
	}
	snap := s.Snapshot()
	if snap["c"] != "2" || snap["mem[1]"] != "1" {
		t.Errorf("snapshot = %v", snap)
	}
	if _, ok := snap["mem[0]"]; ok {
		t.Errorf("zero memory words should be omitted: %v", snap)
	}
	s.RestoreState(st)
	if s.StateHash() != h0 {
		t.Errorf("restore did not bring the hash back")
	}
	tick(t, s, "clk")
	tick(t, s, "clk")
	if s.StateHash() != h2 {
		t.Errorf("replay after restore diverged")
	}
}

func TestContAssignClassification(t *testing.T) {
	s := mustSim(t, `
module m(input a, input b, input c, output p, output q, output r, output s, output u);
	assign p = a;
	assign q = ( 1'b1
		& (a)
		& (b)
		);
	assign r = ( 1'b0 | a | b | c );
	assign s = a & ~b;
	assign u = 1'b1;
endmodule`, "m")
	want := map[string]string{"p": "", "q": "&", "r": "|", "s": "expr", "u": ""}
	for _, ca := range s.ContAssigns() {
		if ca.Op != want[ca.LHS] {
			t.Errorf("assign %s = %s: Op %q, want %q", ca.LHS, ca.RHS, ca.Op, want[ca.LHS])
		}
		if ca.LHS == "q" {
			if ca.RHS != "(1'b1 & a) & b" || len(ca.RHSNets) != 2 || ca.RHSNets[0] != "a" || ca.RHSNets[1] != "b" {
				t.Errorf("q: %+v", ca)
			}
		}
	}
	if len(s.ContAssigns()) != 5 {
		t.Errorf("%d assigns", len(s.ContAssigns()))
	}
}

func TestTestbenchHelpersFromGenerator(t *testing.T) {
	// the request/unlock helper modules of bondmachine/verilog.go
	// (Write_verilog_testbench): output reg, initial block, numeric case labels.
	s := mustSim(t, `
module request(clk, reset, req, ack, impulse);
    input clk;
    input reset;
    output reg req;
    input ack;
    input impulse;
    reg state;
    initial begin
        state = 0;
        req = 0;
    end
    always @(posedge clk) begin
        if (reset) begin
            state <= 0;
        end else begin
            case (state)
                0: begin
                    req <= 0;
                    if (impulse) begin
                        state <= 1;
                    end
                end
                1: begin
                    req <= 1;
                    if (ack) begin
                        state <= 0;
                    end
                end
            endcase
        end
    end
endmodule`, "request")
	set(t, s, "impulse", 1)
	tick(t, s, "clk")
	expect(t, s, "state", 1)
	expect(t, s, "req", 0)
	set(t, s, "impulse", 0)
	tick(t, s, "clk")
	expect(t, s, "req", 1)
	set(t, s, "ack", 1)
	tick(t, s, "clk")
	expect(t, s, "state", 0)
	expect(t, s, "req", 1)
	tick(t, s, "clk")
	expect(t, s, "req", 0)
}
