package vsim

import (
	"fmt"
	"math/big"
	"math/bits"
	"sort"
)

type sigKind int

const (
	kWire sigKind = iota
	kReg
	kInteger
)

func (k sigKind) String() string {
	switch k {
	case kWire:
		return "wire"
	case kReg:
		return "reg"
	}
	return "integer"
}

type drvRange struct {
	lo, hi int // bit offsets, inclusive
	proc   int // process id for procedural drivers
	line   int
	what   string
}

type signal struct {
	name     string
	idx      int
	kind     sigKind
	width    int
	msb, lsb int
	signed   bool
	isMem    bool
	memLo    int
	depth    int
	wide     bool
	mask     uint64
	bmask    *big.Int
	dir      string // "", input, output
	file     string
	line     int
	fanout   []int // combinational nodes to re-evaluate when this changes
	contDrv  []drvRange
	procDrv  []drvRange
	extDrv   bool // top-level input: driven by the caller
}

type combNode struct {
	run  func()
	desc string
}

type process struct {
	run  func()
	desc string
}

type evSig struct {
	sig  *signal
	prev uint64
	pos  []int
	neg  []int
}

type nbaEntry struct {
	sg   *signal
	addr int
	lo   int
	w    int
	v    uint64
	bv   *big.Int
}

// Conn describes one port connection of one instance in the flattened design.
type Conn struct {
	Inst   string   // hierarchical instance path
	Module string   // module name of the instance
	Port   string   // port name
	Dir    string   // "input" or "output"
	Expr   string   // connected expression, canonical text ("" if unconnected)
	Nets   []string // hierarchical names of the nets referenced by Expr
}

// ContAssign describes one continuous assignment (including "wire a = expr;").
type ContAssign struct {
	Scope   string // hierarchical path of the enclosing instance ("" for the top)
	LHS     string
	LHSNets []string
	RHS     string
	RHSNets []string
	Op      string // "", "&", "|", "expr" (see classifyTree)
}

// Port describes a port of the top module.
type Port struct {
	Name  string
	Dir   string
	Width int
}

// Sim is an elaborated, flattened design with its simulation state.
type Sim struct {
	top    string
	sigs   []*signal
	byName map[string]*signal
	names  []string

	vals  []uint64
	wides []*big.Int
	memN  [][]uint64
	memW  [][]*big.Int

	assigned     []bool
	assignedList []int

	nodes    []*combNode
	dirty    []bool
	anyDirty bool
	curNode  int

	events []*evSig
	procs  []*process
	fire   []bool

	nba []nbaEntry

	conns    []Conn
	cassigns []ContAssign
	ports    []Port
	warnings []string

	regOrder []*signal // regs, integers and memories sorted by name (hash / snapshot)

	maxDelta  int
	maxSettle int
	maxLoop   int
	evalCount uint64
	procRuns  uint64
}

var bigZero = new(big.Int)

type runtimeAbort struct{ err error }

func mask64(w int) uint64 {
	if w >= 64 {
		return ^uint64(0)
	}
	if w <= 0 {
		return 0
	}
	return (uint64(1) << uint(w)) - 1
}

func bigMask(w int) *big.Int {
	m := new(big.Int).Lsh(big.NewInt(1), uint(w))
	return m.Sub(m, big.NewInt(1))
}

// extract64 returns bits [lo, lo+w) of the non-negative x, w <= 64, lo >= 0.
func extract64(x *big.Int, lo, w int) uint64 {
	if bits.UintSize != 64 {
		t := new(big.Int).Rsh(x, uint(lo))
		return t.Uint64() & mask64(w)
	}
	words := x.Bits()
	wi := lo / 64
	sh := uint(lo % 64)
	if wi >= len(words) {
		return 0
	}
	v := uint64(words[wi]) >> sh
	if sh != 0 && wi+1 < len(words) {
		v |= uint64(words[wi+1]) << (64 - sh)
	}
	return v & mask64(w)
}

// extractBig returns bits [lo, lo+w) of x as a fresh value.
func extractBig(x *big.Int, lo, w int) *big.Int {
	t := new(big.Int)
	if lo >= 0 {
		t.Rsh(x, uint(lo))
	} else {
		t.Lsh(x, uint(-lo))
	}
	return t.And(t, bigMask(w))
}

func (s *Sim) touch(sg *signal) {
	for _, n := range sg.fanout {
		if !s.dirty[n] {
			s.dirty[n] = true
			if n <= s.curNode {
				s.anyDirty = true
			}
		}
	}
}

// store writes bits [lo, lo+w) of a signal or memory word. The value is in v
// when w <= 64 and in bv otherwise. Bits outside the target are dropped.
func (s *Sim) store(sg *signal, addr, lo, w int, v uint64, bv *big.Int) {
	if w > 64 && !(lo == 0 && w == sg.width && sg.wide) {
		// normalise odd wide writes through big arithmetic
		s.storeBig(sg, addr, lo, w, bv)
		return
	}
	if lo < 0 {
		if w <= 64 {
			if -lo >= 64 {
				return
			}
			v >>= uint(-lo)
		}
		w += lo
		lo = 0
	}
	if lo+w > sg.width {
		w = sg.width - lo
	}
	if w <= 0 {
		return
	}
	var off int
	if sg.isMem {
		off = addr - sg.memLo
		if off < 0 || off >= sg.depth {
			return
		}
	}
	if !sg.wide {
		m := mask64(w) << uint(lo)
		var p *uint64
		if sg.isMem {
			p = &s.memN[sg.idx][off]
		} else {
			p = &s.vals[sg.idx]
		}
		nv := (*p &^ m) | ((v << uint(lo)) & m)
		if nv != *p {
			*p = nv
			s.touch(sg)
		}
		return
	}
	// wide target
	var p **big.Int
	if sg.isMem {
		p = &s.memW[sg.idx][off]
	} else {
		p = &s.wides[sg.idx]
	}
	var nv *big.Int
	if w > 64 {
		// full-width write (lo == 0, w == sg.width)
		nv = bv
		if nv.Sign() < 0 || nv.BitLen() > sg.width {
			nv = new(big.Int).And(bv, sg.bmask)
		}
	} else {
		m := new(big.Int).Lsh(new(big.Int).SetUint64(mask64(w)), uint(lo))
		nv = new(big.Int).AndNot(*p, m)
		ins := new(big.Int).Lsh(new(big.Int).SetUint64(v&mask64(w)), uint(lo))
		nv.Or(nv, ins)
	}
	if nv.Cmp(*p) != 0 {
		*p = nv
		s.touch(sg)
	}
}

func (s *Sim) storeBig(sg *signal, addr, lo, w int, bv *big.Int) {
	val := bv
	if lo < 0 {
		val = new(big.Int).Rsh(val, uint(-lo))
		w += lo
		lo = 0
	}
	if lo+w > sg.width {
		w = sg.width - lo
	}
	if w <= 0 {
		return
	}
	if w <= 64 {
		s.store(sg, addr, lo, w, extract64(new(big.Int).And(val, bigMask(w)), 0, w), nil)
		return
	}
	var off int
	if sg.isMem {
		off = addr - sg.memLo
		if off < 0 || off >= sg.depth {
			return
		}
	}
	var p **big.Int
	if sg.isMem {
		p = &s.memW[sg.idx][off]
	} else {
		p = &s.wides[sg.idx]
	}
	m := new(big.Int).Lsh(bigMask(w), uint(lo))
	nv := new(big.Int).AndNot(*p, m)
	ins := new(big.Int).And(val, bigMask(w))
	ins.Lsh(ins, uint(lo))
	nv.Or(nv, ins)
	if nv.Cmp(*p) != 0 {
		*p = nv
		s.touch(sg)
	}
}

func (s *Sim) markAssigned(sg *signal) {
	if !s.assigned[sg.idx] {
		s.assigned[sg.idx] = true
		s.assignedList = append(s.assignedList, sg.idx)
	}
}

func (s *Sim) clearAssigned() {
	for _, i := range s.assignedList {
		s.assigned[i] = false
	}
	s.assignedList = s.assignedList[:0]
}

func (s *Sim) abort(format string, args ...interface{}) {
	panic(runtimeAbort{&RuntimeError{Msg: fmt.Sprintf(format, args...)}})
}

// settle evaluates continuous assignments and combinational blocks until
// nothing changes.
func (s *Sim) settle() {
	if !s.anyDirty {
		return
	}
	for pass := 0; s.anyDirty; pass++ {
		if pass > s.maxSettle {
			desc := ""
			for i, d := range s.dirty {
				if d {
					desc = s.nodes[i].desc
					break
				}
			}
			s.curNode = len(s.nodes)
			s.abort("combinational loop: no fixpoint after %d passes (still changing: %s)", pass, desc)
		}
		s.anyDirty = false
		for i, n := range s.nodes {
			if s.dirty[i] {
				s.dirty[i] = false
				s.curNode = i
				n.run()
			}
		}
	}
	s.curNode = len(s.nodes)
}

// detect compares every event signal with its value at the previous
// detection point, marks the triggered processes and reports whether any
// process fired.
func (s *Sim) detect() bool {
	any := false
	for _, ev := range s.events {
		var cur uint64
		if ev.sig.wide {
			cur = uint64(s.wides[ev.sig.idx].Bit(0))
		} else {
			cur = s.vals[ev.sig.idx] & 1
		}
		if cur == ev.prev {
			continue
		}
		ev.prev = cur
		list := ev.pos
		if cur == 0 {
			list = ev.neg
		}
		for _, p := range list {
			s.fire[p] = true
			any = true
		}
	}
	return any
}

func (s *Sim) commitNBA() {
	// entries may be appended while committing only through combinational
	// blocks, which do not run here; iterate over a stable prefix.
	n := len(s.nba)
	for i := 0; i < n; i++ {
		e := &s.nba[i]
		s.store(e.sg, e.addr, e.lo, e.w, e.v, e.bv)
		e.bv = nil
	}
	s.nba = s.nba[:0]
}

func (s *Sim) eval() (err error) {
	defer func() {
		if r := recover(); r != nil {
			if ra, ok := r.(runtimeAbort); ok {
				err = ra.err
				s.nba = s.nba[:0]
				for i := range s.fire {
					s.fire[i] = false
				}
				return
			}
			panic(r)
		}
	}()
	s.evalCount++
	for delta := 0; ; delta++ {
		if delta > s.maxDelta {
			s.abort("delta-cycle limit exceeded (%d): oscillating non-blocking updates or derived clocks", s.maxDelta)
		}
		for active := 0; ; active++ {
			if active > s.maxDelta {
				s.abort("active-region limit exceeded (%d): oscillating blocking updates or derived clocks", s.maxDelta)
			}
			s.settle()
			if !s.detect() {
				break
			}
			for i, p := range s.procs {
				if s.fire[i] {
					s.fire[i] = false
					s.procRuns++
					p.run()
				}
			}
		}
		if len(s.nba) == 0 {
			break
		}
		s.commitNBA()
	}
	return nil
}

func (s *Sim) pendingDirty() bool {
	for _, d := range s.dirty {
		if d {
			return true
		}
	}
	return false
}

// ---------- public API ----------

// Eval propagates the effect of the Set calls made since the previous Eval:
// combinational logic settles, edges on sensitivity-list signals are
// detected against the values at the end of the previous Eval, triggered
// processes run, non-blocking updates commit, and the cycle repeats until
// the design is stable.
func (s *Sim) Eval() error {
	s.clearAssigned()
	return s.eval()
}

// Tick is Set(clk,1); Eval(); Set(clk,0); Eval() with the Assigned flags
// accumulated over both halves.
func (s *Sim) Tick(clk string) error {
	s.clearAssigned()
	if err := s.Set(clk, 1); err != nil {
		return err
	}
	if err := s.eval(); err != nil {
		return err
	}
	if err := s.Set(clk, 0); err != nil {
		return err
	}
	return s.eval()
}

// Top returns the name of the top module.
func (s *Sim) Top() string { return s.top }

// Signals returns all hierarchical signal names, sorted, memories included.
func (s *Sim) Signals() []string {
	return append([]string(nil), s.names...)
}

func (s *Sim) Has(name string) bool { _, ok := s.byName[name]; return ok }

// Width returns the bit width of a signal (word width for memories), 0 if unknown.
func (s *Sim) Width(name string) int {
	if sg, ok := s.byName[name]; ok {
		return sg.width
	}
	return 0
}

// Kind returns "wire", "reg" or "integer" ("" if unknown).
func (s *Sim) Kind(name string) string {
	if sg, ok := s.byName[name]; ok {
		return sg.kind.String()
	}
	return ""
}

func (s *Sim) IsMem(name string) bool {
	sg, ok := s.byName[name]
	return ok && sg.isMem
}

func (s *Sim) MemDepth(name string) int {
	if sg, ok := s.byName[name]; ok && sg.isMem {
		return sg.depth
	}
	return 0
}

// MemBase returns the lowest valid address of a memory.
func (s *Sim) MemBase(name string) int {
	if sg, ok := s.byName[name]; ok && sg.isMem {
		return sg.memLo
	}
	return 0
}

func (s *Sim) settable(name string) (*signal, error) {
	sg, ok := s.byName[name]
	if !ok {
		return nil, fmt.Errorf("vsim: unknown signal %q", name)
	}
	if sg.isMem {
		return nil, fmt.Errorf("vsim: %q is a memory, use SetMem", name)
	}
	if len(sg.contDrv) > 0 {
		return nil, fmt.Errorf("vsim: %q is driven by a continuous assignment or port connection (%s) and cannot be set", name, sg.contDrv[0].what)
	}
	return sg, nil
}

// Set drives a top-level input (or any undriven net) or overwrites a reg.
// Values wider than the signal are truncated.
func (s *Sim) Set(name string, v uint64) error {
	sg, err := s.settable(name)
	if err != nil {
		return err
	}
	if sg.wide {
		s.store(sg, 0, 0, sg.width, 0, new(big.Int).SetUint64(v))
	} else {
		s.store(sg, 0, 0, sg.width, v&sg.mask, nil)
	}
	return nil
}

func (s *Sim) SetBig(name string, v *big.Int) error {
	sg, err := s.settable(name)
	if err != nil {
		return err
	}
	if v.Sign() < 0 {
		v = new(big.Int).And(v, bigMask(sg.width))
	}
	if sg.wide {
		s.store(sg, 0, 0, sg.width, 0, new(big.Int).And(v, sg.bmask))
	} else {
		s.store(sg, 0, 0, sg.width, extract64(v, 0, sg.width), nil)
	}
	return nil
}

// Get returns the low 64 bits of a signal (0 for unknown names and memories; see Has).
func (s *Sim) Get(name string) uint64 {
	sg, ok := s.byName[name]
	if !ok || sg.isMem {
		return 0
	}
	if sg.wide {
		return extract64(s.wides[sg.idx], 0, 64)
	}
	return s.vals[sg.idx]
}

// GetBig returns the value of a signal (nil for unknown names and memories).
func (s *Sim) GetBig(name string) *big.Int {
	sg, ok := s.byName[name]
	if !ok || sg.isMem {
		return nil
	}
	if sg.wide {
		return new(big.Int).Set(s.wides[sg.idx])
	}
	return new(big.Int).SetUint64(s.vals[sg.idx])
}

// GetMem returns word idx (a Verilog address, not an offset) of a memory;
// nil for unknown names or out-of-range addresses.
func (s *Sim) GetMem(name string, idx int) *big.Int {
	sg, ok := s.byName[name]
	if !ok || !sg.isMem {
		return nil
	}
	off := idx - sg.memLo
	if off < 0 || off >= sg.depth {
		return nil
	}
	if sg.wide {
		return new(big.Int).Set(s.memW[sg.idx][off])
	}
	return new(big.Int).SetUint64(s.memN[sg.idx][off])
}

func (s *Sim) SetMem(name string, idx int, v *big.Int) error {
	sg, ok := s.byName[name]
	if !ok || !sg.isMem {
		return fmt.Errorf("vsim: %q is not a memory", name)
	}
	off := idx - sg.memLo
	if off < 0 || off >= sg.depth {
		return fmt.Errorf("vsim: address %d out of range for memory %q", idx, name)
	}
	if v.Sign() < 0 {
		v = new(big.Int).And(v, bigMask(sg.width))
	}
	if sg.wide {
		s.store(sg, idx, 0, sg.width, 0, new(big.Int).And(v, sg.bmask))
	} else {
		s.store(sg, idx, 0, sg.width, extract64(v, 0, sg.width), nil)
	}
	return nil
}

// Assigned reports whether the reg (or any word of the memory) was the
// target of an executed procedural assignment during the last Eval/Tick,
// even if its value did not change.
func (s *Sim) Assigned(name string) bool {
	sg, ok := s.byName[name]
	return ok && s.assigned[sg.idx]
}

// AssignedList returns the sorted names of all signals for which Assigned is true.
func (s *Sim) AssignedList() []string {
	res := make([]string, 0, len(s.assignedList))
	for _, i := range s.assignedList {
		res = append(res, s.sigs[i].name)
	}
	sort.Strings(res)
	return res
}

const (
	fnvOffset = 14695981039346656037
	fnvPrime  = 1099511628211
)

func hash64(h, v uint64) uint64 {
	for i := 0; i < 8; i++ {
		h ^= v & 0xff
		h *= fnvPrime
		v >>= 8
	}
	return h
}

func hashBig(h uint64, x *big.Int) uint64 {
	ws := x.Bits()
	h = hash64(h, uint64(len(ws)))
	for _, w := range ws {
		h = hash64(h, uint64(w))
	}
	return h
}

// StateHash hashes the contents of every reg, integer and memory (FNV-1a,
// in name order). Nets are functions of that state and of the inputs and
// are not included.
func (s *Sim) StateHash() uint64 {
	h := uint64(fnvOffset)
	for _, sg := range s.regOrder {
		switch {
		case sg.isMem && sg.wide:
			for _, w := range s.memW[sg.idx] {
				h = hashBig(h, w)
			}
		case sg.isMem:
			for _, w := range s.memN[sg.idx] {
				h = hash64(h, w)
			}
		case sg.wide:
			h = hashBig(h, s.wides[sg.idx])
		default:
			h = hash64(h, s.vals[sg.idx])
		}
	}
	return h
}

// Snapshot returns name -> hex value for every reg and integer, plus one
// entry "mem[addr]" for every non-zero memory word.
func (s *Sim) Snapshot() map[string]string {
	res := make(map[string]string, len(s.regOrder))
	for _, sg := range s.regOrder {
		switch {
		case sg.isMem && sg.wide:
			for i, w := range s.memW[sg.idx] {
				if w.Sign() != 0 {
					res[fmt.Sprintf("%s[%d]", sg.name, i+sg.memLo)] = w.Text(16)
				}
			}
		case sg.isMem:
			for i, w := range s.memN[sg.idx] {
				if w != 0 {
					res[fmt.Sprintf("%s[%d]", sg.name, i+sg.memLo)] = fmt.Sprintf("%x", w)
				}
			}
		case sg.wide:
			res[sg.name] = s.wides[sg.idx].Text(16)
		default:
			res[sg.name] = fmt.Sprintf("%x", s.vals[sg.idx])
		}
	}
	return res
}

// Conns returns every instance port connection of the flattened design in
// elaboration (declaration) order.
func (s *Sim) Conns() []Conn { return append([]Conn(nil), s.conns...) }

// ContAssigns returns every continuous assignment of the flattened design
// in elaboration (declaration) order.
func (s *Sim) ContAssigns() []ContAssign { return append([]ContAssign(nil), s.cassigns...) }

// Ports returns the ports of the top module in header order.
func (s *Sim) Ports() []Port { return append([]Port(nil), s.ports...) }

// Warnings returns non-fatal remarks collected during elaboration
// (port width mismatches, truncated literals), in elaboration order.
func (s *Sim) Warnings() []string { return append([]string(nil), s.warnings...) }

// State is a copy of the complete simulation state (see SaveState).
type State struct {
	vals  []uint64
	wides []*big.Int
	memN  [][]uint64
	memW  [][]*big.Int
	prev  []uint64
	dirty []bool
}

// SaveState copies all values (nets, regs, memories, edge-detection history).
func (s *Sim) SaveState() *State {
	st := &State{
		vals:  append([]uint64(nil), s.vals...),
		wides: append([]*big.Int(nil), s.wides...), // values are immutable
		memN:  make([][]uint64, len(s.memN)),
		memW:  make([][]*big.Int, len(s.memW)),
		prev:  make([]uint64, len(s.events)),
		dirty: append([]bool(nil), s.dirty...),
	}
	for i, m := range s.memN {
		if m != nil {
			st.memN[i] = append([]uint64(nil), m...)
		}
	}
	for i, m := range s.memW {
		if m != nil {
			st.memW[i] = append([]*big.Int(nil), m...)
		}
	}
	for i, ev := range s.events {
		st.prev[i] = ev.prev
	}
	return st
}

// RestoreState puts back a state saved from this Sim.
func (s *Sim) RestoreState(st *State) {
	copy(s.vals, st.vals)
	copy(s.wides, st.wides)
	for i, m := range st.memN {
		if m != nil {
			copy(s.memN[i], m)
		}
	}
	for i, m := range st.memW {
		if m != nil {
			copy(s.memW[i], m)
		}
	}
	for i, ev := range s.events {
		ev.prev = st.prev[i]
	}
	copy(s.dirty, st.dirty)
	s.anyDirty = s.pendingDirty()
	s.clearAssigned()
}

// Stats returns the number of Eval calls and process activations so far.
func (s *Sim) Stats() (evals, processRuns uint64) { return s.evalCount, s.procRuns }
