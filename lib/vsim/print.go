package vsim

import "strings"

// ExprString prints an expression canonically: no blanks inside selects,
// binary and ternary operators fully parenthesised with single blanks,
// numbers as written in the source (blanks removed).
func ExprString(e Expr) string {
	var sb strings.Builder
	printExpr(&sb, e, true)
	return sb.String()
}

func printExpr(sb *strings.Builder, e Expr, top bool) {
	switch x := e.(type) {
	case nil:
		return
	case *Number:
		sb.WriteString(x.Text)
	case *Ident:
		sb.WriteString(x.Name)
	case *Index:
		printExpr(sb, x.X, false)
		sb.WriteByte('[')
		printExpr(sb, x.Idx, true)
		sb.WriteByte(']')
	case *PartSel:
		printExpr(sb, x.X, false)
		sb.WriteByte('[')
		printExpr(sb, x.A, true)
		switch x.Mode {
		case ':':
			sb.WriteByte(':')
		case '+':
			sb.WriteString("+:")
		case '-':
			sb.WriteString("-:")
		}
		printExpr(sb, x.B, true)
		sb.WriteByte(']')
	case *Concat:
		sb.WriteByte('{')
		for i, p := range x.Parts {
			if i > 0 {
				sb.WriteString(", ")
			}
			printExpr(sb, p, true)
		}
		sb.WriteByte('}')
	case *Repl:
		sb.WriteByte('{')
		printExpr(sb, x.Count, false)
		sb.WriteByte('{')
		for i, p := range x.Parts {
			if i > 0 {
				sb.WriteString(", ")
			}
			printExpr(sb, p, true)
		}
		sb.WriteString("}}")
	case *Unary:
		sb.WriteString(x.Op)
		printExpr(sb, x.X, false)
	case *Binary:
		if !top {
			sb.WriteByte('(')
		}
		printExpr(sb, x.L, false)
		sb.WriteByte(' ')
		sb.WriteString(x.Op)
		sb.WriteByte(' ')
		printExpr(sb, x.R, false)
		if !top {
			sb.WriteByte(')')
		}
	case *Ternary:
		if !top {
			sb.WriteByte('(')
		}
		printExpr(sb, x.C, false)
		sb.WriteString(" ? ")
		printExpr(sb, x.A, false)
		sb.WriteString(" : ")
		printExpr(sb, x.B, false)
		if !top {
			sb.WriteByte(')')
		}
	case *SysFunc:
		sb.WriteString(x.Name)
		sb.WriteByte('(')
		for i, p := range x.Args {
			if i > 0 {
				sb.WriteString(", ")
			}
			printExpr(sb, p, true)
		}
		sb.WriteByte(')')
	case *StringLit:
		sb.WriteByte('"')
		sb.WriteString(x.S)
		sb.WriteByte('"')
	}
}

// walkIdents calls f for every identifier in e in source order.
func walkIdents(e Expr, f func(*Ident)) {
	switch x := e.(type) {
	case nil:
	case *Ident:
		f(x)
	case *Index:
		walkIdents(x.X, f)
		walkIdents(x.Idx, f)
	case *PartSel:
		walkIdents(x.X, f)
		walkIdents(x.A, f)
		walkIdents(x.B, f)
	case *Concat:
		for _, p := range x.Parts {
			walkIdents(p, f)
		}
	case *Repl:
		walkIdents(x.Count, f)
		for _, p := range x.Parts {
			walkIdents(p, f)
		}
	case *Unary:
		walkIdents(x.X, f)
	case *Binary:
		walkIdents(x.L, f)
		walkIdents(x.R, f)
	case *Ternary:
		walkIdents(x.C, f)
		walkIdents(x.A, f)
		walkIdents(x.B, f)
	case *SysFunc:
		for _, p := range x.Args {
			walkIdents(p, f)
		}
	}
}

// classifyTree reports "" for a plain identifier or constant, "&" for a pure
// AND-tree whose leaves are identifiers (the neutral literal 1'b1 is
// tolerated, as the generators emit "1'b1 & a & b"), "|" for a pure OR-tree
// (neutral literal 1'b0 tolerated), "expr" otherwise.
func classifyTree(e Expr) string {
	switch x := e.(type) {
	case *Ident, *Number:
		return ""
	case *Binary:
		if x.Op == "&" || x.Op == "|" {
			if pureTree(x, x.Op) {
				return x.Op
			}
		}
	}
	return "expr"
}

func pureTree(e Expr, op string) bool {
	switch x := e.(type) {
	case *Ident:
		return true
	case *Number:
		if x.XZ != nil {
			return false
		}
		if op == "&" {
			// all ones of its size
			return x.Size > 0 && x.Value.BitLen() == x.Size && allOnes(x)
		}
		return x.Value.Sign() == 0
	case *Binary:
		return x.Op == op && pureTree(x.L, op) && pureTree(x.R, op)
	}
	return false
}

func allOnes(n *Number) bool {
	for i := 0; i < n.Size; i++ {
		if n.Value.Bit(i) == 0 {
			return false
		}
	}
	return true
}
