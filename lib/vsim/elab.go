package vsim

import (
	"fmt"
	"math/big"
	"os"
	"path/filepath"
	"sort"
	"strings"
)

// Design is a set of parsed modules.
type Design struct {
	mods  map[string]*Module
	order []string
}

// NewDesign returns an empty design to be filled with Add.
func NewDesign() *Design { return &Design{mods: map[string]*Module{}} }

// LoadDir parses every *.v file of a directory in name order, skipping the
// base names listed in exclude (for instance "bondmachine_tb.v").
func LoadDir(dir string, exclude ...string) (*Design, error) {
	files, err := filepath.Glob(filepath.Join(dir, "*.v"))
	if err != nil {
		return nil, err
	}
	sort.Strings(files)
	d := NewDesign()
next:
	for _, f := range files {
		for _, x := range exclude {
			if filepath.Base(f) == x {
				continue next
			}
		}
		b, err := os.ReadFile(f)
		if err != nil {
			return nil, err
		}
		if err := d.Add(filepath.Base(f), string(b)); err != nil {
			return nil, err
		}
	}
	return d, nil
}

// Parse parses one source text, which may hold several modules.
func Parse(name, src string) (*Design, error) {
	d := NewDesign()
	if err := d.Add(name, src); err != nil {
		return nil, err
	}
	return d, nil
}

// Add parses more text into the design. A module name that is already
// defined is a DesignError (class "syntax"); nothing is added in that case.
func (d *Design) Add(name, src string) error {
	mods, err := parseSource(name, src)
	if err != nil {
		return err
	}
	seen := map[string]bool{}
	for _, m := range mods {
		if prev, dup := d.mods[m.Name]; dup {
			return &DesignError{Class: ClassSyntax, File: name, Line: m.Line,
				Msg: fmt.Sprintf("duplicate module '%s' (first defined at %s:%d)", m.Name, prev.File, prev.Line)}
		}
		if seen[m.Name] {
			return &DesignError{Class: ClassSyntax, File: name, Line: m.Line, Msg: fmt.Sprintf("duplicate module '%s'", m.Name)}
		}
		seen[m.Name] = true
	}
	for _, m := range mods {
		d.mods[m.Name] = m
		d.order = append(d.order, m.Name)
	}
	return nil
}

// Modules returns the module names in definition order.
func (d *Design) Modules() []string { return append([]string(nil), d.order...) }

// ModulePorts returns the port names of a module in header order (nil if unknown).
func (d *Design) ModulePorts(name string) []string {
	if m, ok := d.mods[name]; ok {
		return append([]string(nil), m.Ports...)
	}
	return nil
}

// Tops returns the modules that are not instantiated by any other module
// of the design, in definition order.
func (d *Design) Tops() []string {
	used := map[string]bool{}
	for _, n := range d.order {
		for _, it := range d.mods[n].Items {
			if inst, ok := it.(*Instance); ok {
				used[inst.Module] = true
			}
		}
	}
	var res []string
	for _, n := range d.order {
		if !used[n] {
			res = append(res, n)
		}
	}
	return res
}

// Options tune elaboration and simulation limits.
type Options struct {
	// UnsizedInConcat accepts unsized constants inside concatenations as
	// 32-bit values (what Vivado and most synthesis tools do) instead of
	// reporting a DesignError as IEEE 1364 and Icarus Verilog do.
	UnsizedInConcat bool
	MaxDelta        int // delta cycles per Eval (default 1000)
	MaxSettle       int // passes over the combinational nodes (default 1000)
	MaxLoop         int // iterations of one for-loop (default 1<<22)
	// ImplicitPortNets declares a 1-bit wire for an identifier that is not
	// declared and is used in an instance port connection, as IEEE 1364 does
	// (default_nettype wire), instead of reporting a DesignError. A warning is
	// recorded for every net created this way.
	ImplicitPortNets bool
}

// Elaborate flattens the hierarchy below top with default options and
// returns the first error found (see Check for all of them).
func Elaborate(d *Design, top string) (*Sim, error) {
	return ElaborateOpts(d, top, Options{})
}

func ElaborateOpts(d *Design, top string, opts Options) (*Sim, error) {
	s, errs := elaborate(d, top, opts)
	if len(errs) > 0 {
		return nil, errs[0]
	}
	return s, nil
}

// Check elaborates and returns every design error found (elaboration
// continues after recoverable design errors; an UnsupportedError ends it).
func Check(d *Design, top string, opts Options) []error {
	_, errs := elaborate(d, top, opts)
	return errs
}

type constVal struct {
	w      int
	signed bool
	v      *big.Int
}

type symbol struct {
	param   *constVal
	sig     *signal
	line    int
	isPort  bool
	hasKind bool
	hasDir  bool
}

type scope struct {
	parent *scope
	root   *scope
	syms   map[string]*symbol
	insts  map[string]int
	path   string
	mod    *Module
	types  map[Expr]typ
}

func (sc *scope) lookup(name string) *symbol {
	for s := sc; s != nil; s = s.parent {
		if sym, ok := s.syms[name]; ok {
			return sym
		}
	}
	return nil
}

func (sc *scope) hier(name string) string {
	if sc.path == "" {
		return name
	}
	return sc.path + "." + name
}

type nodeInfo struct {
	run    func()
	desc   string
	reads  []*signal
	writes []*signal
}

type elabAbort struct{ err error }

type elab struct {
	d     *Design
	s     *Sim
	opts  Options
	errs  []error
	seen  map[string]bool // dedupe of error messages
	stack []string
	nodes []*nodeInfo
	inits []func()
	nproc int // process id counter (always blocks)
	evIdx map[int]int
}

func (e *elab) errf(sc *scope, class string, line int, format string, args ...interface{}) {
	file, path := "", ""
	if sc != nil {
		file, path = sc.root.mod.File, sc.root.path
	}
	de := &DesignError{Class: class, File: file, Line: line, Scope: path, Msg: fmt.Sprintf(format, args...)}
	key := de.Error()
	if e.seen[key] {
		return
	}
	e.seen[key] = true
	e.errs = append(e.errs, de)
}

func (e *elab) warnf(sc *scope, line int, format string, args ...interface{}) {
	loc := fmt.Sprintf("%s:%d", sc.root.mod.File, line)
	if sc.root.path != "" {
		loc += " (" + sc.root.path + ")"
	}
	msg := loc + ": " + fmt.Sprintf(format, args...)
	if e.seen["W"+msg] {
		return
	}
	e.seen["W"+msg] = true
	e.s.warnings = append(e.s.warnings, msg)
}

func (e *elab) unsupported(sc *scope, line int, what string) {
	file := ""
	if sc != nil {
		file = sc.root.mod.File
	}
	panic(elabAbort{&UnsupportedError{Construct: what, File: file, Line: line}})
}

func elaborate(d *Design, top string, opts Options) (sim *Sim, errs []error) {
	if opts.MaxDelta <= 0 {
		opts.MaxDelta = 1000
	}
	if opts.MaxSettle <= 0 {
		opts.MaxSettle = 1000
	}
	if opts.MaxLoop <= 0 {
		opts.MaxLoop = 1 << 22
	}
	s := &Sim{top: top, byName: map[string]*signal{}, maxDelta: opts.MaxDelta, maxSettle: opts.MaxSettle, maxLoop: opts.MaxLoop}
	e := &elab{d: d, s: s, opts: opts, seen: map[string]bool{}, evIdx: map[int]int{}}
	m, ok := d.mods[top]
	if !ok {
		return nil, []error{&DesignError{Class: ClassUndefinedModule, File: "", Msg: fmt.Sprintf("top module '%s' is not defined", top)}}
	}
	defer func() {
		if r := recover(); r != nil {
			if ea, ok := r.(elabAbort); ok {
				sim = nil
				errs = append(e.errs, ea.err)
				return
			}
			panic(r)
		}
	}()
	e.elabModule(m, "", nil, nil, 0)
	e.finish()
	if len(e.errs) > 0 {
		return nil, e.errs
	}
	return s, nil
}

// ---------- declarations ----------

func (e *elab) newSignal(sc *scope, name string, line int) *signal {
	sg := &signal{name: sc.hier(name), idx: len(e.s.sigs), file: sc.root.mod.File, line: line}
	e.s.sigs = append(e.s.sigs, sg)
	if _, dup := e.s.byName[sg.name]; dup {
		e.errf(sc, ClassSyntax, line, "hierarchical name '%s' is defined twice", sg.name)
	}
	e.s.byName[sg.name] = sg
	return sg
}

func (e *elab) evalRange(cp *comp, r *Range, line int) (msb, lsb int, ok bool) {
	m, ok1 := cp.constInt(r.MSB)
	l, ok2 := cp.constInt(r.LSB)
	if !ok1 || !ok2 {
		// report undeclared identifiers precisely, otherwise a generic message
		n := len(e.errs)
		loud := &comp{e: e, sc: cp.sc, constOnly: true}
		loud.self(r.MSB)
		loud.self(r.LSB)
		if len(e.errs) == n {
			e.errf(cp.sc, ClassSyntax, line, "range [%s:%s] is not constant", ExprString(r.MSB), ExprString(r.LSB))
		}
		return 0, 0, false
	}
	return m, l, true
}

func setShape(sg *signal, kind sigKind, signed bool, msb, lsb int) {
	sg.kind = kind
	sg.signed = signed
	sg.msb, sg.lsb = msb, lsb
	w := msb - lsb
	if w < 0 {
		w = -w
	}
	sg.width = w + 1
	sg.wide = sg.width > 64
	sg.mask = mask64(sg.width)
	if sg.wide {
		sg.bmask = bigMask(sg.width)
	}
}

func kindOf(k string) sigKind {
	switch k {
	case "reg":
		return kReg
	case "integer":
		return kInteger
	}
	return kWire
}

func (e *elab) declare(sc *scope, d *Decl, ports map[string]bool, isBlock bool) {
	cp := &comp{e: e, sc: sc, constOnly: true}
	msb, lsb := 0, 0
	hasRange := false
	if d.Kind == "integer" {
		msb, lsb, hasRange = 31, 0, true
	} else if d.Range != nil {
		var ok bool
		msb, lsb, ok = e.evalRange(cp, d.Range, d.Line)
		hasRange = ok
		if ok && (msb-lsb > 1<<20 || lsb-msb > 1<<20) {
			e.errf(sc, ClassSyntax, d.Line, "range [%d:%d] is unreasonably large", msb, lsb)
			msb, lsb = 0, 0
		}
	}
	for _, n := range d.Names {
		existing := sc.syms[n.Name]
		if d.Dir != "" {
			if !ports[n.Name] {
				e.errf(sc, ClassSyntax, n.Line, "'%s' is declared %s but is not in the port list of module %s", n.Name, d.Dir, sc.mod.Name)
				continue
			}
			if existing != nil {
				if existing.hasDir || existing.sig == nil {
					e.errf(sc, ClassSyntax, n.Line, "port '%s' is declared twice", n.Name)
					continue
				}
				// net/variable declared before its direction
				existing.hasDir = true
				existing.isPort = true
				existing.sig.dir = d.Dir
				if hasRange && (existing.sig.msb != msb || existing.sig.lsb != lsb) {
					e.errf(sc, ClassSyntax, n.Line, "port '%s': range [%d:%d] differs from the earlier declaration [%d:%d]", n.Name, msb, lsb, existing.sig.msb, existing.sig.lsb)
				}
				continue
			}
			sg := e.newSignal(sc, n.Name, n.Line)
			setShape(sg, kindOf(d.Kind), d.Signed, msb, lsb)
			sg.dir = d.Dir
			sc.syms[n.Name] = &symbol{sig: sg, line: n.Line, isPort: true, hasDir: true, hasKind: d.Kind != ""}
			if n.Array != nil {
				e.unsupported(sc, n.Line, "array port")
			}
			continue
		}
		if existing != nil {
			if existing.sig != nil && existing.isPort && !existing.hasKind && n.Array == nil {
				existing.hasKind = true
				sg := existing.sig
				if hasRange && d.Kind != "integer" && (sg.msb != msb || sg.lsb != lsb) {
					e.errf(sc, ClassSyntax, n.Line, "'%s': %s range [%d:%d] differs from the port declaration [%d:%d]", n.Name, d.Kind, msb, lsb, sg.msb, sg.lsb)
				} else if !hasRange && sg.width != 1 {
					e.warnf(sc, n.Line, "'%s' redeclared as %s without the port range [%d:%d]; port range kept", n.Name, d.Kind, sg.msb, sg.lsb)
				}
				if d.Kind == "integer" {
					setShape(sg, kInteger, true, 31, 0)
				} else {
					sg.kind = kindOf(d.Kind)
					sg.signed = sg.signed || d.Signed
				}
				continue
			}
			e.errf(sc, ClassSyntax, n.Line, "'%s' is declared twice in module %s (first at line %d)", n.Name, sc.root.mod.Name, existing.line)
			continue
		}
		sg := e.newSignal(sc, n.Name, n.Line)
		setShape(sg, kindOf(d.Kind), d.Signed, msb, lsb)
		sc.syms[n.Name] = &symbol{sig: sg, line: n.Line, hasKind: true}
		if n.Array != nil {
			if sg.kind == kWire {
				e.unsupported(sc, n.Line, "array of nets")
			}
			a, b, ok := e.evalRange(cp, n.Array, n.Line)
			if !ok {
				a, b = 0, 0
			}
			if a > b {
				a, b = b, a
			}
			if b-a >= 1<<24 {
				e.errf(sc, ClassSyntax, n.Line, "memory '%s' is unreasonably deep (%d words)", n.Name, b-a+1)
				b = a
			}
			sg.isMem = true
			sg.memLo = a
			sg.depth = b - a + 1
		}
	}
}

// ---------- module elaboration ----------

type paramOverride struct {
	named map[string]*constVal
	pos   []*constVal
	line  int
}

func (e *elab) elabModule(m *Module, path string, ov *paramOverride, parent *scope, depth int) *scope {
	sc := &scope{syms: map[string]*symbol{}, insts: map[string]int{}, path: path, mod: m, types: map[Expr]typ{}}
	sc.root = sc
	ports := map[string]bool{}
	for _, p := range m.Ports {
		if ports[p] {
			e.errf(sc, ClassSyntax, m.Line, "port '%s' appears twice in the header of module %s", p, m.Name)
		}
		ports[p] = true
	}
	// pass A: parameters and declarations, in order
	npos := 0
	usedNamed := map[string]bool{}
	for _, it := range m.Items {
		switch x := it.(type) {
		case *Param:
			var cv *constVal
			if !x.Local && ov != nil {
				if ov.named != nil {
					if v, ok := ov.named[x.Name]; ok {
						cv = v
						usedNamed[x.Name] = true
					}
				} else if npos < len(ov.pos) {
					cv = ov.pos[npos]
				}
				npos++
			}
			e.defineParam(sc, x, cv)
		case *Decl:
			e.declare(sc, x, ports, false)
		}
	}
	if ov != nil {
		if ov.named != nil {
			names := make([]string, 0, len(ov.named))
			for n := range ov.named {
				names = append(names, n)
			}
			sort.Strings(names)
			for _, n := range names {
				if !usedNamed[n] {
					e.errf(parent, ClassPortCount, ov.line, "module %s has no parameter '%s'", m.Name, n)
				}
			}
		} else if len(ov.pos) > npos {
			e.errf(parent, ClassPortCount, ov.line, "module %s has %d parameters but %d overrides are given", m.Name, npos, len(ov.pos))
		}
	}
	for _, p := range m.Ports {
		sym := sc.syms[p]
		if sym == nil || !sym.hasDir {
			e.errf(sc, ClassUndeclared, m.Line, "port '%s' of module %s has no input/output declaration", p, m.Name)
			if sym == nil {
				sg := e.newSignal(sc, p, m.Line)
				setShape(sg, kWire, false, 0, 0)
				sg.dir = "input"
				sc.syms[p] = &symbol{sig: sg, line: m.Line, isPort: true, hasDir: true}
			} else if sym.sig != nil {
				sym.sig.dir = "input"
				sym.isPort = true
			}
		}
	}
	if path == "" && parent == nil {
		for _, p := range m.Ports {
			if sym := sc.syms[p]; sym != nil && sym.sig != nil {
				if sym.sig.dir == "input" {
					sym.sig.extDrv = true
				}
				e.s.ports = append(e.s.ports, Port{Name: p, Dir: sym.sig.dir, Width: sym.sig.width})
			}
		}
	}
	// pass B: behaviour, in order
	for _, it := range m.Items {
		switch x := it.(type) {
		case *Decl:
			for _, n := range x.Names {
				if n.Init == nil {
					continue
				}
				sym := sc.syms[n.Name]
				if sym == nil || sym.sig == nil {
					continue
				}
				id := &Ident{Line: n.Line, Name: n.Name}
				if sym.sig.kind == kWire {
					e.contAssign(sc, id, n.Init, n.Line)
				} else {
					if sym.sig.isMem {
						e.errf(sc, ClassSyntax, n.Line, "memory '%s' cannot have a declaration initialiser", n.Name)
						continue
					}
					cp := &comp{e: e, sc: sc, proc: procInitial}
					e.inits = append(e.inits, cp.assign(&AssignStmt{Line: n.Line, Blocking: true, LHS: id, RHS: n.Init}))
				}
			}
		case *ContAssignItem:
			e.contAssign(sc, x.LHS, x.RHS, x.Line)
		case *Always:
			e.always(sc, x)
		case *Initial:
			cp := &comp{e: e, sc: sc, proc: procInitial}
			e.inits = append(e.inits, cp.stmt(x.Body))
		case *Instance:
			e.instantiate(sc, x, depth)
		}
	}
	return sc
}

func (e *elab) defineParam(sc *scope, p *Param, ov *constVal) {
	if prev, dup := sc.syms[p.Name]; dup {
		e.errf(sc, ClassSyntax, p.Line, "'%s' is declared twice in module %s (first at line %d)", p.Name, sc.mod.Name, prev.line)
		return
	}
	cp := &comp{e: e, sc: sc, constOnly: true}
	var cv *constVal
	if ov != nil {
		cv = ov
	} else {
		c := cp.self(p.Value)
		if !c.konst {
			if !cp.failed {
				e.errf(sc, ClassSyntax, p.Line, "value of parameter '%s' is not constant", p.Name)
			}
			c = const64(32, true, 0)
		}
		cv = &constVal{w: c.w, signed: c.signed, v: c.constValue()}
	}
	if p.Range != nil {
		msb, lsb, ok := e.evalRange(cp, p.Range, p.Line)
		if ok {
			w := msb - lsb
			if w < 0 {
				w = -w
			}
			w++
			v := cv.v
			if cv.signed && cv.v.Bit(cv.w-1) == 1 && w > cv.w {
				v = new(big.Int).Sub(v, new(big.Int).Lsh(big.NewInt(1), uint(cv.w)))
			}
			cv = &constVal{w: w, signed: p.Signed, v: new(big.Int).And(v, bigMask(w))}
		}
	} else if p.Signed {
		cv = &constVal{w: cv.w, signed: true, v: cv.v}
	}
	sc.syms[p.Name] = &symbol{param: cv, line: p.Line}
}

// driver context values for comp.proc
const (
	procCont    = -1
	procInitial = -2
)

func (e *elab) addNode(n *nodeInfo) {
	e.nodes = append(e.nodes, n)
}

func (e *elab) netNames(sc *scope, x Expr) []string {
	var res []string
	seen := map[string]bool{}
	walkIdents(x, func(id *Ident) {
		sym := sc.lookup(id.Name)
		if sym == nil || sym.sig == nil {
			return
		}
		if !seen[sym.sig.name] {
			seen[sym.sig.name] = true
			res = append(res, sym.sig.name)
		}
	})
	return res
}

// lhsTargetNames lists only the assigned nets of an lvalue (not index expressions).
func (e *elab) lhsTargetNames(sc *scope, x Expr) []string {
	var res []string
	var walk func(Expr)
	walk = func(x Expr) {
		switch y := x.(type) {
		case *Ident:
			if sym := sc.lookup(y.Name); sym != nil && sym.sig != nil {
				res = append(res, sym.sig.name)
			}
		case *Index:
			walk(y.X)
		case *PartSel:
			walk(y.X)
		case *Concat:
			for _, p := range y.Parts {
				walk(p)
			}
		}
	}
	walk(x)
	return res
}

func (e *elab) contAssign(sc *scope, lhs, rhs Expr, line int) {
	cp := &comp{e: e, sc: sc, proc: procCont}
	run, lv := cp.assignParts(&AssignStmt{Line: line, Blocking: true, LHS: lhs, RHS: rhs})
	e.s.cassigns = append(e.s.cassigns, ContAssign{
		Scope:   sc.root.path,
		LHS:     ExprString(lhs),
		LHSNets: e.lhsTargetNames(sc, lhs),
		RHS:     ExprString(rhs),
		RHSNets: e.netNames(sc, rhs),
		Op:      classifyTree(rhs),
	})
	var writes []*signal
	if lv != nil {
		writes = lv.sigs
	}
	e.addNode(&nodeInfo{run: run, desc: fmt.Sprintf("assign %s (%s:%d)", sc.hier(ExprString(lhs)), sc.root.mod.File, line), reads: cp.reads, writes: writes})
}

func (e *elab) always(sc *scope, a *Always) {
	id := e.nproc
	e.nproc++
	edges, levels := 0, 0
	for _, it := range a.Sens {
		if it.Edge != "" {
			edges++
		} else {
			levels++
		}
	}
	if edges > 0 && levels > 0 {
		e.unsupported(sc, a.Line, "sensitivity list mixing edge and level events")
	}
	cp := &comp{e: e, sc: sc, proc: id}
	if a.Star || levels > 0 {
		body := cp.stmt(a.Body)
		reads := cp.reads
		if !a.Star {
			reads = nil
			for _, it := range a.Sens {
				idn, ok := it.X.(*Ident)
				if !ok {
					e.unsupported(sc, a.Line, "sensitivity to an expression ("+ExprString(it.X)+")")
				}
				sym := sc.lookup(idn.Name)
				if sym == nil || sym.sig == nil {
					e.errf(sc, ClassUndeclared, idn.Line, "identifier '%s' in sensitivity list is not declared", idn.Name)
					continue
				}
				reads = append(reads, sym.sig)
			}
		}
		e.addNode(&nodeInfo{run: body, desc: fmt.Sprintf("always @* (%s:%d)", sc.root.mod.File, a.Line), reads: reads, writes: cp.writes()})
		return
	}
	type ev struct {
		sg  *signal
		pos bool
	}
	var evs []ev
	for _, it := range a.Sens {
		idn, ok := it.X.(*Ident)
		if !ok {
			e.unsupported(sc, a.Line, "edge event on an expression ("+ExprString(it.X)+")")
		}
		sym := sc.lookup(idn.Name)
		if sym == nil {
			e.errf(sc, ClassUndeclared, idn.Line, "identifier '%s' in sensitivity list is not declared", idn.Name)
			continue
		}
		if sym.sig == nil || sym.sig.isMem {
			e.errf(sc, ClassSyntax, idn.Line, "'%s' cannot be used in a sensitivity list", idn.Name)
			continue
		}
		evs = append(evs, ev{sym.sig, it.Edge == "posedge"})
	}
	body := cp.stmt(a.Body)
	pidx := len(e.s.procs)
	e.s.procs = append(e.s.procs, &process{run: body, desc: fmt.Sprintf("always (%s:%d) in %s", sc.root.mod.File, a.Line, sc.root.path)})
	for _, v := range evs {
		k, ok := e.evIdx[v.sg.idx]
		if !ok {
			k = len(e.s.events)
			e.evIdx[v.sg.idx] = k
			e.s.events = append(e.s.events, &evSig{sig: v.sg})
		}
		if v.pos {
			e.s.events[k].pos = append(e.s.events[k].pos, pidx)
		} else {
			e.s.events[k].neg = append(e.s.events[k].neg, pidx)
		}
	}
}

func joinPath(a, b string) string {
	if a == "" {
		return b
	}
	return a + "." + b
}

func (e *elab) instantiate(sc *scope, inst *Instance, depth int) {
	if prev, dup := sc.insts[inst.Name]; dup {
		e.errf(sc, ClassSyntax, inst.Line, "instance name '%s' is used twice (first at line %d)", inst.Name, prev)
	} else if sym, clash := sc.syms[inst.Name]; clash {
		e.errf(sc, ClassSyntax, inst.Line, "instance name '%s' clashes with a declaration at line %d", inst.Name, sym.line)
	}
	sc.insts[inst.Name] = inst.Line
	checkIdents := func() {
		for _, c := range inst.Conns {
			walkIdents(c.X, func(id *Ident) {
				if sc.lookup(id.Name) == nil {
					e.errf(sc, ClassUndeclared, id.Line, "identifier '%s' in a port connection of instance '%s' is not declared (implicit nets are not created)", id.Name, inst.Name)
				}
			})
		}
	}
	m, ok := e.d.mods[inst.Module]
	if !ok {
		e.errf(sc, ClassUndefinedModule, inst.Line, "module '%s' (instance '%s') is not defined", inst.Module, inst.Name)
		checkIdents()
		return
	}
	for _, up := range e.stack {
		if up == m.Name {
			e.errf(sc, ClassSyntax, inst.Line, "module '%s' instantiates itself recursively", m.Name)
			return
		}
	}
	if depth > 64 {
		e.errf(sc, ClassSyntax, inst.Line, "hierarchy deeper than 64 levels")
		return
	}
	// parameter overrides, evaluated in the parent scope
	var ov *paramOverride
	if len(inst.Params) > 0 {
		ov = &paramOverride{line: inst.Line}
		cp := &comp{e: e, sc: sc, constOnly: true}
		for _, p := range inst.Params {
			var cv *constVal
			if p.X != nil {
				c := cp.self(p.X)
				if !c.konst {
					if !cp.failed {
						e.errf(sc, ClassSyntax, p.Line, "parameter override %s is not constant", ExprString(p.X))
					}
					c = const64(32, true, 0)
				}
				cv = &constVal{w: c.w, signed: c.signed, v: c.constValue()}
			}
			if p.Name != "" {
				if ov.named == nil {
					ov.named = map[string]*constVal{}
				}
				if cv != nil {
					ov.named[p.Name] = cv
				}
			} else {
				if cv == nil {
					e.errf(sc, ClassSyntax, p.Line, "empty positional parameter override")
					cv = &constVal{w: 32, signed: true, v: new(big.Int)}
				}
				ov.pos = append(ov.pos, cv)
			}
		}
	}
	childPath := joinPath(sc.root.path, inst.Name)
	e.stack = append(e.stack, m.Name)
	child := e.elabModule(m, childPath, ov, sc, depth+1)
	e.stack = e.stack[:len(e.stack)-1]

	// bind ports
	bound := map[string]*PortConn{}
	if inst.Named {
		for i := range inst.Conns {
			c := &inst.Conns[i]
			isPort := false
			for _, p := range m.Ports {
				if p == c.Name {
					isPort = true
				}
			}
			if !isPort {
				e.errf(sc, ClassPortCount, c.Line, "module '%s' has no port '%s' (instance '%s')", m.Name, c.Name, inst.Name)
				walkIdents(c.X, func(id *Ident) {
					if sc.lookup(id.Name) == nil {
						e.errf(sc, ClassUndeclared, id.Line, "identifier '%s' in a port connection of instance '%s' is not declared (implicit nets are not created)", id.Name, inst.Name)
					}
				})
				continue
			}
			if _, dup := bound[c.Name]; dup {
				e.errf(sc, ClassSyntax, c.Line, "port '%s' of instance '%s' is connected twice", c.Name, inst.Name)
				continue
			}
			bound[c.Name] = c
		}
	} else {
		if len(inst.Conns) != len(m.Ports) {
			e.errf(sc, ClassPortCount, inst.Line, "instance '%s' of module '%s' has %d positional connections but the module has %d ports", inst.Name, m.Name, len(inst.Conns), len(m.Ports))
			checkIdents()
			return
		}
		for i := range inst.Conns {
			bound[m.Ports[i]] = &inst.Conns[i]
		}
	}
	for _, p := range m.Ports {
		sym := child.syms[p]
		if sym == nil || sym.sig == nil {
			continue
		}
		psg := sym.sig
		c := bound[p]
		conn := Conn{Inst: childPath, Module: m.Name, Port: p, Dir: psg.dir}
		if c == nil || c.X == nil {
			e.s.conns = append(e.s.conns, conn)
			continue
		}
		conn.Expr = ExprString(c.X)
		conn.Nets = e.netNames(sc, c.X)
		e.s.conns = append(e.s.conns, conn)
		undeclared := false
		walkIdents(c.X, func(id *Ident) {
			if sc.lookup(id.Name) == nil && e.opts.ImplicitPortNets {
				e.declare(sc, &Decl{Line: id.Line, Kind: "wire", Names: []DeclName{{Name: id.Name}}}, nil, false)
				e.s.warnings = append(e.s.warnings, fmt.Sprintf("implicit 1-bit net '%s' created for a port connection of instance '%s'", id.Name, inst.Name))
			}
			if sc.lookup(id.Name) == nil {
				undeclared = true
				e.errf(sc, ClassUndeclared, id.Line, "identifier '%s' in a port connection of instance '%s' is not declared (implicit nets are not created)", id.Name, inst.Name)
			}
		})
		if undeclared {
			continue
		}
		desc := fmt.Sprintf("port %s.%s (%s:%d)", childPath, p, sc.root.mod.File, c.Line)
		cp := &comp{e: e, sc: sc, proc: procCont}
		if psg.dir == "input" {
			if psg.kind != kWire {
				e.errf(child, ClassAssignKind, psg.line, "input port '%s' of module %s is declared %s; an input must be a net", p, m.Name, psg.kind)
				continue
			}
			t := cp.typeOf(c.X)
			if t.w != psg.width {
				e.warnf(sc, c.Line, "port '%s' of instance '%s' is %d bits wide but the connection %s is %d bits wide", p, inst.Name, psg.width, conn.Expr, t.w)
			}
			r := cp.ctx(c.X, maxInt(t.w, psg.width), t.signed)
			psg.contDrv = append(psg.contDrv, drvRange{lo: 0, hi: psg.width - 1, line: c.Line, what: "connection of instance " + childPath})
			s := e.s
			var run func()
			if psg.width <= 64 {
				f := r.get64()
				m := psg.mask
				run = func() { s.store(psg, 0, 0, psg.width, f()&m, nil) }
			} else {
				fb := r.getBig()
				run = func() { s.store(psg, 0, 0, psg.width, 0, fb()) }
			}
			e.addNode(&nodeInfo{run: run, desc: desc, reads: cp.reads, writes: []*signal{psg}})
			continue
		}
		// output port: parent lvalue <= child signal
		lv := cp.lhs(c.X)
		if lv == nil {
			continue
		}
		if lv.w != psg.width {
			e.warnf(sc, c.Line, "port '%s' of instance '%s' is %d bits wide but the connection %s is %d bits wide", p, inst.Name, psg.width, conn.Expr, lv.w)
		}
		s := e.s
		idx := psg.idx
		var run func()
		switch {
		case lv.w <= 64 && !psg.wide:
			m := mask64(lv.w)
			run = func() { lv.write(s.vals[idx]&m, nil, false) }
		case lv.w <= 64:
			w := lv.w
			run = func() { lv.write(extract64(s.wides[idx], 0, w), nil, false) }
		case !psg.wide:
			run = func() { lv.write(0, new(big.Int).SetUint64(s.vals[idx]), false) }
		default:
			bm := bigMask(lv.w)
			run = func() { lv.write(0, new(big.Int).And(s.wides[idx], bm), false) }
		}
		e.addNode(&nodeInfo{run: run, desc: desc, reads: append(cp.reads, psg), writes: lv.sigs})
	}
}

// ---------- finishing ----------

func overlap(a, b drvRange) bool { return a.lo <= b.hi && b.lo <= a.hi }

func (e *elab) finish() {
	s := e.s
	// driver checks, in signal creation order
	for _, sg := range s.sigs {
		sc := sg
		report := func(line int, format string, args ...interface{}) {
			de := &DesignError{Class: ClassMultiDriver, File: sc.file, Line: line, Scope: scopeOf(sc.name), Msg: fmt.Sprintf(format, args...)}
			key := de.Error()
			if !e.seen[key] {
				e.seen[key] = true
				e.errs = append(e.errs, de)
			}
		}
		if sg.kind == kWire {
			if sg.extDrv && len(sg.contDrv) > 0 {
				report(sg.contDrv[0].line, "top-level input '%s' is also driven inside the design (%s)", sg.name, sg.contDrv[0].what)
			}
		cont:
			for i := 0; i < len(sg.contDrv); i++ {
				for j := i + 1; j < len(sg.contDrv); j++ {
					if overlap(sg.contDrv[i], sg.contDrv[j]) {
						report(sg.contDrv[j].line, "net '%s' has more than one continuous driver: %s (line %d) and %s (line %d)", sg.name,
							sg.contDrv[i].what, sg.contDrv[i].line, sg.contDrv[j].what, sg.contDrv[j].line)
						break cont
					}
				}
			}
			continue
		}
	proc:
		for i := 0; i < len(sg.procDrv); i++ {
			for j := i + 1; j < len(sg.procDrv); j++ {
				a, b := sg.procDrv[i], sg.procDrv[j]
				if a.proc != b.proc && overlap(a, b) {
					report(b.line, "%s '%s' is assigned from more than one always process (lines %d and %d)", sg.kind, sg.name, a.line, b.line)
					break proc
				}
			}
		}
	}
	if len(e.errs) > 0 {
		return
	}

	// storage
	n := len(s.sigs)
	s.vals = make([]uint64, n)
	s.wides = make([]*big.Int, n)
	s.memN = make([][]uint64, n)
	s.memW = make([][]*big.Int, n)
	s.assigned = make([]bool, n)
	for _, sg := range s.sigs {
		switch {
		case sg.isMem && sg.wide:
			m := make([]*big.Int, sg.depth)
			for i := range m {
				m[i] = bigZero
			}
			s.memW[sg.idx] = m
		case sg.isMem:
			s.memN[sg.idx] = make([]uint64, sg.depth)
		case sg.wide:
			s.wides[sg.idx] = bigZero
		}
		s.names = append(s.names, sg.name)
		if sg.kind != kWire {
			s.regOrder = append(s.regOrder, sg)
		}
	}
	sort.Strings(s.names)
	sort.Slice(s.regOrder, func(i, j int) bool { return s.regOrder[i].name < s.regOrder[j].name })

	e.orderNodes()
	s.fire = make([]bool, len(s.procs))

	// time zero: declaration initialisers and initial blocks, then settle;
	// no edge is detected at time zero.
	func() {
		defer func() {
			if r := recover(); r != nil {
				if ra, ok := r.(runtimeAbort); ok {
					e.errs = append(e.errs, ra.err)
					return
				}
				panic(r)
			}
		}()
		for _, f := range e.inits {
			f()
		}
		s.commitNBA()
		s.anyDirty = true
		for i := range s.dirty {
			s.dirty[i] = true
		}
		for round := 0; ; round++ {
			s.settle()
			if len(s.nba) == 0 {
				break
			}
			if round > s.maxDelta {
				s.abort("delta-cycle limit exceeded during initialisation")
			}
			s.commitNBA()
		}
		for _, ev := range s.events {
			if ev.sig.wide {
				ev.prev = uint64(s.wides[ev.sig.idx].Bit(0))
			} else {
				ev.prev = s.vals[ev.sig.idx] & 1
			}
		}
		s.clearAssigned()
	}()
}

func scopeOf(hier string) string {
	if i := strings.LastIndexByte(hier, '.'); i >= 0 {
		return hier[:i]
	}
	return ""
}

// orderNodes sorts the combinational nodes topologically (writers before
// readers, ties and cycles in elaboration order) and builds the fan-out lists.
func (e *elab) orderNodes() {
	s := e.s
	n := len(e.nodes)
	writers := map[int][]int{} // signal idx -> nodes writing it
	for i, nd := range e.nodes {
		for _, w := range nd.writes {
			writers[w.idx] = append(writers[w.idx], i)
		}
	}
	succ := make([][]int, n)
	indeg := make([]int, n)
	for i, nd := range e.nodes {
		seen := map[int]bool{}
		for _, r := range nd.reads {
			for _, w := range writers[r.idx] {
				if w != i && !seen[w] {
					seen[w] = true
					succ[w] = append(succ[w], i)
					indeg[i]++
				}
			}
		}
	}
	order := make([]int, 0, n)
	done := make([]bool, n)
	// Kahn's algorithm with a deterministic "smallest index first" choice.
	ready := []int{}
	for i := 0; i < n; i++ {
		if indeg[i] == 0 {
			ready = append(ready, i)
		}
	}
	for len(order) < n {
		if len(ready) == 0 {
			// cycle: break it at the lowest-numbered remaining node
			for i := 0; i < n; i++ {
				if !done[i] {
					ready = append(ready, i)
					break
				}
			}
		}
		sort.Ints(ready)
		i := ready[0]
		ready = ready[1:]
		if done[i] {
			continue
		}
		done[i] = true
		order = append(order, i)
		for _, j := range succ[i] {
			indeg[j]--
			if indeg[j] == 0 && !done[j] {
				ready = append(ready, j)
			}
		}
	}
	pos := make([]int, n)
	s.nodes = make([]*combNode, n)
	for p, i := range order {
		pos[i] = p
		s.nodes[p] = &combNode{run: e.nodes[i].run, desc: e.nodes[i].desc}
	}
	s.dirty = make([]bool, n)
	s.curNode = n
	for i, nd := range e.nodes {
		seen := map[int]bool{}
		for _, r := range nd.reads {
			if seen[r.idx] {
				continue
			}
			seen[r.idx] = true
			r.fanout = append(r.fanout, pos[i])
		}
	}
	for _, sg := range s.sigs {
		sort.Ints(sg.fanout)
	}
}
