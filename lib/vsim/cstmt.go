package vsim

import (
	"fmt"
	"math/big"
)

// lval is a compiled assignment target of a fixed total width. The value
// to write is passed in v when w <= 64 and in bv otherwise; nb queues a
// non-blocking update instead of writing at once.
type lval struct {
	w     int
	write func(v uint64, bv *big.Int, nb bool)
	sigs  []*signal
}

// writes returns the signals assigned by the statements compiled so far.
func (cp *comp) writes() []*signal { return cp.written }

// lhs compiles an assignment target in the driver context cp.proc.
func (cp *comp) lhs(e Expr) *lval {
	if c, ok := e.(*Concat); ok {
		var parts []*lval
		total := 0
		for _, p := range c.Parts {
			lv := cp.lhs(p)
			if lv == nil {
				return nil
			}
			parts = append(parts, lv)
			total += lv.w
		}
		res := &lval{w: total}
		shifts := make([]int, len(parts))
		sh := total
		for i, p := range parts {
			sh -= p.w
			shifts[i] = sh
			res.sigs = append(res.sigs, p.sigs...)
		}
		res.write = func(v uint64, bv *big.Int, nb bool) {
			for i, p := range parts {
				switch {
				case total <= 64:
					p.write((v>>uint(shifts[i]))&mask64(p.w), nil, nb)
				case p.w <= 64:
					p.write(extract64(bv, shifts[i], p.w), nil, nb)
				default:
					p.write(0, extractBig(bv, shifts[i], p.w), nb)
				}
			}
		}
		return res
	}

	// simple target: ident, ident[i], ident[a:b], mem[i], mem[i][sel]
	var id *Ident
	var memIdx *Index
	var sel Expr
	switch x := e.(type) {
	case *Ident:
		id = x
	case *Index:
		switch y := x.X.(type) {
		case *Ident:
			id = y
			sel = x // bit select or memory word, decided below
		case *Index:
			if yi, ok := y.X.(*Ident); ok {
				id, memIdx, sel = yi, y, x
			}
		}
	case *PartSel:
		switch y := x.X.(type) {
		case *Ident:
			id = y
			sel = x
		case *Index:
			if yi, ok := y.X.(*Ident); ok {
				id, memIdx, sel = yi, y, x
			}
		}
	}
	if id == nil {
		cp.errf(ClassSyntax, e.exprLine(), "%s is not a valid assignment target", ExprString(e))
		return nil
	}
	sym := cp.sc.lookup(id.Name)
	if sym == nil {
		cp.errf(ClassUndeclared, id.Line, "identifier '%s' is assigned but not declared", id.Name)
		// still check index expressions for undeclared names
		walkIdents(e, func(i *Ident) {
			if i != id && cp.sc.lookup(i.Name) == nil {
				cp.errf(ClassUndeclared, i.Line, "identifier '%s' is read but not declared", i.Name)
			}
		})
		return nil
	}
	if sym.param != nil {
		cp.errf(ClassSyntax, id.Line, "parameter '%s' cannot be assigned", id.Name)
		return nil
	}
	sg := sym.sig
	if sg.isMem {
		if sel == nil {
			cp.errf(ClassSyntax, id.Line, "memory '%s' assigned without an index", id.Name)
			return nil
		}
		if memIdx == nil {
			ix, ok := sel.(*Index)
			if !ok {
				cp.errf(ClassSyntax, id.Line, "part-select of memory '%s' needs a word index first", id.Name)
				return nil
			}
			memIdx = ix
			sel = nil
		}
	} else if memIdx != nil {
		cp.errf(ClassSyntax, e.exprLine(), "%s: select of a select of vector '%s'", ExprString(e), id.Name)
		return nil
	}

	// kind check and driver bookkeeping
	lo, hi := 0, sg.width-1
	var si selInfo
	whole := sel == nil
	if !whole {
		b := &baseRd{w: sg.width, msb: sg.msb, lsb: sg.lsb, name: id.Name}
		var ok bool
		si, ok = cp.resolveSel(sel, b)
		if !ok {
			return nil
		}
		if si.constLo {
			lo, hi = si.lo, si.lo+si.w-1
			if (lo < 0 || hi >= sg.width) && !cp.quiet {
				cp.e.warnf(cp.sc, e.exprLine(), "assignment target %s is (partly) outside %s[%d:%d]; those bits are dropped", ExprString(e), id.Name, sg.msb, sg.lsb)
			}
		}
	} else {
		si = selInfo{w: sg.width, constLo: true, lo: 0}
	}
	if sg.isMem {
		lo, hi = 0, sg.width-1
	}
	switch {
	case cp.proc == procCont:
		if sg.kind != kWire {
			cp.errf(ClassAssignKind, e.exprLine(), "%s '%s' is driven by a continuous assignment or an output port connection; only nets can be", sg.kind, id.Name)
			return nil
		}
		sg.contDrv = append(sg.contDrv, drvRange{lo: lo, hi: hi, line: e.exprLine(), what: "continuous assignment to " + ExprString(e)})
	default:
		if sg.kind == kWire {
			cp.errf(ClassAssignKind, e.exprLine(), "net '%s' is assigned in a procedural block; only reg/integer can be", id.Name)
			return nil
		}
		if cp.proc >= 0 {
			sg.procDrv = append(sg.procDrv, drvRange{lo: lo, hi: hi, proc: cp.proc, line: e.exprLine()})
		}
	}
	cp.written = append(cp.written, sg)

	var addr func() (int, bool)
	if memIdx != nil {
		addr = addrFn(cp.self(memIdx.Idx))
	}
	s := cp.e.s
	procedural := cp.proc != procCont
	w := si.w
	memLo := sg.memLo
	res := &lval{w: w, sigs: []*signal{sg}}
	res.write = func(v uint64, bv *big.Int, nb bool) {
		if procedural {
			s.markAssigned(sg)
		}
		a := 0
		if addr != nil {
			var ok bool
			a, ok = addr()
			if !ok {
				a = memLo - 1
			}
		}
		l := si.lo
		if !si.constLo {
			var ok bool
			l, ok = si.loFn()
			if !ok {
				return
			}
		}
		if nb {
			s.nba = append(s.nba, nbaEntry{sg: sg, addr: a, lo: l, w: w, v: v, bv: bv})
		} else {
			s.store(sg, a, l, w, v, bv)
		}
	}
	return res
}

// assignParts compiles an assignment and also returns its target.
func (cp *comp) assignParts(a *AssignStmt) (func(), *lval) {
	lv := cp.lhs(a.LHS)
	rt := cp.typeOf(a.RHS)
	lw := 1
	if lv != nil {
		lw = lv.w
	}
	r := cp.ctx(a.RHS, maxInt(lw, rt.w), rt.signed)
	if lv == nil {
		return func() {}, nil
	}
	nb := !a.Blocking
	if lv.w <= 64 {
		f := r.get64()
		m := mask64(lv.w)
		write := lv.write
		return func() { write(f()&m, nil, nb) }, lv
	}
	fb := r.getBig()
	bm := bigMask(lv.w)
	w := lv.w
	return func() {
		v := fb()
		if v.BitLen() > w {
			v = new(big.Int).And(v, bm)
		}
		lv.write(0, v, nb)
	}, lv
}

func (cp *comp) assign(a *AssignStmt) func() {
	f, _ := cp.assignParts(a)
	return f
}

func nop() {}

// stmt compiles a statement; the result is never nil.
func (cp *comp) stmt(st Stmt) func() {
	if f := cp.stmt0(st); f != nil {
		return f
	}
	return nop
}

// stmt0 compiles a statement; nil means "does nothing".
func (cp *comp) stmt0(st Stmt) func() {
	switch x := st.(type) {
	case nil:
		return nil
	case *Null:
		return nil
	case *AssignStmt:
		return cp.assign(x)
	case *SysCall:
		switch x.Name {
		case "$display", "$write", "$finish", "$stop", "$monitor", "$dumpfile", "$dumpvars", "$strobe",
			"$displayb", "$displayh", "$displayo", "$writeb", "$writeh", "$writeo", "$dumpon", "$dumpoff", "$dumpall", "$dumpflush", "$dumplimit", "$timeformat":
			for _, a := range x.Args {
				walkIdents(a, func(id *Ident) {
					if cp.sc.lookup(id.Name) == nil {
						cp.errf(ClassUndeclared, id.Line, "identifier '%s' is read (argument of %s) but not declared", id.Name, x.Name)
					}
				})
			}
			return nil
		}
		cp.e.unsupported(cp.sc, x.Line, "system task "+x.Name)
	case *Block:
		sub := cp
		if len(x.Decls) > 0 {
			child := &scope{parent: cp.sc, root: cp.sc.root, syms: map[string]*symbol{}, path: cp.sc.hier(x.Name), mod: cp.sc.mod}
			for _, d := range x.Decls {
				cp.e.declare(child, d, nil, true)
			}
			sub = &comp{e: cp.e, sc: child, proc: cp.proc, constOnly: cp.constOnly}
		}
		fs := make([]func(), 0, len(x.Stmts))
		for _, s := range x.Stmts {
			if f := sub.stmt0(s); f != nil {
				fs = append(fs, f)
			}
		}
		if sub != cp {
			cp.reads = append(cp.reads, sub.reads...)
			cp.written = append(cp.written, sub.written...)
			if sub.failed {
				cp.failed = true
			}
			for _, d := range x.Decls {
				for _, n := range d.Names {
					if n.Init != nil {
						cp.e.unsupported(cp.sc, n.Line, "initialiser on a block-local declaration")
					}
				}
			}
		}
		live := fs
		switch len(live) {
		case 0:
			return nil
		case 1:
			return live[0]
		case 2:
			a, b := live[0], live[1]
			return func() { a(); b() }
		}
		return func() {
			for _, f := range live {
				f()
			}
		}
	case *If:
		c := cp.self(x.Cond)
		t := c.truth()
		th := cp.stmt(x.Then)
		el := cp.stmt0(x.Else)
		if el == nil {
			return func() {
				if t() {
					th()
				}
			}
		}
		return func() {
			if t() {
				th()
			} else {
				el()
			}
		}
	case *Case:
		return cp.caseStmt(x)
	case *For:
		init := cp.assign(x.Init)
		cond := cp.self(x.Cond).truth()
		step := cp.assign(x.Step)
		body := cp.stmt(x.Body)
		s := cp.e.s
		line := x.Line
		file := cp.sc.root.mod.File
		return func() {
			n := 0
			for init(); cond(); step() {
				body()
				n++
				if n > s.maxLoop {
					s.abort("for-loop at %s:%d exceeded %d iterations", file, line, s.maxLoop)
				}
			}
		}
	}
	cp.e.unsupported(cp.sc, st.stmtLine(), fmt.Sprintf("statement %T", st))
	return nil
}

func (cp *comp) caseStmt(x *Case) func() {
	// width and type over the selector and all labels
	t := cp.typeOf(x.X)
	w, signed := t.w, t.signed
	for _, it := range x.Items {
		for _, l := range it.Labels {
			lt := cp.typeOf(l)
			w = maxInt(w, lt.w)
			signed = signed && lt.signed
		}
	}
	sel := cp.ctx(x.X, w, signed)
	wild := x.Kind != "case"

	bodies := make([]func(), len(x.Items))
	defIdx := -1
	for i, it := range x.Items {
		bodies[i] = cp.stmt(it.Body)
		if it.Default {
			if defIdx >= 0 {
				cp.errf(ClassSyntax, it.Line, "case statement has more than one default")
			}
			defIdx = i
		}
	}
	var def func() = nop
	if defIdx >= 0 {
		def = bodies[defIdx]
	}

	type label struct {
		c    *cx
		arm  int
		mask uint64 // wildcard bits (casez/casex)
		wild bool
	}
	var labels []label
	allConst := true
	anyWild := false
	for i, it := range x.Items {
		for _, l := range it.Labels {
			lb := label{arm: i}
			if n, ok := l.(*Number); ok && n.XZ != nil && wild {
				m := n.XZ
				if x.Kind == "casez" {
					m = n.Z
				}
				if m.Sign() != 0 {
					if w > 64 {
						cp.e.unsupported(cp.sc, n.Line, "casez/casex wildcard wider than 64 bits")
					}
					lb.mask = extract64(m, 0, 64)
					lb.wild = true
					anyWild = true
				}
			}
			lb.c = cp.ctx(l, w, signed)
			if !lb.c.konst {
				allConst = false
			}
			labels = append(labels, lb)
		}
	}

	if w <= 64 {
		sf := sel.f
		if allConst && !anyWild {
			table := make(map[uint64]func(), len(labels))
			for _, lb := range labels {
				v := lb.c.f()
				if _, dup := table[v]; !dup {
					table[v] = bodies[lb.arm]
				}
			}
			if len(table) <= 4 {
				// tiny cases: linear scan beats hashing
				keys := make([]uint64, 0, len(table))
				arms := make([]func(), 0, len(table))
				for _, lb := range labels {
					v := lb.c.f()
					dup := false
					for _, k := range keys {
						if k == v {
							dup = true
						}
					}
					if !dup {
						keys = append(keys, v)
						arms = append(arms, bodies[lb.arm])
					}
				}
				return func() {
					v := sf()
					for i, k := range keys {
						if k == v {
							arms[i]()
							return
						}
					}
					def()
				}
			}
			return func() {
				if f, ok := table[sf()]; ok {
					f()
					return
				}
				def()
			}
		}
		fs := make([]func() uint64, len(labels))
		for i, lb := range labels {
			fs[i] = lb.c.f
		}
		return func() {
			v := sf()
			for i := range labels {
				lv := fs[i]()
				if labels[i].wild {
					if (v^lv)&^labels[i].mask == 0 {
						bodies[labels[i].arm]()
						return
					}
				} else if lv == v {
					bodies[labels[i].arm]()
					return
				}
			}
			def()
		}
	}
	sfb := sel.fb
	fbs := make([]func() *big.Int, len(labels))
	for i, lb := range labels {
		fbs[i] = lb.c.fb
	}
	return func() {
		v := sfb()
		for i := range labels {
			if fbs[i]().Cmp(v) == 0 {
				bodies[labels[i].arm]()
				return
			}
		}
		def()
	}
}
