package vsim

import "fmt"

// Design error classes.
const (
	ClassSyntax          = "syntax"
	ClassUndeclared      = "undeclared"
	ClassUndefinedModule = "undefined-module"
	ClassPortCount       = "port-count"
	ClassAssignKind      = "assign-kind"
	ClassMultiDriver     = "multi-driver"
)

// DesignError reports a defect of the Verilog text being simulated (as
// opposed to a limitation of this package, see UnsupportedError).
type DesignError struct {
	Class string // one of the Class* constants
	File  string // name given to Parse/Add
	Line  int    // 1-based source line (0 if unknown)
	Scope string // hierarchical instance path, "" for the top or for parse errors
	Msg   string
}

func (e *DesignError) Error() string {
	loc := e.File
	if e.Line > 0 {
		loc = fmt.Sprintf("%s:%d", e.File, e.Line)
	}
	if e.Scope != "" {
		return fmt.Sprintf("%s: design error [%s] in %s: %s", loc, e.Class, e.Scope, e.Msg)
	}
	return fmt.Sprintf("%s: design error [%s]: %s", loc, e.Class, e.Msg)
}

// UnsupportedError reports a construct that is legal Verilog (or at least
// not obviously wrong) but lies outside the subset this package implements.
type UnsupportedError struct {
	Construct string
	File      string
	Line      int
}

func (e *UnsupportedError) Error() string {
	return fmt.Sprintf("%s:%d: unsupported construct: %s", e.File, e.Line, e.Construct)
}

// RuntimeError is returned by Eval/Tick when the simulation itself cannot
// proceed (combinational loop, delta-cycle overflow, runaway for-loop).
type RuntimeError struct {
	Msg string
}

func (e *RuntimeError) Error() string { return "vsim runtime error: " + e.Msg }
