// Package vsim is a small cycle-accurate interpreter for the Verilog subset
// that the BondMachine generators emit (processors, architecture wrappers,
// ROM/RAM, the bondmachine top-level netlist, bmstack stacks and queues).
// See /verif/DESIGN.md §2.3 and README.md in this directory.
//
// Typical use:
//
//	d, err := vsim.LoadDir(dir, "bondmachine_tb.v") // or Parse / Add
//	s, err := vsim.Elaborate(d, "bondmachine")      // strict: *DesignError / *UnsupportedError
//	s.Set("reset", 1); s.Eval(); s.Set("reset", 0); s.Eval()
//	for i := 0; i < n; i++ {
//		s.Set("i0", v); s.Set("i0_valid", 1)
//		s.Tick("clk")
//		if s.Assigned("a0_inst.p0_instance._pc") { /* an instruction retired */ }
//	}
//
// The package is deterministic (no map-order dependence, no time, no
// randomness, no goroutines) and keeps no package-level mutable state: every
// Sim is independent and a parsed Design may be elaborated concurrently.
package vsim
