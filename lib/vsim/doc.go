// Package vsim is a small cycle-accurate interpreter for the Verilog subset
// that the BondMachine generators emit. See /verif/DESIGN.md §2.3.
package vsim
