package vsim

import (
	"math/big"
)

// cx is a compiled expression: a closure producing a value of a fixed width.
// Values are bit patterns masked to w bits; f is valid when w <= 64, fb when
// w > 64 (get64/getBig adapt).
type cx struct {
	w      int
	signed bool
	konst  bool
	f      func() uint64
	fb     func() *big.Int
}

type typ struct {
	w      int
	signed bool
}

func constCx(w int, signed bool, v *big.Int) *cx {
	if w <= 0 {
		w = 1
	}
	m := v
	if v.Sign() < 0 || v.BitLen() > w {
		m = new(big.Int).And(v, bigMask(w))
	}
	c := &cx{w: w, signed: signed, konst: true}
	if w <= 64 {
		u := extract64(m, 0, w)
		c.f = func() uint64 { return u }
	} else {
		c.fb = func() *big.Int { return m }
	}
	return c
}

func const64(w int, signed bool, v uint64) *cx {
	return constCx(w, signed, new(big.Int).SetUint64(v))
}

func (c *cx) get64() func() uint64 {
	if c.w <= 64 {
		return c.f
	}
	fb := c.fb
	return func() uint64 { return extract64(fb(), 0, 64) }
}

func (c *cx) getBig() func() *big.Int {
	if c.w > 64 {
		return c.fb
	}
	f := c.f
	return func() *big.Int { return new(big.Int).SetUint64(f()) }
}

func (c *cx) truth() func() bool {
	if c.w <= 64 {
		f := c.f
		return func() bool { return f() != 0 }
	}
	fb := c.fb
	return func() bool { return fb().Sign() != 0 }
}

// constValue evaluates a constant expression.
func (c *cx) constValue() *big.Int {
	if c.w <= 64 {
		return new(big.Int).SetUint64(c.f())
	}
	return new(big.Int).Set(c.fb())
}

// signedValue interprets a constant as a (possibly signed) integer.
func (c *cx) signedValue() *big.Int {
	v := c.constValue()
	if c.signed && v.Bit(c.w-1) == 1 {
		v.Sub(v, new(big.Int).Lsh(big.NewInt(1), uint(c.w)))
	}
	return v
}

func fold(c *cx) *cx {
	if !c.konst {
		return c
	}
	return constCx(c.w, c.signed, c.constValue())
}

func sext64(v uint64, from int) int64 {
	if from >= 64 {
		return int64(v)
	}
	sh := uint(64 - from)
	return int64(v<<sh) >> sh
}

func bigSigned(v *big.Int, w int) *big.Int {
	if v.Bit(w-1) == 1 {
		return new(big.Int).Sub(v, new(big.Int).Lsh(big.NewInt(1), uint(w)))
	}
	return v
}

// extend widens c to w bits, sign-extending iff signed (the propagated
// expression type) — c.w <= w.
func extend(c *cx, w int, signed bool) *cx {
	if c.w == w {
		if c.signed == signed {
			return c
		}
		cc := *c
		cc.signed = signed
		return &cc
	}
	if c.w > w {
		// truncation (used for assignment contexts only)
		return truncate(c, w, signed)
	}
	r := &cx{w: w, signed: signed, konst: c.konst}
	from := c.w
	switch {
	case w <= 64:
		f := c.f
		if signed {
			m := mask64(w)
			r.f = func() uint64 { return uint64(sext64(f(), from)) & m }
		} else {
			r.f = f
		}
	case from <= 64:
		f := c.f
		if signed {
			bm := bigMask(w)
			r.fb = func() *big.Int {
				v := sext64(f(), from)
				if v >= 0 {
					return new(big.Int).SetUint64(uint64(v))
				}
				x := big.NewInt(v)
				return x.And(x, bm)
			}
		} else {
			r.fb = func() *big.Int { return new(big.Int).SetUint64(f()) }
		}
	default:
		fb := c.fb
		if signed {
			bm := bigMask(w)
			r.fb = func() *big.Int {
				v := fb()
				if v.Bit(from-1) == 0 {
					return v
				}
				x := bigSigned(v, from)
				return new(big.Int).And(x, bm)
			}
		} else {
			r.fb = fb
		}
	}
	return fold(r)
}

func truncate(c *cx, w int, signed bool) *cx {
	r := &cx{w: w, signed: signed, konst: c.konst}
	if w <= 64 {
		f := c.get64()
		m := mask64(w)
		r.f = func() uint64 { return f() & m }
	} else {
		fb := c.fb
		bm := bigMask(w)
		r.fb = func() *big.Int { return new(big.Int).And(fb(), bm) }
	}
	return fold(r)
}

// ---------- type inference ----------

func (cp *comp) typeOf(e Expr) typ {
	root := cp.sc.root
	if t, ok := root.types[e]; ok {
		return t
	}
	t := cp.typeOf1(e)
	if t.w <= 0 {
		t.w = 1
	}
	root.types[e] = t
	return t
}

func maxInt(a, b int) int {
	if a > b {
		return a
	}
	return b
}

func (cp *comp) typeOf1(e Expr) typ {
	switch x := e.(type) {
	case *Number:
		if x.Size > 0 {
			return typ{x.Size, x.Signed}
		}
		w := 32
		if x.Value.BitLen() > 32 {
			w = x.Value.BitLen()
			if x.Signed {
				w++
			}
		}
		return typ{w, x.Signed}
	case *Ident:
		sym := cp.sc.lookup(x.Name)
		if sym == nil {
			return typ{1, false}
		}
		if sym.param != nil {
			return typ{sym.param.w, sym.param.signed}
		}
		return typ{sym.sig.width, sym.sig.signed}
	case *Index:
		if id, ok := x.X.(*Ident); ok {
			if sym := cp.sc.lookup(id.Name); sym != nil && sym.sig != nil && sym.sig.isMem {
				return typ{sym.sig.width, sym.sig.signed}
			}
		}
		return typ{1, false}
	case *PartSel:
		if x.Mode == ':' {
			a, ok1 := cp.constInt(x.A)
			b, ok2 := cp.constInt(x.B)
			if !ok1 || !ok2 {
				return typ{1, false}
			}
			d := a - b
			if d < 0 {
				d = -d
			}
			return typ{d + 1, false}
		}
		n, ok := cp.constInt(x.B)
		if !ok || n <= 0 {
			return typ{1, false}
		}
		return typ{n, false}
	case *Concat:
		w := 0
		for _, p := range x.Parts {
			w += cp.typeOf(p).w
		}
		return typ{w, false}
	case *Repl:
		w := 0
		for _, p := range x.Parts {
			w += cp.typeOf(p).w
		}
		n, ok := cp.constInt(x.Count)
		if !ok || n < 0 {
			n = 1
		}
		return typ{w * n, false}
	case *Unary:
		switch x.Op {
		case "~", "-", "+":
			return cp.typeOf(x.X)
		}
		return typ{1, false}
	case *Binary:
		switch x.Op {
		case "+", "-", "*", "/", "%", "&", "|", "^", "~^":
			l, r := cp.typeOf(x.L), cp.typeOf(x.R)
			return typ{maxInt(l.w, r.w), l.signed && r.signed}
		case "<<", ">>", "<<<", ">>>":
			return cp.typeOf(x.L)
		}
		return typ{1, false}
	case *Ternary:
		a, b := cp.typeOf(x.A), cp.typeOf(x.B)
		return typ{maxInt(a.w, b.w), a.signed && b.signed}
	case *SysFunc:
		if len(x.Args) == 1 {
			t := cp.typeOf(x.Args[0])
			return typ{t.w, x.Name == "$signed"}
		}
	}
	return typ{1, false}
}

// constInt evaluates a constant expression to an int (signed interpretation).
func (cp *comp) constInt(e Expr) (int, bool) {
	sub := &comp{e: cp.e, sc: cp.sc, constOnly: true, quiet: true}
	c := sub.self(e)
	if !c.konst || sub.failed {
		return 0, false
	}
	v := c.signedValue()
	if !v.IsInt64() || v.Int64() > 1<<30 || v.Int64() < -(1<<30) {
		return 0, false
	}
	return int(v.Int64()), true
}

// ---------- compilation ----------

// comp compiles expressions and statements of one scope.
type comp struct {
	e         *elab
	sc        *scope
	reads     []*signal // signals read (may contain duplicates)
	constOnly bool      // signals are not allowed
	quiet     bool      // do not report errors (used for speculative constant evaluation)
	failed    bool
	proc      int       // driver context for statements (see elab)
	written   []*signal // signals assigned by the compiled statements
}

func (cp *comp) errf(class string, line int, format string, args ...interface{}) {
	cp.failed = true
	if cp.quiet {
		return
	}
	cp.e.errf(cp.sc, class, line, format, args...)
}

func (cp *comp) zero() *cx { return const64(1, false, 0) }

// self compiles e in a self-determined context.
func (cp *comp) self(e Expr) *cx {
	t := cp.typeOf(e)
	return cp.ctx(e, t.w, t.signed)
}

// ctx compiles e in a context of width w >= self width and type signed.
func (cp *comp) ctx(e Expr, w int, signed bool) *cx {
	switch x := e.(type) {
	case *Unary:
		switch x.Op {
		case "~", "-", "+":
			a := cp.ctx(x.X, w, signed)
			return fold(unaryOp(x.Op, a, w, signed))
		}
	case *Binary:
		switch x.Op {
		case "+", "-", "*", "/", "%", "&", "|", "^", "~^":
			l := cp.ctx(x.L, w, signed)
			r := cp.ctx(x.R, w, signed)
			return fold(binaryOp(x.Op, l, r, w, signed))
		case "<<", ">>", "<<<", ">>>":
			l := cp.ctx(x.L, w, signed)
			r := cp.self(x.R)
			return fold(shiftOp(x.Op, l, r, w, signed))
		}
	case *Ternary:
		c := cp.self(x.C)
		a := cp.ctx(x.A, w, signed)
		b := cp.ctx(x.B, w, signed)
		t := c.truth()
		r := &cx{w: w, signed: signed, konst: c.konst && a.konst && b.konst}
		if w <= 64 {
			fa, fbb := a.f, b.f
			r.f = func() uint64 {
				if t() {
					return fa()
				}
				return fbb()
			}
		} else {
			fa, fbb := a.fb, b.fb
			r.fb = func() *big.Int {
				if t() {
					return fa()
				}
				return fbb()
			}
		}
		if c.konst && !r.konst {
			// constant condition: select the branch statically
			if t() {
				return a
			}
			return b
		}
		return fold(r)
	}
	// self-determined operand: compile at its own width, then extend
	c := cp.leaf(e)
	return extend(c, w, signed && c.signed)
}

func unaryOp(op string, a *cx, w int, signed bool) *cx {
	r := &cx{w: w, signed: signed, konst: a.konst}
	if w <= 64 {
		f := a.f
		m := mask64(w)
		switch op {
		case "~":
			r.f = func() uint64 { return ^f() & m }
		case "-":
			r.f = func() uint64 { return (-f()) & m }
		default:
			r.f = f
		}
		return r
	}
	fb := a.fb
	bm := bigMask(w)
	switch op {
	case "~":
		r.fb = func() *big.Int { return new(big.Int).Xor(fb(), bm) }
	case "-":
		r.fb = func() *big.Int {
			t := new(big.Int).Neg(fb())
			return t.And(t, bm)
		}
	default:
		r.fb = fb
	}
	return r
}

func binaryOp(op string, l, r *cx, w int, signed bool) *cx {
	res := &cx{w: w, signed: signed, konst: l.konst && r.konst}
	if w <= 64 {
		a, b := l.f, r.f
		m := mask64(w)
		switch op {
		case "+":
			res.f = func() uint64 { return (a() + b()) & m }
		case "-":
			res.f = func() uint64 { return (a() - b()) & m }
		case "*":
			res.f = func() uint64 { return (a() * b()) & m }
		case "/":
			if signed {
				res.f = func() uint64 {
					y := sext64(b(), w)
					if y == 0 {
						return 0
					}
					x := sext64(a(), w)
					if y == -1 {
						return uint64(-x) & m
					}
					return uint64(x/y) & m
				}
			} else {
				res.f = func() uint64 {
					y := b()
					if y == 0 {
						return 0
					}
					return a() / y
				}
			}
		case "%":
			if signed {
				res.f = func() uint64 {
					y := sext64(b(), w)
					if y == 0 {
						return 0
					}
					if y == -1 {
						return 0
					}
					return uint64(sext64(a(), w)%y) & m
				}
			} else {
				res.f = func() uint64 {
					y := b()
					if y == 0 {
						return 0
					}
					return a() % y
				}
			}
		case "&":
			res.f = func() uint64 { return a() & b() }
		case "|":
			res.f = func() uint64 { return a() | b() }
		case "^":
			res.f = func() uint64 { return a() ^ b() }
		case "~^":
			res.f = func() uint64 { return ^(a() ^ b()) & m }
		}
		return res
	}
	a, b := l.fb, r.fb
	bm := bigMask(w)
	switch op {
	case "+":
		res.fb = func() *big.Int {
			t := new(big.Int).Add(a(), b())
			return t.And(t, bm)
		}
	case "-":
		res.fb = func() *big.Int {
			t := new(big.Int).Sub(a(), b())
			return t.And(t, bm)
		}
	case "*":
		res.fb = func() *big.Int {
			t := new(big.Int).Mul(a(), b())
			return t.And(t, bm)
		}
	case "/", "%":
		isDiv := op == "/"
		res.fb = func() *big.Int {
			x, y := a(), b()
			if y.Sign() == 0 {
				return bigZero
			}
			if signed {
				x, y = bigSigned(x, w), bigSigned(y, w)
			}
			t := new(big.Int)
			if isDiv {
				t.Quo(x, y)
			} else {
				t.Rem(x, y)
			}
			return t.And(t, bm)
		}
	case "&":
		res.fb = func() *big.Int { return new(big.Int).And(a(), b()) }
	case "|":
		res.fb = func() *big.Int { return new(big.Int).Or(a(), b()) }
	case "^":
		res.fb = func() *big.Int { return new(big.Int).Xor(a(), b()) }
	case "~^":
		res.fb = func() *big.Int {
			t := new(big.Int).Xor(a(), b())
			return t.Xor(t, bm)
		}
	}
	return res
}

// shiftAmount returns a closure giving the shift count, saturated at max.
func shiftAmount(r *cx, max int) func() int {
	if r.w <= 64 {
		f := r.f
		return func() int {
			n := f()
			if n > uint64(max) {
				return max
			}
			return int(n)
		}
	}
	fb := r.fb
	return func() int {
		n := fb()
		if n.BitLen() > 31 || int(n.Int64()) > max {
			return max
		}
		return int(n.Int64())
	}
}

func shiftOp(op string, l, r *cx, w int, signed bool) *cx {
	res := &cx{w: w, signed: signed, konst: l.konst && r.konst}
	amt := shiftAmount(r, w)
	arith := op == ">>>" && signed
	if w <= 64 {
		a := l.f
		m := mask64(w)
		switch {
		case op == "<<" || op == "<<<":
			res.f = func() uint64 {
				n := amt()
				if n >= 64 {
					return 0
				}
				return (a() << uint(n)) & m
			}
		case arith:
			res.f = func() uint64 {
				n := amt()
				x := sext64(a(), w)
				if n >= 64 {
					n = 63
				}
				return uint64(x>>uint(n)) & m
			}
		default:
			res.f = func() uint64 {
				n := amt()
				if n >= 64 {
					return 0
				}
				return a() >> uint(n)
			}
		}
		return res
	}
	a := l.fb
	bm := bigMask(w)
	switch {
	case op == "<<" || op == "<<<":
		res.fb = func() *big.Int {
			t := new(big.Int).Lsh(a(), uint(amt()))
			return t.And(t, bm)
		}
	case arith:
		res.fb = func() *big.Int {
			t := new(big.Int).Rsh(bigSigned(a(), w), uint(amt()))
			return t.And(t, bm)
		}
	default:
		res.fb = func() *big.Int { return new(big.Int).Rsh(a(), uint(amt())) }
	}
	return res
}

// leaf compiles a self-determined operand at its own width.
func (cp *comp) leaf(e Expr) *cx {
	switch x := e.(type) {
	case *Number:
		t := cp.typeOf(x)
		if x.Size > 0 && x.Value.BitLen() > x.Size && !cp.quiet {
			cp.e.warnf(cp.sc, x.Line, "literal %s does not fit in %d bits and is truncated", x.Text, x.Size)
		}
		if x.XZ != nil && !cp.quiet {
			cp.e.warnf(cp.sc, x.Line, "x/z digits of literal %s are read as 0 (2-state simulation)", x.Text)
		}
		return constCx(t.w, t.signed, x.Value)
	case *Ident:
		return cp.identRead(x)
	case *Index, *PartSel:
		return cp.selectRead(e)
	case *Concat:
		return cp.concat(x.Parts, x.Line)
	case *Repl:
		n, ok := cp.constInt(x.Count)
		if !ok {
			cp.errf(ClassSyntax, x.Line, "replication count %s is not a constant", ExprString(x.Count))
			return cp.zero()
		}
		if n < 0 {
			cp.errf(ClassSyntax, x.Line, "negative replication count %d", n)
			return cp.zero()
		}
		if n == 0 {
			cp.e.unsupported(cp.sc, x.Line, "zero replication count")
		}
		var parts []Expr
		for i := 0; i < n; i++ {
			parts = append(parts, x.Parts...)
		}
		return cp.concat(parts, x.Line)
	case *Unary:
		return cp.unaryLeaf(x)
	case *Binary:
		return cp.binaryLeaf(x)
	case *SysFunc:
		switch x.Name {
		case "$signed", "$unsigned":
			if len(x.Args) != 1 {
				cp.errf(ClassSyntax, x.Line, "%s expects one argument", x.Name)
				return cp.zero()
			}
			c := cp.self(x.Args[0])
			cc := *c
			cc.signed = x.Name == "$signed"
			return &cc
		}
		cp.e.unsupported(cp.sc, x.Line, "system function "+x.Name)
	case *StringLit:
		cp.e.unsupported(cp.sc, x.Line, "string literal in expression")
	case *Ternary:
		return cp.self(e)
	}
	cp.e.unsupported(cp.sc, e.exprLine(), "expression form")
	return cp.zero()
}

func (cp *comp) identRead(x *Ident) *cx {
	sym := cp.sc.lookup(x.Name)
	if sym == nil {
		cp.errf(ClassUndeclared, x.Line, "identifier '%s' is read but not declared", x.Name)
		return cp.zero()
	}
	if sym.param != nil {
		return constCx(sym.param.w, sym.param.signed, sym.param.v)
	}
	sg := sym.sig
	if cp.constOnly {
		cp.errf(ClassSyntax, x.Line, "'%s' is not a constant", x.Name)
		return cp.zero()
	}
	if sg.isMem {
		cp.errf(ClassSyntax, x.Line, "memory '%s' used without an index", x.Name)
		return cp.zero()
	}
	cp.reads = append(cp.reads, sg)
	s := cp.e.s
	idx := sg.idx
	c := &cx{w: sg.width, signed: sg.signed}
	if sg.wide {
		c.fb = func() *big.Int { return s.wides[idx] }
	} else {
		c.f = func() uint64 { return s.vals[idx] }
	}
	return c
}

// baseRd describes the object a bit/part select applies to.
type baseRd struct {
	w        int
	msb, lsb int
	c        *cx
	name     string
}

func (b *baseRd) offset(i int) int {
	if b.msb >= b.lsb {
		return i - b.lsb
	}
	return b.lsb - i
}

// selBase resolves the base of a select: a vector, a parameter or a memory word.
func (cp *comp) selBase(e Expr) *baseRd {
	switch x := e.(type) {
	case *Ident:
		sym := cp.sc.lookup(x.Name)
		if sym == nil {
			cp.errf(ClassUndeclared, x.Line, "identifier '%s' is read but not declared", x.Name)
			return nil
		}
		if sym.param != nil {
			return &baseRd{w: sym.param.w, msb: sym.param.w - 1, lsb: 0, c: constCx(sym.param.w, false, sym.param.v), name: x.Name}
		}
		if sym.sig.isMem {
			return nil
		}
		c := cp.identRead(x)
		return &baseRd{w: sym.sig.width, msb: sym.sig.msb, lsb: sym.sig.lsb, c: c, name: x.Name}
	case *Index:
		if id, ok := x.X.(*Ident); ok {
			if sym := cp.sc.lookup(id.Name); sym != nil && sym.sig != nil && sym.sig.isMem {
				c := cp.memRead(sym.sig, x)
				return &baseRd{w: sym.sig.width, msb: sym.sig.msb, lsb: sym.sig.lsb, c: c, name: id.Name}
			}
		}
	}
	return nil
}

func (cp *comp) memRead(sg *signal, x *Index) *cx {
	if cp.constOnly {
		cp.errf(ClassSyntax, x.Line, "'%s' is not a constant", sg.name)
		return cp.zero()
	}
	cp.reads = append(cp.reads, sg)
	a := cp.self(x.Idx)
	s := cp.e.s
	idx := sg.idx
	lo, depth := sg.memLo, sg.depth
	addr := addrFn(a)
	c := &cx{w: sg.width, signed: sg.signed}
	if sg.wide {
		c.fb = func() *big.Int {
			ad, ok := addr()
			off := ad - lo
			if !ok || off < 0 || off >= depth {
				return bigZero
			}
			return s.memW[idx][off]
		}
	} else {
		c.f = func() uint64 {
			ad, ok := addr()
			off := ad - lo
			if !ok || off < 0 || off >= depth {
				return 0
			}
			return s.memN[idx][off]
		}
	}
	return c
}

// addrFn converts an index expression to an int (signed if the expression
// is signed); ok=false means "far out of range".
func addrFn(a *cx) func() (int, bool) {
	if a.w <= 64 {
		f := a.f
		if a.signed {
			w := a.w
			return func() (int, bool) {
				v := sext64(f(), w)
				if v > 1<<40 || v < -(1<<40) {
					return 0, false
				}
				return int(v), true
			}
		}
		return func() (int, bool) {
			v := f()
			if v > 1<<40 {
				return 0, false
			}
			return int(v), true
		}
	}
	fb := a.fb
	w := a.w
	sg := a.signed
	return func() (int, bool) {
		v := fb()
		if sg {
			v = bigSigned(v, w)
		}
		if !v.IsInt64() || v.Int64() > 1<<40 || v.Int64() < -(1<<40) {
			return 0, false
		}
		return int(v.Int64()), true
	}
}

// extractCx builds "bits [lo, lo+w) of base" for a constant lo (may be
// negative or beyond the base: missing bits read as 0).
func extractConst(b *cx, lo, w int) *cx {
	r := &cx{w: w, konst: b.konst}
	bw := b.w
	if lo >= bw || lo+w <= 0 {
		return const64(w, false, 0)
	}
	if w <= 64 {
		m := mask64(w)
		if bw <= 64 {
			f := b.f
			if lo >= 0 {
				sh := uint(lo)
				r.f = func() uint64 { return (f() >> sh) & m }
			} else {
				sh := uint(-lo)
				r.f = func() uint64 { return (f() << sh) & m }
			}
		} else {
			fb := b.fb
			if lo >= 0 {
				r.f = func() uint64 { return extract64(fb(), lo, w) }
			} else {
				sh := uint(-lo)
				r.f = func() uint64 { return (extract64(fb(), 0, 64) << sh) & m }
			}
		}
		return fold(r)
	}
	fb := b.getBig()
	r.fb = func() *big.Int { return extractBig(fb(), lo, w) }
	return fold(r)
}

func extractVar(b *cx, lo func() (int, bool), w int) *cx {
	r := &cx{w: w}
	bw := b.w
	if w <= 64 {
		m := mask64(w)
		if bw <= 64 {
			f := b.f
			r.f = func() uint64 {
				l, ok := lo()
				if !ok || l >= bw || l+w <= 0 {
					return 0
				}
				if l >= 0 {
					return (f() >> uint(l)) & m
				}
				return (f() << uint(-l)) & m
			}
		} else {
			fb := b.fb
			r.f = func() uint64 {
				l, ok := lo()
				if !ok || l >= bw || l+w <= 0 {
					return 0
				}
				if l >= 0 {
					return extract64(fb(), l, w)
				}
				return extract64(extractBig(fb(), l, w), 0, w)
			}
		}
		return r
	}
	fb := b.getBig()
	r.fb = func() *big.Int {
		l, ok := lo()
		if !ok || l >= bw || l+w <= 0 {
			return bigZero
		}
		return extractBig(fb(), l, w)
	}
	return r
}

// selInfo is the resolved geometry of a bit/part select.
type selInfo struct {
	w       int
	constLo bool
	lo      int
	loFn    func() (int, bool)
	whole   bool
}

// resolveSel computes the low bit offset and width of a select on base.
// ok=false after an error has been reported.
func (cp *comp) resolveSel(e Expr, b *baseRd) (si selInfo, ok bool) {
	switch x := e.(type) {
	case *Index:
		a := cp.self(x.Idx)
		si.w = 1
		if a.konst {
			i := int(a.signedValue().Int64())
			si.constLo = true
			si.lo = b.offset(i)
			return si, true
		}
		ad := addrFn(a)
		desc := b.msb >= b.lsb
		lsb := b.lsb
		si.loFn = func() (int, bool) {
			i, ok := ad()
			if !ok {
				return 0, false
			}
			if desc {
				return i - lsb, true
			}
			return lsb - i, true
		}
		return si, true
	case *PartSel:
		if x.Mode == ':' {
			m, ok1 := cp.constInt(x.A)
			l, ok2 := cp.constInt(x.B)
			if !ok1 || !ok2 {
				cp.errf(ClassSyntax, x.Line, "part-select bounds of %s must be constant", ExprString(e))
				return si, false
			}
			desc := b.msb >= b.lsb
			if (desc && m < l) || (!desc && m > l && b.msb != b.lsb) {
				cp.errf(ClassSyntax, x.Line, "part-select %s is reversed with respect to the declaration [%d:%d]", ExprString(e), b.msb, b.lsb)
				return si, false
			}
			si.constLo = true
			si.lo = b.offset(l)
			d := m - l
			if d < 0 {
				d = -d
			}
			si.w = d + 1
			return si, true
		}
		n, okn := cp.constInt(x.B)
		if !okn || n <= 0 {
			cp.errf(ClassSyntax, x.Line, "width of indexed part-select %s must be a positive constant", ExprString(e))
			return si, false
		}
		si.w = n
		a := cp.self(x.A)
		desc := b.msb >= b.lsb
		lsb := b.lsb
		plus := x.Mode == '+'
		loOf := func(i int) int {
			lowIdx, highIdx := i, i+n-1
			if !plus {
				lowIdx, highIdx = i-n+1, i
			}
			if desc {
				return lowIdx - lsb
			}
			return lsb - highIdx
		}
		if a.konst {
			si.constLo = true
			si.lo = loOf(int(a.signedValue().Int64()))
			return si, true
		}
		ad := addrFn(a)
		si.loFn = func() (int, bool) {
			i, ok := ad()
			if !ok {
				return 0, false
			}
			return loOf(i), true
		}
		return si, true
	}
	return si, false
}

func (cp *comp) selectRead(e Expr) *cx {
	var inner Expr
	switch x := e.(type) {
	case *Index:
		inner = x.X
		// memory word read?
		if id, ok := x.X.(*Ident); ok {
			sym := cp.sc.lookup(id.Name)
			if sym == nil {
				cp.errf(ClassUndeclared, id.Line, "identifier '%s' is read but not declared", id.Name)
				// still check the index expression
				cp.self(x.Idx)
				return cp.zero()
			}
			if sym.sig != nil && sym.sig.isMem {
				return cp.memRead(sym.sig, x)
			}
		}
	case *PartSel:
		inner = x.X
	}
	b := cp.selBase(inner)
	if b == nil {
		if !cp.failed {
			if id, ok := inner.(*Ident); ok {
				cp.errf(ClassSyntax, e.exprLine(), "part-select of memory '%s' needs a word index first", id.Name)
			} else {
				cp.errf(ClassSyntax, e.exprLine(), "%s: select of a select that is not a memory word", ExprString(e))
			}
		}
		return cp.zero()
	}
	si, ok := cp.resolveSel(e, b)
	if !ok {
		return cp.zero()
	}
	if si.constLo {
		if (si.lo < 0 || si.lo+si.w > b.w) && !cp.quiet {
			cp.e.warnf(cp.sc, e.exprLine(), "select %s is (partly) outside %s[%d:%d]; missing bits read as 0", ExprString(e), b.name, b.msb, b.lsb)
		}
		return extractConst(b.c, si.lo, si.w)
	}
	return extractVar(b.c, si.loFn, si.w)
}

func (cp *comp) concat(parts []Expr, line int) *cx {
	type piece struct {
		c  *cx
		sh int
	}
	var ps []piece
	total := 0
	for _, p := range parts {
		if n, ok := p.(*Number); ok && n.Size == 0 {
			if !cp.e.opts.UnsizedInConcat {
				cp.errf(ClassSyntax, n.Line, "unsized constant %s in concatenation (IEEE 1364 requires sized operands; ElaborateOpts with UnsizedInConcat treats it as 32 bits)", n.Text)
			}
		}
		ps = append(ps, piece{c: cp.self(p)})
		total += ps[len(ps)-1].c.w
	}
	sh := total
	konst := true
	for i := range ps {
		sh -= ps[i].c.w
		ps[i].sh = sh
		konst = konst && ps[i].c.konst
	}
	r := &cx{w: total, konst: konst}
	if total <= 64 {
		fs := make([]func() uint64, len(ps))
		shs := make([]uint, len(ps))
		for i, p := range ps {
			fs[i] = p.c.f
			shs[i] = uint(p.sh)
		}
		switch len(fs) {
		case 1:
			r.f = fs[0]
		case 2:
			f0, f1, s0 := fs[0], fs[1], shs[0]
			r.f = func() uint64 { return f0()<<s0 | f1() }
		default:
			r.f = func() uint64 {
				var v uint64
				for i, f := range fs {
					v |= f() << shs[i]
				}
				return v
			}
		}
		return fold(r)
	}
	fbs := make([]func() *big.Int, len(ps))
	for i, p := range ps {
		fbs[i] = p.c.getBig()
	}
	r.fb = func() *big.Int {
		v := new(big.Int)
		for i, f := range fbs {
			t := new(big.Int).Lsh(f(), uint(ps[i].sh))
			v.Or(v, t)
		}
		return v
	}
	return fold(r)
}

func boolCx(konst bool, f func() bool) *cx {
	return &cx{w: 1, konst: konst, f: func() uint64 {
		if f() {
			return 1
		}
		return 0
	}}
}

func (cp *comp) unaryLeaf(x *Unary) *cx {
	a := cp.self(x.X)
	switch x.Op {
	case "!":
		t := a.truth()
		return fold(boolCx(a.konst, func() bool { return !t() }))
	case "&", "~&":
		inv := x.Op == "~&"
		var f func() bool
		if a.w <= 64 {
			af, m := a.f, mask64(a.w)
			f = func() bool { return (af() == m) != inv }
		} else {
			afb, bm := a.fb, bigMask(a.w)
			f = func() bool { return (afb().Cmp(bm) == 0) != inv }
		}
		return fold(boolCx(a.konst, f))
	case "|", "~|":
		inv := x.Op == "~|"
		t := a.truth()
		return fold(boolCx(a.konst, func() bool { return t() != inv }))
	case "^", "~^":
		inv := x.Op == "~^"
		var f func() bool
		if a.w <= 64 {
			af := a.f
			f = func() bool { return (popcount64(af())&1 == 1) != inv }
		} else {
			afb := a.fb
			f = func() bool {
				n := 0
				for _, w := range afb().Bits() {
					n += popcount64(uint64(w))
				}
				return (n&1 == 1) != inv
			}
		}
		return fold(boolCx(a.konst, f))
	}
	cp.e.unsupported(cp.sc, x.Line, "unary operator "+x.Op)
	return cp.zero()
}

func popcount64(v uint64) int {
	n := 0
	for v != 0 {
		v &= v - 1
		n++
	}
	return n
}

func (cp *comp) binaryLeaf(x *Binary) *cx {
	switch x.Op {
	case "&&", "||":
		l, r := cp.self(x.L), cp.self(x.R)
		lt, rt := l.truth(), r.truth()
		if x.Op == "&&" {
			return fold(boolCx(l.konst && r.konst, func() bool { return lt() && rt() }))
		}
		return fold(boolCx(l.konst && r.konst, func() bool { return lt() || rt() }))
	case "==", "!=", "===", "!==", "<", "<=", ">", ">=":
		lt, rt := cp.typeOf(x.L), cp.typeOf(x.R)
		w := maxInt(lt.w, rt.w)
		signed := lt.signed && rt.signed
		l := cp.ctx(x.L, w, signed)
		r := cp.ctx(x.R, w, signed)
		op := x.Op
		if op == "===" {
			op = "=="
		} else if op == "!==" {
			op = "!="
		}
		konst := l.konst && r.konst
		if w <= 64 {
			a, b := l.f, r.f
			var f func() bool
			switch {
			case op == "==":
				f = func() bool { return a() == b() }
			case op == "!=":
				f = func() bool { return a() != b() }
			case signed:
				cmp := func() int {
					p, q := sext64(a(), w), sext64(b(), w)
					if p < q {
						return -1
					} else if p > q {
						return 1
					}
					return 0
				}
				f = cmpToBool(op, cmp)
			default:
				switch op {
				case "<":
					f = func() bool { return a() < b() }
				case "<=":
					f = func() bool { return a() <= b() }
				case ">":
					f = func() bool { return a() > b() }
				case ">=":
					f = func() bool { return a() >= b() }
				}
			}
			return fold(boolCx(konst, f))
		}
		a, b := l.fb, r.fb
		cmp := func() int {
			p, q := a(), b()
			if signed {
				p, q = bigSigned(p, w), bigSigned(q, w)
			}
			return p.Cmp(q)
		}
		return fold(boolCx(konst, cmpToBool(op, cmp)))
	}
	// context-determined operator used as a self-determined operand
	return cp.self(x)
}

func cmpToBool(op string, cmp func() int) func() bool {
	switch op {
	case "==":
		return func() bool { return cmp() == 0 }
	case "!=":
		return func() bool { return cmp() != 0 }
	case "<":
		return func() bool { return cmp() < 0 }
	case "<=":
		return func() bool { return cmp() <= 0 }
	case ">":
		return func() bool { return cmp() > 0 }
	}
	return func() bool { return cmp() >= 0 }
}
