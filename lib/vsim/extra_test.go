package vsim

import (
	"sync"
	"testing"
)

func TestSignedFunctionsAndExtension(t *testing.T) {
	s := mustSim(t, `
module m(input [3:0] a, input signed [3:0] sa);
	wire [15:0] ze = a;                 // unsigned: zero extension
	wire [15:0] se = $signed(a);        // signed: sign extension
	wire [15:0] se2 = sa;
	wire [15:0] mix = sa + a;           // one unsigned operand makes everything unsigned
	wire [15:0] us = $unsigned(sa);
	wire lt = sa < 4'sd2;               // signed compare
	wire ltu = a < 4'd2;
	wire [7:0] sdiv = $signed(8'hf0) / $signed(8'h04);  // -16/4 = -4
	wire [7:0] smod = $signed(8'hf1) % $signed(8'h04);  // -15%4 = -3
	wire signed [71:0] wide_se = sa;    // sign extension beyond 64 bits
	integer k;
	reg [63:0] from_int;
	initial begin k = -2; from_int = k; end
endmodule`, "m")
	set(t, s, "a", 0xe)
	set(t, s, "sa", 0xe) // -2
	eval(t, s)
	expect(t, s, "ze", 0x000e)
	expect(t, s, "se", 0xfffe)
	expect(t, s, "se2", 0xfffe)
	expect(t, s, "mix", 0x001c)
	expect(t, s, "us", 0x000e)
	expect(t, s, "lt", 1)
	expect(t, s, "ltu", 0)
	expect(t, s, "sdiv", 0xfc)
	expect(t, s, "smod", 0xfd)
	expect(t, s, "from_int", 0xfffffffffffffffe)
	if got := s.GetBig("wide_se").Text(16); got != "fffffffffffffffffe" {
		t.Errorf("wide_se = %s", got)
	}
}

func TestCasexAndUnconnectedPositional(t *testing.T) {
	s := mustSim(t, `
module c(input a, input b, output y, output z);
	assign y = a | b;
	assign z = a & b;
endmodule
module m(input [3:0] v, input p, output q);
	reg [1:0] r;
	always @(v) begin
		casex (v)
			4'b1xxx: r = 2'd3;
			4'bx1x?: r = 2'd2;
			default: r = 2'd0;
		endcase
	end
	c c0(p, , q, );   // b and z left open
endmodule`, "m")
	for v, want := range map[uint64]uint64{0x8: 3, 0xf: 3, 0x4: 2, 0x7: 2, 0x3: 0} {
		set(t, s, "v", v)
		eval(t, s)
		expect(t, s, "r", want)
	}
	set(t, s, "p", 1)
	eval(t, s)
	expect(t, s, "q", 1)
	n := 0
	for _, c := range s.Conns() {
		if c.Expr == "" {
			n++
		}
	}
	if n != 2 {
		t.Errorf("%d unconnected ports reported, want 2", n)
	}
}

func TestAscendingRangesAndMemoryOrder(t *testing.T) {
	s := mustSim(t, `
module m(input clk, input [0:7] be, input [1:0] a);
	reg [7:0] up [3:0];     // [hi:lo] memory
	reg [7:0] dn [0:3];
	wire msb = be[0];
	wire [0:3] hi = be[0:3];
	wire [7:0] plain = be;
	integer i;
	initial for (i = 0; i < 4; i = i + 1) begin up[i] = i + 8'd10; dn[i] = i + 8'd20; end
	wire [7:0] ru = up[a], rd = dn[a];
endmodule`, "m")
	set(t, s, "be", 0x81)
	set(t, s, "a", 3)
	eval(t, s)
	expect(t, s, "msb", 1)
	expect(t, s, "hi", 0x8)
	expect(t, s, "plain", 0x81)
	expect(t, s, "ru", 13)
	expect(t, s, "rd", 23)
}

func TestIndependentSimsRunConcurrently(t *testing.T) {
	d, err := loadDirT("testdata/counter8")
	if err != nil {
		t.Fatal(err)
	}
	var wg sync.WaitGroup
	res := make([]uint64, 8)
	for g := 0; g < 8; g++ {
		wg.Add(1)
		go func(g int) {
			defer wg.Done()
			s, err := Elaborate(d, "bondmachine")
			if err != nil {
				t.Error(err)
				return
			}
			for c := 0; c < 300+3*g; c++ {
				s.Tick("clk")
			}
			res[g] = s.Get("o0")
		}(g)
	}
	wg.Wait()
	for g, v := range res {
		if v != uint64(100+g) {
			t.Errorf("sim %d: o0 = %d, want %d", g, v, 100+g)
		}
	}
}

func TestMemoryWordSelectAndWarnings(t *testing.T) {
	s := mustSim(t, `
module c(input [3:0] x, output [3:0] y); assign y = x; endmodule
module m(input clk, input [1:0] a, input [7:0] wide, output [3:0] q, output [3:0] q2);
	reg [7:0] mem [0:3];
	wire [3:0] hi = mem[a][7:4];
	wire b0 = mem[a][0];
	initial begin mem[0] = 8'ha1; mem[1] = 8'hb2; mem[2] = 8'hc3; mem[3] = 8'hd4; end
	c c0(.x(wide), .y(q));   // 8-bit expression on a 4-bit port: truncated, warning
	c c1(.x(), .y(q2));      // explicitly unconnected
endmodule`, "m")
	set(t, s, "a", 2)
	set(t, s, "wide", 0xab)
	eval(t, s)
	expect(t, s, "hi", 0xc)
	expect(t, s, "b0", 1)
	expect(t, s, "q", 0xb)
	expect(t, s, "q2", 0)
	w := s.Warnings()
	if len(w) != 1 {
		t.Fatalf("warnings = %v", w)
	}
	if want := "test.v:8: port 'x' of instance 'c0' is 4 bits wide but the connection wide is 8 bits wide"; w[0] != want {
		t.Errorf("warning %q, want %q", w[0], want)
	}
}

func TestMoreStrictCases(t *testing.T) {
	wantDesignError(t, "module m(input a, output y); assign a = 1'b0; assign y = a; endmodule", "m", ClassMultiDriver, "top-level input 'a' is also driven")
	wantDesignError(t, "module c(x); input x; reg x; endmodule module m(input a); c c0(a); endmodule", "m", ClassAssignKind, "input port 'x'")
	wantDesignError(t, "module m(input a, output y); localparam P = 1; assign P = a; endmodule", "m", ClassSyntax, "parameter 'P' cannot be assigned")
	wantDesignError(t, "module m(input [3:0] a, output y); wire [w:0] t; assign y = a[0]; endmodule", "m", ClassUndeclared, "'w'")
	wantDesignError(t, "module m(input clk); reg [7:0] mem [0:3]; reg [7:0] r; always @(posedge clk) r <= mem; endmodule", "m", ClassSyntax, "memory 'mem' used without an index")
	wantDesignError(t, "module m(input a); m sub(a); endmodule", "m", ClassSyntax, "recursively")
	wantDesignError(t, "module m(input clk); reg [7:0] r; always @(posedge clk) r[3][0] <= 1'd1; endmodule", "m", ClassSyntax, "select of a select")
	wantDesignError(t, "module m(input [7:0] a, output y); assign y = a[3:0][1]; endmodule", "m", ClassSyntax, "select of a select")
	// part-select write into a memory word is supported
	s := mustSim(t, "module m(input clk); reg [7:0] mem [0:3]; always @(posedge clk) begin mem[2][7:4] <= 4'd9; mem[2][0] <= 1'b1; end endmodule", "m")
	tick(t, s, "clk")
	if got := s.GetMem("mem", 2).Uint64(); got != 0x91 {
		t.Errorf("mem[2] = %#x", got)
	}
}
