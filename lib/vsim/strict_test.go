package vsim

import (
	"errors"
	"strings"
	"testing"
)

// elabErr parses and elaborates src and returns all errors.
func elabErrs(t *testing.T, src, top string) []error {
	t.Helper()
	d, err := Parse("bad.v", src)
	if err != nil {
		return []error{err}
	}
	return Check(d, top, Options{})
}

func wantDesignError(t *testing.T, src, top, class, fragment string) *DesignError {
	t.Helper()
	errs := elabErrs(t, src, top)
	if len(errs) == 0 {
		t.Fatalf("no error, want [%s] %q", class, fragment)
	}
	for _, e := range errs {
		var de *DesignError
		if errors.As(e, &de) && de.Class == class && strings.Contains(de.Msg, fragment) {
			if de.Line == 0 {
				t.Errorf("error without line: %v", de)
			}
			return de
		}
	}
	t.Fatalf("want [%s] containing %q, got %v", class, fragment, errs)
	return nil
}

func wantUnsupported(t *testing.T, src, top, fragment string) {
	t.Helper()
	errs := elabErrs(t, src, top)
	for _, e := range errs {
		var ue *UnsupportedError
		if errors.As(e, &ue) && strings.Contains(ue.Construct, fragment) {
			if ue.Line == 0 {
				t.Errorf("unsupported error without line: %v", ue)
			}
			return
		}
	}
	t.Fatalf("want UnsupportedError containing %q, got %v", fragment, errs)
}

func TestStrictSyntax(t *testing.T) {
	de := wantDesignError(t, "module m(input a, output b);\n assign b = a &;\nendmodule", "m", ClassSyntax, "unexpected ';'")
	if de.Line != 2 || de.File != "bad.v" {
		t.Errorf("location %s:%d", de.File, de.Line)
	}
	wantDesignError(t, "module m(input a); wire b; assign b = a; ", "m", ClassSyntax, "endmodule")
	wantDesignError(t, "module m(input a);\n always @(posedge a) begin\n if (a) begin\n end\nendmodule", "m", ClassSyntax, "missing 'end'")
	wantDesignError(t, "module m(input a); wire b; wire b; endmodule", "m", ClassSyntax, "declared twice")
	wantDesignError(t, "module m(input [3:0] a); wire [1:0] b; assign b = a[1:2]; endmodule", "m", ClassSyntax, "reversed")
	wantDesignError(t, "module m(input [3:0] a); wire [40:0] b; assign b = {0, a}; endmodule", "m", ClassSyntax, "unsized constant")
	// duplicate module across Add calls
	d, err := Parse("a.v", "module m; endmodule")
	if err != nil {
		t.Fatal(err)
	}
	err = d.Add("b.v", "module other; endmodule module m; endmodule")
	var dd *DesignError
	if !errors.As(err, &dd) || dd.Class != ClassSyntax || !strings.Contains(dd.Msg, "duplicate module") {
		t.Errorf("duplicate module: %v", err)
	}
	if got := d.Modules(); len(got) != 1 {
		t.Errorf("failed Add must not add modules: %v", got)
	}
}

func TestStrictUndeclared(t *testing.T) {
	// read in a continuous assignment (the generated processors do this with iN_recv)
	de := wantDesignError(t, `
module p(input clk, output i0_received);
	assign i0_received = i0_recv;
endmodule`, "p", ClassUndeclared, "'i0_recv' is read")
	if de.Line != 3 {
		t.Errorf("line %d", de.Line)
	}
	// written in a process
	wantDesignError(t, `
module p(input clk);
	always @(posedge clk) vn_state <= 1'b0;
endmodule`, "p", ClassUndeclared, "'vn_state' is assigned")
	// read in an index, in a condition, in a $display argument
	wantDesignError(t, "module p(input clk); reg [3:0] r; reg q; always @(posedge clk) q <= r[idx]; endmodule", "p", ClassUndeclared, "'idx'")
	wantDesignError(t, "module p(input clk); reg q; always @(posedge clk) if (go) q <= 1; endmodule", "p", ClassUndeclared, "'go'")
	wantDesignError(t, "module p(input clk); always @(posedge clk) $display(\"%d\", ghost); endmodule", "p", ClassUndeclared, "'ghost'")
	// sensitivity list
	wantDesignError(t, "module p(input a); reg q; always @(posedge ck) q <= a; endmodule", "p", ClassUndeclared, "'ck'")
	// implicit net in a port connection is flagged too
	wantDesignError(t, `
module c(input x, output y); assign y = x; endmodule
module p(input a, output b);
	c c0(.x(a), .y(implicit_net));
endmodule`, "p", ClassUndeclared, "'implicit_net' in a port connection")
	// port in the header without direction
	wantDesignError(t, "module p(a, b); input a; endmodule", "p", ClassUndeclared, "port 'b'")
	// a block-local name is not visible outside its block
	wantDesignError(t, `
module p(input clk);
	reg [7:0] r;
	always @(posedge clk) begin : blk
		integer k;
		k = 1;
	end
	always @(posedge clk) r <= k;
endmodule`, "p", ClassUndeclared, "'k'")
}

func TestStrictUndefinedModule(t *testing.T) {
	de := wantDesignError(t, `
module top(input a, output b);
	nosuch u0(a, b);
endmodule`, "top", ClassUndefinedModule, "'nosuch'")
	if de.Line != 3 {
		t.Errorf("line %d", de.Line)
	}
	d, _ := Parse("x.v", "module m; endmodule")
	_, err := Elaborate(d, "zz")
	var dd *DesignError
	if !errors.As(err, &dd) || dd.Class != ClassUndefinedModule {
		t.Errorf("undefined top: %v", err)
	}
}

func TestStrictPortCount(t *testing.T) {
	child := "module c(input x, input y, output z); assign z = x & y; endmodule\n"
	wantDesignError(t, child+"module top(input a, output b); c c0(a, b); endmodule", "top", ClassPortCount, "2 positional connections but the module has 3 ports")
	wantDesignError(t, child+"module top(input a, output b); c c0(a, a, b, a); endmodule", "top", ClassPortCount, "4 positional connections")
	wantDesignError(t, child+"module top(input a, output b); c c0(.x(a), .y(a), .q(b)); endmodule", "top", ClassPortCount, "no port 'q'")
	wantDesignError(t, "module c #(parameter W=1) (input x); endmodule module top(input a); c #(.V(2)) c0(a); endmodule", "top", ClassPortCount, "no parameter 'V'")
	// a named connection may leave ports unconnected
	s := mustSim(t, child+"module top(input a, output b); c c0(.x(a), .z(b)); endmodule", "top")
	set(t, s, "a", 1)
	eval(t, s)
	expect(t, s, "b", 0) // y floats -> 0 in 2-state
}

func TestStrictAssignKind(t *testing.T) {
	wantDesignError(t, `
module m(input clk, output y);
	wire w;
	always @(posedge clk) w <= 1'b1;
	assign y = w;
endmodule`, "m", ClassAssignKind, "net 'w' is assigned in a procedural block")
	wantDesignError(t, `
module m(input a, output y);
	reg r;
	assign r = a;
	assign y = r;
endmodule`, "m", ClassAssignKind, "reg 'r' is driven by a continuous assignment")
	// an output port declared without reg is a net
	wantDesignError(t, `
module m(input clk, output y);
	always @(posedge clk) y <= 1'b1;
endmodule`, "m", ClassAssignKind, "net 'y'")
	// child output connected to a parent reg
	wantDesignError(t, `
module c(input x, output y); assign y = x; endmodule
module m(input a);
	reg r;
	c c0(a, r);
endmodule`, "m", ClassAssignKind, "reg 'r' is driven")
	// initial blocks are procedural too
	wantDesignError(t, "module m(input a); wire w; initial w = 0; endmodule", "m", ClassAssignKind, "net 'w'")
}

func TestStrictMultiDriver(t *testing.T) {
	de := wantDesignError(t, `
module m(input clk, input rst);
	reg [3:0] r;
	always @(posedge clk) r <= r + 1;
	always @(posedge rst) r <= 0;
endmodule`, "m", ClassMultiDriver, "more than one always process")
	if de.Line != 5 {
		t.Errorf("line %d", de.Line)
	}
	// two continuous drivers on one net
	wantDesignError(t, `
module m(input a, input b, output y);
	assign y = a;
	assign y = b;
endmodule`, "m", ClassMultiDriver, "more than one continuous driver")
	// a child output and an assign
	wantDesignError(t, `
module c(input x, output y); assign y = x; endmodule
module m(input a, output y);
	c c0(a, y);
	assign y = a;
endmodule`, "m", ClassMultiDriver, "more than one continuous driver")
	// legal: initial plus one always; disjoint bit ranges from two blocks; disjoint assigns
	s := mustSim(t, `
module m(input clk, output [1:0] y);
	reg [3:0] r;
	reg [1:0] p;
	initial r = 4'd5;
	always @(posedge clk) r <= r + 1;
	always @(posedge clk) p[0] <= ~p[0];
	always @(negedge clk) p[1] <= p[0];
	assign y[0] = p[0];
	assign y[1] = p[1];
endmodule`, "m")
	expect(t, s, "r", 5)
	tick(t, s, "clk")
	expect(t, s, "r", 6)
	expect(t, s, "y", 3)
}

func TestUnsupported(t *testing.T) {
	wantUnsupported(t, "module m; generate endgenerate endmodule", "m", "generate")
	wantUnsupported(t, "module m; function f; input a; f = a; endfunction endmodule", "m", "function")
	wantUnsupported(t, "module m; task t; begin end endtask endmodule", "m", "task")
	wantUnsupported(t, "module m(input a, output b); and g0(b, a, a); endmodule", "m", "gate primitive and")
	wantUnsupported(t, "module m; real r; endmodule", "m", "real")
	wantUnsupported(t, "module m; wire [3:0] w = 1.5; endmodule", "m", "real number")
	wantUnsupported(t, "module m; reg clk; always #1 clk = ~clk; endmodule", "m", "always without event control")
	wantUnsupported(t, "module m(inout a); endmodule", "m", "inout")
	wantUnsupported(t, "`define X 1\nmodule m; endmodule", "m", "`define")
	wantUnsupported(t, "module m; reg [7:0] mem [0:3]; initial $readmemh(\"f.hex\", mem); endmodule", "m", "$readmemh")
	wantUnsupported(t, "module m(input a); reg r; always @(a) while (a) r = 0; endmodule", "m", "'while'")
	wantUnsupported(t, "module m(input a, output [3:0] y); assign y = $clog2(a); endmodule", "m", "$clog2")
	wantUnsupported(t, "module m(input clk, input a); reg r; always @(posedge clk or a) r <= a; endmodule", "m", "mixing edge and level")
	// the generated test bench is a timed process
	d, err := loadDirT("testdata/counter8")
	if err != nil {
		t.Fatal(err)
	}
	_ = d
}

func TestErrorMessagesAreStable(t *testing.T) {
	src := `
module c(input x, output y); assign y = x; endmodule
module m(input a, output y);
	c c0(.x(a), .y(n1));
	c c1(.x(n2), .y(y));
	assign q = zz;
	nosuch u(a);
endmodule`
	var first string
	for i := 0; i < 20; i++ {
		errs := elabErrs(t, src, "m")
		var sb strings.Builder
		for _, e := range errs {
			sb.WriteString(e.Error())
			sb.WriteByte('\n')
		}
		if i == 0 {
			first = sb.String()
			if len(errs) != 5 {
				t.Errorf("want 5 errors, got %d:\n%s", len(errs), first)
			}
		} else if sb.String() != first {
			t.Fatalf("error list differs between runs:\n%s\nvs\n%s", first, sb.String())
		}
	}
}
