`timescale 1ns/1ps
module p0(clock_signal, reset_signal, rom_bus, rom_value, st0senderData, st0senderWrite, st0senderAck, st0empty, st0full);

	input clock_signal;
	input reset_signal;
	output  [2:0] rom_bus;
	input  [10:0] rom_value;


	output reg [7:0] st0senderData;
	output reg st0senderWrite;
	input st0senderAck;
	input st0empty;
	input st0full;

			// Opcodes in the instructions, length according the number of the selected.
	localparam	RSET=2'b00,          // Register set value
			INC=2'b01,          // Increment a register by 1
			R2T=2'b10,          // Copy a register value to a shared stack
			J=2'b11;          // Jump to a program location

	localparam	R0=1'b0,		// Registers in the intructions
			R1=1'b1;

	reg [7:0] _ram [0:0];		// Internal processor RAM

	(* KEEP = "TRUE" *) reg [2:0] _pc;		// Program counter

	// The number of registers are 2^R, two letters and an underscore as identifier , maximum R=8 and 265 rigisters
	(* KEEP = "TRUE" *) reg [7:0] _r0;
	(* KEEP = "TRUE" *) reg [7:0] _r1;

	wire [10:0] current_instruction;
	assign current_instruction=rom_value;

	reg stackqueueSM;
	localparam ST0=1'd0;

	always @(posedge clock_signal, posedge reset_signal)
	begin
		if(reset_signal)
		begin
			_pc <= #1 3'h0;
			_r0 <= #1 8'h0;
			_r1 <= #1 8'h0;
		end
		else begin
			// ha placeholder
			$display("Program Counter:%d", _pc);
			$display("Instruction:%b", rom_value);
			$display("Registers r0:%b r1:%b ", _r0, _r1);
				case(current_instruction[10:9])
					RSET: begin
						case (current_instruction[8])
						R0 : begin
							_r0 <= #1 current_instruction[7:0];
							$display("RSET R0 ",_r0);
						end
						R1 : begin
							_r1 <= #1 current_instruction[7:0];
							$display("RSET R1 ",_r1);
						end
						endcase
						_pc <= #1 _pc + 1'b1;
					end
					INC: begin
						case (current_instruction[8])
						R0 : begin
							_r0 <= #1 _r0 + 1'b1;
							$display("INC R0");
						end
						R1 : begin
							_r1 <= #1 _r1 + 1'b1;
							$display("INC R1");
						end
						endcase
						_pc <= #1 _pc + 1'b1;
					end
					R2T: begin
						case (current_instruction[8])
						R0 : begin
							case (current_instruction[7])
							ST0 : begin
								case (stackqueueSM)
								   1'b0: begin
								     if (!st0senderAck) begin
								     st0senderData[7:0] <= #1 _r0[7:0];
								     st0senderWrite <= #1 1'b1;
								     stackqueueSM <= 1'b1;
								     end
								   end
								   1'b1: begin
								     if (st0senderAck) begin
								       st0senderWrite <= #1 1'b0;
								_pc <= #1 _pc + 1'b1;
								       stackqueueSM <= 1'b0;
								     end
								   end
								endcase
								$display("R2T R0 ST0");
							end
							endcase
						end
						R1 : begin
							case (current_instruction[7])
							ST0 : begin
								case (stackqueueSM)
								   1'b0: begin
								     if (!st0senderAck) begin
								     st0senderData[7:0] <= #1 _r1[7:0];
								     st0senderWrite <= #1 1'b1;
								     stackqueueSM <= 1'b1;
								     end
								   end
								   1'b1: begin
								     if (st0senderAck) begin
								       st0senderWrite <= #1 1'b0;
								_pc <= #1 _pc + 1'b1;
								       stackqueueSM <= 1'b0;
								     end
								   end
								endcase
								$display("R2T R1 ST0");
							end
							endcase
						end
						endcase
					end
					J: begin
						_pc <= #1 current_instruction[8:6];
						$display("J ", current_instruction[8:6]);
					end
					default : begin
						$display("Unknown Opcode");
						_pc <= #1 _pc + 1'b1;
					end
				endcase
			// ha placeholder
		end
	end
	assign rom_bus = _pc;
endmodule
