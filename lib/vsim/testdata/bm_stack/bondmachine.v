module bondmachine(clk, reset, o0, o0_valid, o0_received);

	input clk, reset;
	//--------------Output Ports-----------------------
	output [7:0] o0;
	output o0_valid;
	input o0_received;



	wire [7:0] p1o0;
	wire p1o0_valid;
	wire p1o0_received;
	wire o0_received;

	wire [7:0] p0st0senderData;
	wire p0st0senderWrite;
	wire p0st0senderAck;

	wire [7:0] p1st0receiverData;
	wire p1st0receiverRead;
	wire p1st0receiverAck;


	wire st0empty;
	wire st0full
;

	//Instantiation of the Processors and Shared Objects
	a0 a0_inst(clk, reset, p0st0senderData, p0st0senderWrite, p0st0senderAck, st0empty, st0full);
	a1 a1_inst(clk, reset, p1o0, p1o0_valid, p1o0_received, p1st0receiverData, p1st0receiverRead, p1st0receiverAck, st0empty, st0full);
	st0 st0_inst (clk, reset, p0st0senderData, p0st0senderWrite, p0st0senderAck, p1st0receiverData, p1st0receiverRead, p1st0receiverAck, st0empty, st0full);

	assign o0 = p1o0;
	assign o0_valid = p1o0_valid;

	assign p1o0_received = o0_received;

endmodule
