`timescale 1ns/1ps
module a0(clock_signal, reset_signal, st0senderData, st0senderWrite, st0senderAck, st0empty, st0full);

	input clock_signal;
	input reset_signal;


	output [7:0] st0senderData;
	output st0senderWrite;
	input st0senderAck;
	input st0empty;
	input st0full;

	wire [2:0] rom_bus;
	wire [10:0] rom_value;


	p0 p0_instance(clock_signal, reset_signal, rom_bus, rom_value, st0senderData, st0senderWrite, st0senderAck, st0empty, st0full);
	p0rom p0rom_instance(rom_bus, rom_value);

endmodule
