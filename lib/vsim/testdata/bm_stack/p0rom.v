`timescale 1ns/1ps
module p0rom(input [2:0] rom_bus, output [10:0] rom_value);
	reg [10:0] _rom [0:7];
	initial
	begin
	_rom[0] = 11'b00000000001;
	_rom[1] = 11'b10000000000;
	_rom[2] = 11'b01000000000;
	_rom[3] = 11'b11001000000;
	end
	assign rom_value = _rom[rom_bus];
endmodule
