`timescale 1ns/1ps
module a1(clock_signal, reset_signal, o0, o0_valid, o0_received, st0receiverData, st0receiverRead, st0receiverAck, st0empty, st0full);

	input clock_signal;
	input reset_signal;

	output [7:0] o0;
	output o0_valid;
	input o0_received;

	input [7:0] st0receiverData;
	output st0receiverRead;
	input st0receiverAck;
	input st0empty;
	input st0full;

	wire [2:0] rom_bus;
	wire [4:0] rom_value;


	p1 p1_instance(clock_signal, reset_signal, rom_bus, rom_value, o0, o0_valid, o0_received, st0receiverData, st0receiverRead, st0receiverAck, st0empty, st0full);
	p1rom p1rom_instance(rom_bus, rom_value);

endmodule
