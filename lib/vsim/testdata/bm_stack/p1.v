`timescale 1ns/1ps
module p1(clock_signal, reset_signal, rom_bus, rom_value, o0, o0_valid, o0_received, st0receiverData, st0receiverRead, st0receiverAck, st0empty, st0full);

	input clock_signal;
	input reset_signal;
	output  [2:0] rom_bus;
	input  [4:0] rom_value;

	output [7:0] o0;
	output o0_valid;
	input o0_received;

	input [7:0] st0receiverData;
	output reg st0receiverRead;
	input st0receiverAck;
	input st0empty;
	input st0full;

			// Opcodes in the instructions, length according the number of the selected.
	localparam	T2R=2'b00,          // Get a value from a shared stack and put it in a register
			R2O=2'b01,          // Register to output
			J=2'b10;          // Jump to a program location

	localparam	R0=1'b0,		// Registers in the intructions
			R1=1'b1;
	localparam			O0=1'b0;
	reg [7:0] _auxo0;

	reg [7:0] _ram [0:0];		// Internal processor RAM

	(* KEEP = "TRUE" *) reg [2:0] _pc;		// Program counter

	// The number of registers are 2^R, two letters and an underscore as identifier , maximum R=8 and 265 rigisters
	(* KEEP = "TRUE" *) reg [7:0] _r0;
	(* KEEP = "TRUE" *) reg [7:0] _r1;

	wire [4:0] current_instruction;
	assign current_instruction=rom_value;

	reg stackqueueSM;
	localparam ST0=1'd0;

	reg o0_val;
	reg waitsm;
	initial waitsm = 1'b0;

	always @(posedge clock_signal, posedge reset_signal)
	begin
		if (reset_signal)
		begin
			o0_val <= #1 1'b0;
		end
		else
		begin
			case(current_instruction[4:3])
				R2O: begin
					case (current_instruction[1])
					O0 : begin
						o0_val <= 1'b1;
					end
					default: begin
						if (o0_received)
						begin
							o0_val <= #1 1'b0;
						end
					end
					endcase
				end
				default: begin
					if (o0_received)
					begin
						o0_val <= #1 1'b0;
					end
				end
			endcase
		end
	end

	always @(posedge clock_signal, posedge reset_signal)
	begin
		if(reset_signal)
		begin
			_pc <= #1 3'h0;
			_r0 <= #1 8'h0;
			_r1 <= #1 8'h0;
		end
		else begin
			// ha placeholder
			$display("Program Counter:%d", _pc);
			$display("Instruction:%b", rom_value);
			$display("Registers r0:%b r1:%b ", _r0, _r1);
				case(current_instruction[4:3])
					T2R: begin
						case (current_instruction[2])
						R0 : begin
							case (current_instruction[1])
							ST0 : begin
								if (st0receiverAck && st0receiverRead) begin
								     st0receiverRead <= #1 1'b0;
								     _r0[7:0] <= #1 st0receiverData[7:0];
								_pc <= #1 _pc + 1'b1;
								end
								else begin
								       st0receiverRead <= #1 1'b1;
								end
								$display("T2R R0 ST0");
							end
							endcase
						end
						R1 : begin
							case (current_instruction[1])
							ST0 : begin
								if (st0receiverAck && st0receiverRead) begin
								     st0receiverRead <= #1 1'b0;
								     _r1[7:0] <= #1 st0receiverData[7:0];
								_pc <= #1 _pc + 1'b1;
								end
								else begin
								       st0receiverRead <= #1 1'b1;
								end
								$display("T2R R1 ST0");
							end
							endcase
						end
						endcase
					end
					R2O: begin
						case (current_instruction[2])
						R0 : begin
							case (current_instruction[1])
							O0 : begin
								_auxo0 <= #1 _r0;
								$display("R2O R0 O0");
							end
							endcase
						end
						R1 : begin
							case (current_instruction[1])
							O0 : begin
								_auxo0 <= #1 _r1;
								$display("R2O R1 O0");
							end
							endcase
						end
						endcase
						_pc <= #1 _pc + 1'b1;
					end
					J: begin
						_pc <= #1 current_instruction[2:0];
						$display("J ", current_instruction[2:0]);
					end
					default : begin
						$display("Unknown Opcode");
						_pc <= #1 _pc + 1'b1;
					end
				endcase
			// ha placeholder
		end
	end
	assign rom_bus = _pc;
	assign o0 = _auxo0;
	assign o0_valid = o0_val;
endmodule
