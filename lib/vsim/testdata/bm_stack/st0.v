
module st0(clk,
    reset,
    p0stack_sendData,
    p0stack_sendWrite,
    p0stack_sendAck,
    p1stack_recvData,
    p1stack_recvRead,
    p1stack_recvAck,
    empty,
    full
);
    input clk;
    input reset;
    output empty;
    output full;
    input [7:0] p0stack_sendData;
    input p0stack_sendWrite;
    output reg p0stack_sendAck;
    output reg [7:0] p1stack_recvData;
    input p1stack_recvRead;
    output reg p1stack_recvAck;

    reg [7:0] memory[3:0];
    reg [2:0] sp;

    assign empty = (sp==0)? 1'b1:1'b0; 
    assign full = (sp==4)? 1'b1:1'b0;
    
    wire readneed;
    wire writeneed;

    assign writeneed = ( 1'b0
            | p0stack_sendWrite );

    assign readneed = ( 1'b0
            | p1stack_recvRead );

    reg [0:0] sendSM;
    //
    //localparam sendSMp0stack_send = 1'd0;
    //
    
    reg [0:0] recvSM;
    //
    //localparam recvSMp1stack_recv = 1'd0;
    //

    integer i;

    always @(posedge clk) begin
        if (reset) begin
            sp <= 3'd0;
            p1stack_recvData <= 8'd0;
            p1stack_recvAck <= 1'b0;
            p0stack_sendAck <= 1'b0;
            sendSM <= 1'd0;
            recvSM <= 1'd0;
            for (i=0;i<4;i=i+1) begin
                memory[i]<=8'd0;
            end
        end
        else begin
            // Read state machine part
            if (readneed && !empty) begin
                case (recvSM)
                1'd0: begin
                    if (p1stack_recvRead && !p1stack_recvAck) begin
                        p1stack_recvData[7:0] <= memory[sp-1];
                        sp <= sp - 1;
                    end
                    recvSM <= 1'd0;
                end
                endcase
            end
            // Write state machine part
            else if (writeneed && !full) begin
                case (sendSM)
                1'd0: begin
                    if (p0stack_sendWrite && !p0stack_sendAck) begin
                        memory[sp] <= p0stack_sendData[7:0];
                        sp <= sp + 1;
                    end
                    sendSM <= 1'd0;
                end
                endcase
            end

            // Read ack process
            if (p1stack_recvRead && !p1stack_recvAck && recvSM==1'd0 && !empty) begin
                p1stack_recvAck <= 1'b1;
            end
            else begin
                if (!p1stack_recvRead) begin
                    p1stack_recvAck <= 1'b0;
                end
            end

            // Write ack process
            if (!(readneed && !empty) && p0stack_sendWrite && !p0stack_sendAck && sendSM==1'd0 && !full) begin
                p0stack_sendAck <= 1'b1;
            end
            else begin
                if (!p0stack_sendWrite) begin
                    p0stack_sendAck <= 1'b0;
                end
            end
        end
    end
endmodule
