`timescale 1ns/1ps
module p0(clock_signal, reset_signal, rom_bus, rom_value, o0, o0_valid, o0_received);

	input clock_signal;
	input reset_signal;
	output  [4:0] rom_bus;
	input  [22:0] rom_value;

	output [15:0] o0;
	output o0_valid;
	input o0_received;

			// Opcodes in the instructions, length according the number of the selected.
	localparam	RSET=5'b00000,          // Register set value
			ADD=5'b00001,          // Register add
			SUB=5'b00010,          // Register sub
			MULT=5'b00011,          // Register mult
			DIV=5'b00100,          // Register div
			MOD=5'b00101,          // Register mod
			AND=5'b00110,          // Register bitwise and
			OR=5'b00111,          // Register bitwise or
			XOR=5'b01000,          // Register bitwise xor
			NOT=5'b01001,          // Register bitwise not
			NAND=5'b01010,          // Register bitwise nand
			NOR=5'b01011,          // Register bitwise nor
			XNOR=5'b01100,          // Register bitwise xnor
			CPY=5'b01101,          // Copy from a register to another
			CLR=5'b01110,          // Clear register
			DEC=5'b01111,          // Decrement a register by 1
			INC=5'b10000,          // Increment a register by 1
			JZ=5'b10001,          // Zero conditional jump
			J=5'b10010,          // Jump to a program location
			R2O=5'b10011,          // Register to output
			CIL=5'b10100,          // Register left shift
			CIR=5'b10101,          // Register right shift
			CIRN=5'b10110,          // Register right shift
			NOP=5'b10111,          // No operation
			HLT=5'b11000;          // Halt the processor

	localparam	R0=2'b00,		// Registers in the intructions
			R1=2'b01,
			R2=2'b10,
			R3=2'b11;
	localparam			O0=1'b0;
	reg [15:0] _auxo0;

	reg [15:0] _ram [0:0];		// Internal processor RAM

	(* KEEP = "TRUE" *) reg [4:0] _pc;		// Program counter

	// The number of registers are 2^R, two letters and an underscore as identifier , maximum R=8 and 265 rigisters
	(* KEEP = "TRUE" *) reg [15:0] _r0;
	(* KEEP = "TRUE" *) reg [15:0] _r1;
	(* KEEP = "TRUE" *) reg [15:0] _r2;
	(* KEEP = "TRUE" *) reg [15:0] _r3;

	wire [22:0] current_instruction;
	assign current_instruction=rom_value;


	reg o0_val;
	reg waitsm;
	initial waitsm = 1'b0;

	always @(posedge clock_signal, posedge reset_signal)
	begin
		if (reset_signal)
		begin
			o0_val <= #1 1'b0;
		end
		else
		begin
			case(current_instruction[22:18])
				R2O: begin
					case (current_instruction[15])
					O0 : begin
						o0_val <= 1'b1;
					end
					default: begin
						if (o0_received)
						begin
							o0_val <= #1 1'b0;
						end
					end
					endcase
				end
				default: begin
					if (o0_received)
					begin
						o0_val <= #1 1'b0;
					end
				end
			endcase
		end
	end

	always @(posedge clock_signal, posedge reset_signal)
	begin
		if(reset_signal)
		begin
			_pc <= #1 5'h0;
			_r0 <= #1 16'h0;
			_r1 <= #1 16'h0;
			_r2 <= #1 16'h0;
			_r3 <= #1 16'h0;
		end
		else begin
			// ha placeholder
			$display("Program Counter:%d", _pc);
			$display("Instruction:%b", rom_value);
			$display("Registers r0:%b r1:%b r2:%b r3:%b ", _r0, _r1, _r2, _r3);
				case(current_instruction[22:18])
					RSET: begin
						case (current_instruction[17:16])
						R0 : begin
							_r0 <= #1 current_instruction[15:0];
							$display("RSET R0 ",_r0);
						end
						R1 : begin
							_r1 <= #1 current_instruction[15:0];
							$display("RSET R1 ",_r1);
						end
						R2 : begin
							_r2 <= #1 current_instruction[15:0];
							$display("RSET R2 ",_r2);
						end
						R3 : begin
							_r3 <= #1 current_instruction[15:0];
							$display("RSET R3 ",_r3);
						end
						endcase
						_pc <= #1 _pc + 1'b1;
					end
					ADD: begin
						case (current_instruction[17:16])
						R0 : begin
							case (current_instruction[15:14])
							R0 : begin
								_r0 <= #1 _r0 + _r0;
								$display("ADD R0 R0");
							end
							R1 : begin
								_r0 <= #1 _r1 + _r0;
								$display("ADD R0 R1");
							end
							R2 : begin
								_r0 <= #1 _r2 + _r0;
								$display("ADD R0 R2");
							end
							R3 : begin
								_r0 <= #1 _r3 + _r0;
								$display("ADD R0 R3");
							end
							endcase
						end
						R1 : begin
							case (current_instruction[15:14])
							R0 : begin
								_r1 <= #1 _r0 + _r1;
								$display("ADD R1 R0");
							end
							R1 : begin
								_r1 <= #1 _r1 + _r1;
								$display("ADD R1 R1");
							end
							R2 : begin
								_r1 <= #1 _r2 + _r1;
								$display("ADD R1 R2");
							end
							R3 : begin
								_r1 <= #1 _r3 + _r1;
								$display("ADD R1 R3");
							end
							endcase
						end
						R2 : begin
							case (current_instruction[15:14])
							R0 : begin
								_r2 <= #1 _r0 + _r2;
								$display("ADD R2 R0");
							end
							R1 : begin
								_r2 <= #1 _r1 + _r2;
								$display("ADD R2 R1");
							end
							R2 : begin
								_r2 <= #1 _r2 + _r2;
								$display("ADD R2 R2");
							end
							R3 : begin
								_r2 <= #1 _r3 + _r2;
								$display("ADD R2 R3");
							end
							endcase
						end
						R3 : begin
							case (current_instruction[15:14])
							R0 : begin
								_r3 <= #1 _r0 + _r3;
								$display("ADD R3 R0");
							end
							R1 : begin
								_r3 <= #1 _r1 + _r3;
								$display("ADD R3 R1");
							end
							R2 : begin
								_r3 <= #1 _r2 + _r3;
								$display("ADD R3 R2");
							end
							R3 : begin
								_r3 <= #1 _r3 + _r3;
								$display("ADD R3 R3");
							end
							endcase
						end
						endcase
						_pc <= #1 _pc + 1'b1;
					end
					SUB: begin
						case (current_instruction[17:16])
						R0 : begin
							case (current_instruction[15:14])
							R0 : begin
								_r0 <= #1 _r0 - _r0;
								$display("SUB R0 R0");
							end
							R1 : begin
								_r0 <= #1 _r0 - _r1;
								$display("SUB R0 R1");
							end
							R2 : begin
								_r0 <= #1 _r0 - _r2;
								$display("SUB R0 R2");
							end
							R3 : begin
								_r0 <= #1 _r0 - _r3;
								$display("SUB R0 R3");
							end
							endcase
						end
						R1 : begin
							case (current_instruction[15:14])
							R0 : begin
								_r1 <= #1 _r1 - _r0;
								$display("SUB R1 R0");
							end
							R1 : begin
								_r1 <= #1 _r1 - _r1;
								$display("SUB R1 R1");
							end
							R2 : begin
								_r1 <= #1 _r1 - _r2;
								$display("SUB R1 R2");
							end
							R3 : begin
								_r1 <= #1 _r1 - _r3;
								$display("SUB R1 R3");
							end
							endcase
						end
						R2 : begin
							case (current_instruction[15:14])
							R0 : begin
								_r2 <= #1 _r2 - _r0;
								$display("SUB R2 R0");
							end
							R1 : begin
								_r2 <= #1 _r2 - _r1;
								$display("SUB R2 R1");
							end
							R2 : begin
								_r2 <= #1 _r2 - _r2;
								$display("SUB R2 R2");
							end
							R3 : begin
								_r2 <= #1 _r2 - _r3;
								$display("SUB R2 R3");
							end
							endcase
						end
						R3 : begin
							case (current_instruction[15:14])
							R0 : begin
								_r3 <= #1 _r3 - _r0;
								$display("SUB R3 R0");
							end
							R1 : begin
								_r3 <= #1 _r3 - _r1;
								$display("SUB R3 R1");
							end
							R2 : begin
								_r3 <= #1 _r3 - _r2;
								$display("SUB R3 R2");
							end
							R3 : begin
								_r3 <= #1 _r3 - _r3;
								$display("SUB R3 R3");
							end
							endcase
						end
						endcase
						_pc <= #1 _pc + 1'b1;
					end
					MULT: begin
						case (current_instruction[17:16])
						R0 : begin
							case (current_instruction[15:14])
							R0 : begin
								_r0 <= #1 _r0 * _r0;
								$display("MULT R0 R0");
							end
							R1 : begin
								_r0 <= #1 _r1 * _r0;
								$display("MULT R0 R1");
							end
							R2 : begin
								_r0 <= #1 _r2 * _r0;
								$display("MULT R0 R2");
							end
							R3 : begin
								_r0 <= #1 _r3 * _r0;
								$display("MULT R0 R3");
							end
							endcase
						end
						R1 : begin
							case (current_instruction[15:14])
							R0 : begin
								_r1 <= #1 _r0 * _r1;
								$display("MULT R1 R0");
							end
							R1 : begin
								_r1 <= #1 _r1 * _r1;
								$display("MULT R1 R1");
							end
							R2 : begin
								_r1 <= #1 _r2 * _r1;
								$display("MULT R1 R2");
							end
							R3 : begin
								_r1 <= #1 _r3 * _r1;
								$display("MULT R1 R3");
							end
							endcase
						end
						R2 : begin
							case (current_instruction[15:14])
							R0 : begin
								_r2 <= #1 _r0 * _r2;
								$display("MULT R2 R0");
							end
							R1 : begin
								_r2 <= #1 _r1 * _r2;
								$display("MULT R2 R1");
							end
							R2 : begin
								_r2 <= #1 _r2 * _r2;
								$display("MULT R2 R2");
							end
							R3 : begin
								_r2 <= #1 _r3 * _r2;
								$display("MULT R2 R3");
							end
							endcase
						end
						R3 : begin
							case (current_instruction[15:14])
							R0 : begin
								_r3 <= #1 _r0 * _r3;
								$display("MULT R3 R0");
							end
							R1 : begin
								_r3 <= #1 _r1 * _r3;
								$display("MULT R3 R1");
							end
							R2 : begin
								_r3 <= #1 _r2 * _r3;
								$display("MULT R3 R2");
							end
							R3 : begin
								_r3 <= #1 _r3 * _r3;
								$display("MULT R3 R3");
							end
							endcase
						end
						endcase
						_pc <= #1 _pc + 1'b1;
					end
					DIV: begin
						case (current_instruction[17:16])
						R0 : begin
							case (current_instruction[15:14])
							R0 : begin
								_r0 <= #1 _r0 / _r0;
								$display("DIV R0 R0");
							end
							R1 : begin
								_r0 <= #1 _r0 / _r1;
								$display("DIV R0 R1");
							end
							R2 : begin
								_r0 <= #1 _r0 / _r2;
								$display("DIV R0 R2");
							end
							R3 : begin
								_r0 <= #1 _r0 / _r3;
								$display("DIV R0 R3");
							end
							endcase
						end
						R1 : begin
							case (current_instruction[15:14])
							R0 : begin
								_r1 <= #1 _r1 / _r0;
								$display("DIV R1 R0");
							end
							R1 : begin
								_r1 <= #1 _r1 / _r1;
								$display("DIV R1 R1");
							end
							R2 : begin
								_r1 <= #1 _r1 / _r2;
								$display("DIV R1 R2");
							end
							R3 : begin
								_r1 <= #1 _r1 / _r3;
								$display("DIV R1 R3");
							end
							endcase
						end
						R2 : begin
							case (current_instruction[15:14])
							R0 : begin
								_r2 <= #1 _r2 / _r0;
								$display("DIV R2 R0");
							end
							R1 : begin
								_r2 <= #1 _r2 / _r1;
								$display("DIV R2 R1");
							end
							R2 : begin
								_r2 <= #1 _r2 / _r2;
								$display("DIV R2 R2");
							end
							R3 : begin
								_r2 <= #1 _r2 / _r3;
								$display("DIV R2 R3");
							end
							endcase
						end
						R3 : begin
							case (current_instruction[15:14])
							R0 : begin
								_r3 <= #1 _r3 / _r0;
								$display("DIV R3 R0");
							end
							R1 : begin
								_r3 <= #1 _r3 / _r1;
								$display("DIV R3 R1");
							end
							R2 : begin
								_r3 <= #1 _r3 / _r2;
								$display("DIV R3 R2");
							end
							R3 : begin
								_r3 <= #1 _r3 / _r3;
								$display("DIV R3 R3");
							end
							endcase
						end
						endcase
						_pc <= #1 _pc + 1'b1;
					end
					MOD: begin
						case (current_instruction[17:16])
						R0 : begin
							case (current_instruction[15:14])
							R0 : begin
								_r0 <= #1 _r0 % _r0;
								$display("MOD R0 R0");
							end
							R1 : begin
								_r0 <= #1 _r0 % _r1;
								$display("MOD R0 R1");
							end
							R2 : begin
								_r0 <= #1 _r0 % _r2;
								$display("MOD R0 R2");
							end
							R3 : begin
								_r0 <= #1 _r0 % _r3;
								$display("MOD R0 R3");
							end
							endcase
						end
						R1 : begin
							case (current_instruction[15:14])
							R0 : begin
								_r1 <= #1 _r1 % _r0;
								$display("MOD R1 R0");
							end
							R1 : begin
								_r1 <= #1 _r1 % _r1;
								$display("MOD R1 R1");
							end
							R2 : begin
								_r1 <= #1 _r1 % _r2;
								$display("MOD R1 R2");
							end
							R3 : begin
								_r1 <= #1 _r1 % _r3;
								$display("MOD R1 R3");
							end
							endcase
						end
						R2 : begin
							case (current_instruction[15:14])
							R0 : begin
								_r2 <= #1 _r2 % _r0;
								$display("MOD R2 R0");
							end
							R1 : begin
								_r2 <= #1 _r2 % _r1;
								$display("MOD R2 R1");
							end
							R2 : begin
								_r2 <= #1 _r2 % _r2;
								$display("MOD R2 R2");
							end
							R3 : begin
								_r2 <= #1 _r2 % _r3;
								$display("MOD R2 R3");
							end
							endcase
						end
						R3 : begin
							case (current_instruction[15:14])
							R0 : begin
								_r3 <= #1 _r3 % _r0;
								$display("MOD R3 R0");
							end
							R1 : begin
								_r3 <= #1 _r3 % _r1;
								$display("MOD R3 R1");
							end
							R2 : begin
								_r3 <= #1 _r3 % _r2;
								$display("MOD R3 R2");
							end
							R3 : begin
								_r3 <= #1 _r3 % _r3;
								$display("MOD R3 R3");
							end
							endcase
						end
						endcase
						_pc <= #1 _pc + 1'b1;
					end
					AND: begin
						case (current_instruction[17:16])
						R0 : begin
							case (current_instruction[15:14])
							R0 : begin
								_r0 <= #1 _r0 & _r0;
								$display("AND R0 R0");
							end
							R1 : begin
								_r0 <= #1 _r1 & _r0;
								$display("AND R0 R1");
							end
							R2 : begin
								_r0 <= #1 _r2 & _r0;
								$display("AND R0 R2");
							end
							R3 : begin
								_r0 <= #1 _r3 & _r0;
								$display("AND R0 R3");
							end
							endcase
						end
						R1 : begin
							case (current_instruction[15:14])
							R0 : begin
								_r1 <= #1 _r0 & _r1;
								$display("AND R1 R0");
							end
							R1 : begin
								_r1 <= #1 _r1 & _r1;
								$display("AND R1 R1");
							end
							R2 : begin
								_r1 <= #1 _r2 & _r1;
								$display("AND R1 R2");
							end
							R3 : begin
								_r1 <= #1 _r3 & _r1;
								$display("AND R1 R3");
							end
							endcase
						end
						R2 : begin
							case (current_instruction[15:14])
							R0 : begin
								_r2 <= #1 _r0 & _r2;
								$display("AND R2 R0");
							end
							R1 : begin
								_r2 <= #1 _r1 & _r2;
								$display("AND R2 R1");
							end
							R2 : begin
								_r2 <= #1 _r2 & _r2;
								$display("AND R2 R2");
							end
							R3 : begin
								_r2 <= #1 _r3 & _r2;
								$display("AND R2 R3");
							end
							endcase
						end
						R3 : begin
							case (current_instruction[15:14])
							R0 : begin
								_r3 <= #1 _r0 & _r3;
								$display("AND R3 R0");
							end
							R1 : begin
								_r3 <= #1 _r1 & _r3;
								$display("AND R3 R1");
							end
							R2 : begin
								_r3 <= #1 _r2 & _r3;
								$display("AND R3 R2");
							end
							R3 : begin
								_r3 <= #1 _r3 & _r3;
								$display("AND R3 R3");
							end
							endcase
						end
						endcase
						_pc <= #1 _pc + 1'b1;
					end
					OR: begin
						case (current_instruction[17:16])
						R0 : begin
							case (current_instruction[15:14])
							R0 : begin
								_r0 <= #1 _r0 | _r0;
								$display("OR R0 R0");
							end
							R1 : begin
								_r0 <= #1 _r1 | _r0;
								$display("OR R0 R1");
							end
							R2 : begin
								_r0 <= #1 _r2 | _r0;
								$display("OR R0 R2");
							end
							R3 : begin
								_r0 <= #1 _r3 | _r0;
								$display("OR R0 R3");
							end
							endcase
						end
						R1 : begin
							case (current_instruction[15:14])
							R0 : begin
								_r1 <= #1 _r0 | _r1;
								$display("OR R1 R0");
							end
							R1 : begin
								_r1 <= #1 _r1 | _r1;
								$display("OR R1 R1");
							end
							R2 : begin
								_r1 <= #1 _r2 | _r1;
								$display("OR R1 R2");
							end
							R3 : begin
								_r1 <= #1 _r3 | _r1;
								$display("OR R1 R3");
							end
							endcase
						end
						R2 : begin
							case (current_instruction[15:14])
							R0 : begin
								_r2 <= #1 _r0 | _r2;
								$display("OR R2 R0");
							end
							R1 : begin
								_r2 <= #1 _r1 | _r2;
								$display("OR R2 R1");
							end
							R2 : begin
								_r2 <= #1 _r2 | _r2;
								$display("OR R2 R2");
							end
							R3 : begin
								_r2 <= #1 _r3 | _r2;
								$display("OR R2 R3");
							end
							endcase
						end
						R3 : begin
							case (current_instruction[15:14])
							R0 : begin
								_r3 <= #1 _r0 | _r3;
								$display("OR R3 R0");
							end
							R1 : begin
								_r3 <= #1 _r1 | _r3;
								$display("OR R3 R1");
							end
							R2 : begin
								_r3 <= #1 _r2 | _r3;
								$display("OR R3 R2");
							end
							R3 : begin
								_r3 <= #1 _r3 | _r3;
								$display("OR R3 R3");
							end
							endcase
						end
						endcase
						_pc <= #1 _pc + 1'b1;
					end
					XOR: begin
						case (current_instruction[17:16])
						R0 : begin
							case (current_instruction[15:14])
							R0 : begin
								_r0 <= #1 _r0 ^ _r0;
								$display("XOR R0 R0");
							end
							R1 : begin
								_r0 <= #1 _r1 ^ _r0;
								$display("XOR R0 R1");
							end
							R2 : begin
								_r0 <= #1 _r2 ^ _r0;
								$display("XOR R0 R2");
							end
							R3 : begin
								_r0 <= #1 _r3 ^ _r0;
								$display("XOR R0 R3");
							end
							endcase
						end
						R1 : begin
							case (current_instruction[15:14])
							R0 : begin
								_r1 <= #1 _r0 ^ _r1;
								$display("XOR R1 R0");
							end
							R1 : begin
								_r1 <= #1 _r1 ^ _r1;
								$display("XOR R1 R1");
							end
							R2 : begin
								_r1 <= #1 _r2 ^ _r1;
								$display("XOR R1 R2");
							end
							R3 : begin
								_r1 <= #1 _r3 ^ _r1;
								$display("XOR R1 R3");
							end
							endcase
						end
						R2 : begin
							case (current_instruction[15:14])
							R0 : begin
								_r2 <= #1 _r0 ^ _r2;
								$display("XOR R2 R0");
							end
							R1 : begin
								_r2 <= #1 _r1 ^ _r2;
								$display("XOR R2 R1");
							end
							R2 : begin
								_r2 <= #1 _r2 ^ _r2;
								$display("XOR R2 R2");
							end
							R3 : begin
								_r2 <= #1 _r3 ^ _r2;
								$display("XOR R2 R3");
							end
							endcase
						end
						R3 : begin
							case (current_instruction[15:14])
							R0 : begin
								_r3 <= #1 _r0 ^ _r3;
								$display("XOR R3 R0");
							end
							R1 : begin
								_r3 <= #1 _r1 ^ _r3;
								$display("XOR R3 R1");
							end
							R2 : begin
								_r3 <= #1 _r2 ^ _r3;
								$display("XOR R3 R2");
							end
							R3 : begin
								_r3 <= #1 _r3 ^ _r3;
								$display("XOR R3 R3");
							end
							endcase
						end
						endcase
						_pc <= #1 _pc + 1'b1;
					end
					NOT: begin
						case (current_instruction[17:16])
						R0 : begin
							case (current_instruction[15:14])
							R0 : begin
								_r0 <= #1 ~ _r0;
								$display("NOT R0");
							end
							R1 : begin
								_r0 <= #1 ~ _r1;
								$display("NOT R1");
							end
							R2 : begin
								_r0 <= #1 ~ _r2;
								$display("NOT R2");
							end
							R3 : begin
								_r0 <= #1 ~ _r3;
								$display("NOT R3");
							end
							endcase
						end
						R1 : begin
							case (current_instruction[15:14])
							R0 : begin
								_r1 <= #1 ~ _r0;
								$display("NOT R0");
							end
							R1 : begin
								_r1 <= #1 ~ _r1;
								$display("NOT R1");
							end
							R2 : begin
								_r1 <= #1 ~ _r2;
								$display("NOT R2");
							end
							R3 : begin
								_r1 <= #1 ~ _r3;
								$display("NOT R3");
							end
							endcase
						end
						R2 : begin
							case (current_instruction[15:14])
							R0 : begin
								_r2 <= #1 ~ _r0;
								$display("NOT R0");
							end
							R1 : begin
								_r2 <= #1 ~ _r1;
								$display("NOT R1");
							end
							R2 : begin
								_r2 <= #1 ~ _r2;
								$display("NOT R2");
							end
							R3 : begin
								_r2 <= #1 ~ _r3;
								$display("NOT R3");
							end
							endcase
						end
						R3 : begin
							case (current_instruction[15:14])
							R0 : begin
								_r3 <= #1 ~ _r0;
								$display("NOT R0");
							end
							R1 : begin
								_r3 <= #1 ~ _r1;
								$display("NOT R1");
							end
							R2 : begin
								_r3 <= #1 ~ _r2;
								$display("NOT R2");
							end
							R3 : begin
								_r3 <= #1 ~ _r3;
								$display("NOT R3");
							end
							endcase
						end
						endcase
						_pc <= #1 _pc + 1'b1;
					end
					NAND: begin
						case (current_instruction[17:16])
						R0 : begin
							case (current_instruction[15:14])
							R0 : begin
								_r0 <= #1 ~(_r0 & _r0);
								$display("NAND R0 R0");
							end
							R1 : begin
								_r0 <= #1 ~(_r1 & _r0);
								$display("NAND R0 R1");
							end
							R2 : begin
								_r0 <= #1 ~(_r2 & _r0);
								$display("NAND R0 R2");
							end
							R3 : begin
								_r0 <= #1 ~(_r3 & _r0);
								$display("NAND R0 R3");
							end
							endcase
						end
						R1 : begin
							case (current_instruction[15:14])
							R0 : begin
								_r1 <= #1 ~(_r0 & _r1);
								$display("NAND R1 R0");
							end
							R1 : begin
								_r1 <= #1 ~(_r1 & _r1);
								$display("NAND R1 R1");
							end
							R2 : begin
								_r1 <= #1 ~(_r2 & _r1);
								$display("NAND R1 R2");
							end
							R3 : begin
								_r1 <= #1 ~(_r3 & _r1);
								$display("NAND R1 R3");
							end
							endcase
						end
						R2 : begin
							case (current_instruction[15:14])
							R0 : begin
								_r2 <= #1 ~(_r0 & _r2);
								$display("NAND R2 R0");
							end
							R1 : begin
								_r2 <= #1 ~(_r1 & _r2);
								$display("NAND R2 R1");
							end
							R2 : begin
								_r2 <= #1 ~(_r2 & _r2);
								$display("NAND R2 R2");
							end
							R3 : begin
								_r2 <= #1 ~(_r3 & _r2);
								$display("NAND R2 R3");
							end
							endcase
						end
						R3 : begin
							case (current_instruction[15:14])
							R0 : begin
								_r3 <= #1 ~(_r0 & _r3);
								$display("NAND R3 R0");
							end
							R1 : begin
								_r3 <= #1 ~(_r1 & _r3);
								$display("NAND R3 R1");
							end
							R2 : begin
								_r3 <= #1 ~(_r2 & _r3);
								$display("NAND R3 R2");
							end
							R3 : begin
								_r3 <= #1 ~(_r3 & _r3);
								$display("NAND R3 R3");
							end
							endcase
						end
						endcase
						_pc <= #1 _pc + 1'b1;
					end
					NOR: begin
						case (current_instruction[17:16])
						R0 : begin
							case (current_instruction[15:14])
							R0 : begin
								_r0 <= #1 ~(_r0 | _r0);
								$display("NOR R0 R0");
							end
							R1 : begin
								_r0 <= #1 ~(_r1 | _r0);
								$display("NOR R0 R1");
							end
							R2 : begin
								_r0 <= #1 ~(_r2 | _r0);
								$display("NOR R0 R2");
							end
							R3 : begin
								_r0 <= #1 ~(_r3 | _r0);
								$display("NOR R0 R3");
							end
							endcase
						end
						R1 : begin
							case (current_instruction[15:14])
							R0 : begin
								_r1 <= #1 ~(_r0 | _r1);
								$display("NOR R1 R0");
							end
							R1 : begin
								_r1 <= #1 ~(_r1 | _r1);
								$display("NOR R1 R1");
							end
							R2 : begin
								_r1 <= #1 ~(_r2 | _r1);
								$display("NOR R1 R2");
							end
							R3 : begin
								_r1 <= #1 ~(_r3 | _r1);
								$display("NOR R1 R3");
							end
							endcase
						end
						R2 : begin
							case (current_instruction[15:14])
							R0 : begin
								_r2 <= #1 ~(_r0 | _r2);
								$display("NOR R2 R0");
							end
							R1 : begin
								_r2 <= #1 ~(_r1 | _r2);
								$display("NOR R2 R1");
							end
							R2 : begin
								_r2 <= #1 ~(_r2 | _r2);
								$display("NOR R2 R2");
							end
							R3 : begin
								_r2 <= #1 ~(_r3 | _r2);
								$display("NOR R2 R3");
							end
							endcase
						end
						R3 : begin
							case (current_instruction[15:14])
							R0 : begin
								_r3 <= #1 ~(_r0 | _r3);
								$display("NOR R3 R0");
							end
							R1 : begin
								_r3 <= #1 ~(_r1 | _r3);
								$display("NOR R3 R1");
							end
							R2 : begin
								_r3 <= #1 ~(_r2 | _r3);
								$display("NOR R3 R2");
							end
							R3 : begin
								_r3 <= #1 ~(_r3 | _r3);
								$display("NOR R3 R3");
							end
							endcase
						end
						endcase
						_pc <= #1 _pc + 1'b1;
					end
					XNOR: begin
						case (current_instruction[17:16])
						R0 : begin
							case (current_instruction[15:14])
							R0 : begin
								_r0 <= #1 ~(_r0 ^ _r0);
								$display("XNOR R0 R0");
							end
							R1 : begin
								_r0 <= #1 ~(_r1 ^ _r0);
								$display("XNOR R0 R1");
							end
							R2 : begin
								_r0 <= #1 ~(_r2 ^ _r0);
								$display("XNOR R0 R2");
							end
							R3 : begin
								_r0 <= #1 ~(_r3 ^ _r0);
								$display("XNOR R0 R3");
							end
							endcase
						end
						R1 : begin
							case (current_instruction[15:14])
							R0 : begin
								_r1 <= #1 ~(_r0 ^ _r1);
								$display("XNOR R1 R0");
							end
							R1 : begin
								_r1 <= #1 ~(_r1 ^ _r1);
								$display("XNOR R1 R1");
							end
							R2 : begin
								_r1 <= #1 ~(_r2 ^ _r1);
								$display("XNOR R1 R2");
							end
							R3 : begin
								_r1 <= #1 ~(_r3 ^ _r1);
								$display("XNOR R1 R3");
							end
							endcase
						end
						R2 : begin
							case (current_instruction[15:14])
							R0 : begin
								_r2 <= #1 ~(_r0 ^ _r2);
								$display("XNOR R2 R0");
							end
							R1 : begin
								_r2 <= #1 ~(_r1 ^ _r2);
								$display("XNOR R2 R1");
							end
							R2 : begin
								_r2 <= #1 ~(_r2 ^ _r2);
								$display("XNOR R2 R2");
							end
							R3 : begin
								_r2 <= #1 ~(_r3 ^ _r2);
								$display("XNOR R2 R3");
							end
							endcase
						end
						R3 : begin
							case (current_instruction[15:14])
							R0 : begin
								_r3 <= #1 ~(_r0 ^ _r3);
								$display("XNOR R3 R0");
							end
							R1 : begin
								_r3 <= #1 ~(_r1 ^ _r3);
								$display("XNOR R3 R1");
							end
							R2 : begin
								_r3 <= #1 ~(_r2 ^ _r3);
								$display("XNOR R3 R2");
							end
							R3 : begin
								_r3 <= #1 ~(_r3 ^ _r3);
								$display("XNOR R3 R3");
							end
							endcase
						end
						endcase
						_pc <= #1 _pc + 1'b1;
					end
					CPY: begin
						case (current_instruction[17:16])
						R0 : begin
							case (current_instruction[15:14])
							R0 : begin
								_r0 <= #1 _r0;
								$display("CPY R0 R0");
							end
							R1 : begin
								_r0 <= #1 _r1;
								$display("CPY R0 R1");
							end
							R2 : begin
								_r0 <= #1 _r2;
								$display("CPY R0 R2");
							end
							R3 : begin
								_r0 <= #1 _r3;
								$display("CPY R0 R3");
							end
							endcase
						end
						R1 : begin
							case (current_instruction[15:14])
							R0 : begin
								_r1 <= #1 _r0;
								$display("CPY R1 R0");
							end
							R1 : begin
								_r1 <= #1 _r1;
								$display("CPY R1 R1");
							end
							R2 : begin
								_r1 <= #1 _r2;
								$display("CPY R1 R2");
							end
							R3 : begin
								_r1 <= #1 _r3;
								$display("CPY R1 R3");
							end
							endcase
						end
						R2 : begin
							case (current_instruction[15:14])
							R0 : begin
								_r2 <= #1 _r0;
								$display("CPY R2 R0");
							end
							R1 : begin
								_r2 <= #1 _r1;
								$display("CPY R2 R1");
							end
							R2 : begin
								_r2 <= #1 _r2;
								$display("CPY R2 R2");
							end
							R3 : begin
								_r2 <= #1 _r3;
								$display("CPY R2 R3");
							end
							endcase
						end
						R3 : begin
							case (current_instruction[15:14])
							R0 : begin
								_r3 <= #1 _r0;
								$display("CPY R3 R0");
							end
							R1 : begin
								_r3 <= #1 _r1;
								$display("CPY R3 R1");
							end
							R2 : begin
								_r3 <= #1 _r2;
								$display("CPY R3 R2");
							end
							R3 : begin
								_r3 <= #1 _r3;
								$display("CPY R3 R3");
							end
							endcase
						end
						endcase
						_pc <= #1 _pc + 1'b1;
					end
					CLR: begin
						case (current_instruction[17:16])
						R0 : begin
							_r0 <= #1 'b0;
							$display("CLR R0");
						end
						R1 : begin
							_r1 <= #1 'b0;
							$display("CLR R1");
						end
						R2 : begin
							_r2 <= #1 'b0;
							$display("CLR R2");
						end
						R3 : begin
							_r3 <= #1 'b0;
							$display("CLR R3");
						end
						endcase
						_pc <= #1 _pc + 1'b1;
					end
					DEC: begin
						case (current_instruction[17:16])
						R0 : begin
							_r0 <= _r0 - 1'b1;
							$display("DEC R0");
						end
						R1 : begin
							_r1 <= _r1 - 1'b1;
							$display("DEC R1");
						end
						R2 : begin
							_r2 <= _r2 - 1'b1;
							$display("DEC R2");
						end
						R3 : begin
							_r3 <= _r3 - 1'b1;
							$display("DEC R3");
						end
						endcase
						_pc <= #1 _pc + 1'b1;
					end
					INC: begin
						case (current_instruction[17:16])
						R0 : begin
							_r0 <= #1 _r0 + 1'b1;
							$display("INC R0");
						end
						R1 : begin
							_r1 <= #1 _r1 + 1'b1;
							$display("INC R1");
						end
						R2 : begin
							_r2 <= #1 _r2 + 1'b1;
							$display("INC R2");
						end
						R3 : begin
							_r3 <= #1 _r3 + 1'b1;
							$display("INC R3");
						end
						endcase
						_pc <= #1 _pc + 1'b1;
					end
					JZ: begin
						case (current_instruction[17:16])
							R0 : begin
								if(_r0 == 'b0) begin
								_pc <= #1 current_instruction[15:11];
								end
								else begin
									_pc <= #1 _pc + 1'b1;
								end
								$display("JZ R0 ",_r0);
							end
							R1 : begin
								if(_r1 == 'b0) begin
								_pc <= #1 current_instruction[15:11];
								end
								else begin
									_pc <= #1 _pc + 1'b1;
								end
								$display("JZ R1 ",_r1);
							end
							R2 : begin
								if(_r2 == 'b0) begin
								_pc <= #1 current_instruction[15:11];
								end
								else begin
									_pc <= #1 _pc + 1'b1;
								end
								$display("JZ R2 ",_r2);
							end
							R3 : begin
								if(_r3 == 'b0) begin
								_pc <= #1 current_instruction[15:11];
								end
								else begin
									_pc <= #1 _pc + 1'b1;
								end
								$display("JZ R3 ",_r3);
							end
						endcase
					end
					J: begin
						_pc <= #1 current_instruction[17:13];
						$display("J ", current_instruction[17:13]);
					end
					R2O: begin
						case (current_instruction[17:16])
						R0 : begin
							case (current_instruction[15])
							O0 : begin
								_auxo0 <= #1 _r0;
								$display("R2O R0 O0");
							end
							endcase
						end
						R1 : begin
							case (current_instruction[15])
							O0 : begin
								_auxo0 <= #1 _r1;
								$display("R2O R1 O0");
							end
							endcase
						end
						R2 : begin
							case (current_instruction[15])
							O0 : begin
								_auxo0 <= #1 _r2;
								$display("R2O R2 O0");
							end
							endcase
						end
						R3 : begin
							case (current_instruction[15])
							O0 : begin
								_auxo0 <= #1 _r3;
								$display("R2O R3 O0");
							end
							endcase
						end
						endcase
						_pc <= #1 _pc + 1'b1;
					end
					CIL: begin
						case (current_instruction[17:16])
						R0 : begin
								_r0 <= #1 _r0<< 1'b1;
								$display("CIL R0");
						end
						R1 : begin
								_r1 <= #1 _r1<< 1'b1;
								$display("CIL R1");
						end
						R2 : begin
								_r2 <= #1 _r2<< 1'b1;
								$display("CIL R2");
						end
						R3 : begin
								_r3 <= #1 _r3<< 1'b1;
								$display("CIL R3");
						end
						endcase
						_pc <= #1 _pc + 1'b1;
					end
					CIR: begin
						case (current_instruction[17:16])
						R0 : begin
								_r0 <= #1 _r0>> 1'b1;
								$display("CIR R0");
						end
						R1 : begin
								_r1 <= #1 _r1>> 1'b1;
								$display("CIR R1");
						end
						R2 : begin
								_r2 <= #1 _r2>> 1'b1;
								$display("CIR R2");
						end
						R3 : begin
								_r3 <= #1 _r3>> 1'b1;
								$display("CIR R3");
						end
						endcase
						_pc <= #1 _pc + 1'b1;
					end
					CIRN: begin
						case (current_instruction[17:16])
						R0 : begin
								_r0 <= #1 _r0>>> 1'b1;
								$display("CIRN R0");
						end
						R1 : begin
								_r1 <= #1 _r1>>> 1'b1;
								$display("CIRN R1");
						end
						R2 : begin
								_r2 <= #1 _r2>>> 1'b1;
								$display("CIRN R2");
						end
						R3 : begin
								_r3 <= #1 _r3>>> 1'b1;
								$display("CIRN R3");
						end
						endcase
						_pc <= #1 _pc + 1'b1;
					end
					NOP: begin
						$display("NOP");
						_pc <= #1 _pc + 1'b1;
					end
				HLT: begin
					$display("HLT");
				end
					default : begin
						$display("Unknown Opcode");
						_pc <= #1 _pc + 1'b1;
					end
				endcase
			// ha placeholder
		end
	end
	assign rom_bus = _pc;
	assign o0 = _auxo0;
	assign o0_valid = o0_val;
endmodule
