`timescale 1ns/1ps
module p0(clock_signal, reset_signal, rom_bus, rom_value, ram_din, ram_dout, ram_addr, ram_wren, ram_en, o0, o0_valid, o0_received);

	input clock_signal;
	input reset_signal;
	output  [4:0] rom_bus;
	input  [69:0] rom_value;
	input  [63:0] ram_dout;
	output [63:0] ram_din;
	output  [2:0] ram_addr;
	output ram_wren, ram_en;

	output [63:0] o0;
	output o0_valid;
	input o0_received;

			// Opcodes in the instructions, length according the number of the selected.
	localparam	RSET=4'b0000,          // Register set value
			R2M=4'b0001,          // Copy a register value to the ram
			M2R=4'b0010,          // Memory to register copy
			INC=4'b0011,          // Increment a register by 1
			DEC=4'b0100,          // Decrement a register by 1
			R2O=4'b0101,          // Register to output
			J=4'b0110,          // Jump to a program location
			JZ=4'b0111,          // Zero conditional jump
			ADC=4'b1000,          // Register adc
			SBC=4'b1001,          // Register sbc
			RSC=4'b1010,          // Register rsc
			MULC=4'b1011,          // Register mul with control on carry-bit
			JC=4'b1100,          // Jump to a program location if carry-bit is 0
			ADD=4'b1101,          // Register add
			CPY=4'b1110;          // Copy from a register to another

	localparam	R0=2'b00,		// Registers in the intructions
			R1=2'b01,
			R2=2'b10,
			R3=2'b11;
	localparam			O0=1'b0;
	reg [63:0] _auxo0;

	reg [63:0] _ram [0:7];		// Internal processor RAM

	(* KEEP = "TRUE" *) reg [4:0] _pc;		// Program counter

	// The number of registers are 2^R, two letters and an underscore as identifier , maximum R=8 and 265 rigisters
	(* KEEP = "TRUE" *) reg [63:0] _r0;
	(* KEEP = "TRUE" *) reg [63:0] _r1;
	(* KEEP = "TRUE" *) reg [63:0] _r2;
	(* KEEP = "TRUE" *) reg [63:0] _r3;

	wire [69:0] current_instruction;
	assign current_instruction=rom_value;

	reg [2:0] addr_ram_to_mem;
	reg [63:0] ram_din_i;
	reg wr_int_ram;
	//Internal Reg Wire for M2R opcode
	reg state_read_mem;
	wire [2:0] addr_ram_m2r;


	reg o0_val;
	reg waitsm;
	initial waitsm = 1'b0;

	always @(posedge clock_signal, posedge reset_signal)
	begin
		if (reset_signal)
		begin
			o0_val <= #1 1'b0;
		end
		else
		begin
			case(current_instruction[69:66])
				R2O: begin
					case (current_instruction[63])
					O0 : begin
						o0_val <= 1'b1;
					end
					default: begin
						if (o0_received)
						begin
							o0_val <= #1 1'b0;
						end
					end
					endcase
				end
				default: begin
					if (o0_received)
					begin
						o0_val <= #1 1'b0;
					end
				end
			endcase
		end
	end
	reg carryflag;

	always @(posedge clock_signal, posedge reset_signal)
	begin
		if(reset_signal)
		begin
			_pc <= #1 5'h0;
			_r0 <= #1 64'h0;
			_r1 <= #1 64'h0;
			_r2 <= #1 64'h0;
			_r3 <= #1 64'h0;
			state_read_mem <= #1 1'b0;
		end
		else begin
			// ha placeholder
			$display("Program Counter:%d", _pc);
			$display("Instruction:%b", rom_value);
			$display("Registers r0:%b r1:%b r2:%b r3:%b ", _r0, _r1, _r2, _r3);
				case(current_instruction[69:66])
					RSET: begin
						case (current_instruction[65:64])
						R0 : begin
							_r0 <= #1 current_instruction[63:0];
							$display("RSET R0 ",_r0);
						end
						R1 : begin
							_r1 <= #1 current_instruction[63:0];
							$display("RSET R1 ",_r1);
						end
						R2 : begin
							_r2 <= #1 current_instruction[63:0];
							$display("RSET R2 ",_r2);
						end
						R3 : begin
							_r3 <= #1 current_instruction[63:0];
							$display("RSET R3 ",_r3);
						end
						endcase
						_pc <= #1 _pc + 1'b1;
					end
					R2M: begin
						if (wr_int_ram == 0) begin
							wr_int_ram <= #1 1'b1;
							case (current_instruction[65:64])
							R0 : begin
								addr_ram_to_mem <= current_instruction[63:61];
								ram_din_i <= _r0;
								$display("R2M R0 ",_r0);
							end
							R1 : begin
								addr_ram_to_mem <= current_instruction[63:61];
								ram_din_i <= _r1;
								$display("R2M R1 ",_r1);
							end
							R2 : begin
								addr_ram_to_mem <= current_instruction[63:61];
								ram_din_i <= _r2;
								$display("R2M R2 ",_r2);
							end
							R3 : begin
								addr_ram_to_mem <= current_instruction[63:61];
								ram_din_i <= _r3;
								$display("R2M R3 ",_r3);
							end
							endcase
						end
						else begin
							wr_int_ram <= #1 1'b0;
							_pc <= #1 _pc + 1'b1;
						end
					end
					M2R: begin
						if (state_read_mem == 0) begin
							state_read_mem <= #1 1'b1;
						end
						else begin
							state_read_mem <= #1 1'b0;
							_pc <= #1 _pc + 1'b1;
							case (current_instruction[65:64])
								R0 : begin
									_r0 <= #1 ram_dout;
									$display("M2R R0 ",_r0);
								end
								R1 : begin
									_r1 <= #1 ram_dout;
									$display("M2R R1 ",_r1);
								end
								R2 : begin
									_r2 <= #1 ram_dout;
									$display("M2R R2 ",_r2);
								end
								R3 : begin
									_r3 <= #1 ram_dout;
									$display("M2R R3 ",_r3);
								end
							endcase
						end
					end
					INC: begin
						case (current_instruction[65:64])
						R0 : begin
							_r0 <= #1 _r0 + 1'b1;
							$display("INC R0");
						end
						R1 : begin
							_r1 <= #1 _r1 + 1'b1;
							$display("INC R1");
						end
						R2 : begin
							_r2 <= #1 _r2 + 1'b1;
							$display("INC R2");
						end
						R3 : begin
							_r3 <= #1 _r3 + 1'b1;
							$display("INC R3");
						end
						endcase
						_pc <= #1 _pc + 1'b1;
					end
					DEC: begin
						case (current_instruction[65:64])
						R0 : begin
							_r0 <= _r0 - 1'b1;
							$display("DEC R0");
						end
						R1 : begin
							_r1 <= _r1 - 1'b1;
							$display("DEC R1");
						end
						R2 : begin
							_r2 <= _r2 - 1'b1;
							$display("DEC R2");
						end
						R3 : begin
							_r3 <= _r3 - 1'b1;
							$display("DEC R3");
						end
						endcase
						_pc <= #1 _pc + 1'b1;
					end
					R2O: begin
						case (current_instruction[65:64])
						R0 : begin
							case (current_instruction[63])
							O0 : begin
								_auxo0 <= #1 _r0;
								$display("R2O R0 O0");
							end
							endcase
						end
						R1 : begin
							case (current_instruction[63])
							O0 : begin
								_auxo0 <= #1 _r1;
								$display("R2O R1 O0");
							end
							endcase
						end
						R2 : begin
							case (current_instruction[63])
							O0 : begin
								_auxo0 <= #1 _r2;
								$display("R2O R2 O0");
							end
							endcase
						end
						R3 : begin
							case (current_instruction[63])
							O0 : begin
								_auxo0 <= #1 _r3;
								$display("R2O R3 O0");
							end
							endcase
						end
						endcase
						_pc <= #1 _pc + 1'b1;
					end
					J: begin
						_pc <= #1 current_instruction[65:61];
						$display("J ", current_instruction[65:61]);
					end
					JZ: begin
						case (current_instruction[65:64])
							R0 : begin
								if(_r0 == 'b0) begin
								_pc <= #1 current_instruction[63:59];
								end
								else begin
									_pc <= #1 _pc + 1'b1;
								end
								$display("JZ R0 ",_r0);
							end
							R1 : begin
								if(_r1 == 'b0) begin
								_pc <= #1 current_instruction[63:59];
								end
								else begin
									_pc <= #1 _pc + 1'b1;
								end
								$display("JZ R1 ",_r1);
							end
							R2 : begin
								if(_r2 == 'b0) begin
								_pc <= #1 current_instruction[63:59];
								end
								else begin
									_pc <= #1 _pc + 1'b1;
								end
								$display("JZ R2 ",_r2);
							end
							R3 : begin
								if(_r3 == 'b0) begin
								_pc <= #1 current_instruction[63:59];
								end
								else begin
									_pc <= #1 _pc + 1'b1;
								end
								$display("JZ R3 ",_r3);
							end
						endcase
					end
					ADC: begin
						case (current_instruction[65:64])
						R0 : begin
							case (current_instruction[63:62])
							R0 : begin
								{ carryflag, _r0} <= #1 { 1'b0, _r0} + {1'b0,  _r0};
								$display("ADC R0 R0");
							end
							R1 : begin
								{ carryflag, _r0} <= #1 { 1'b0, _r1} + {1'b0,  _r0};
								$display("ADC R0 R1");
							end
							R2 : begin
								{ carryflag, _r0} <= #1 { 1'b0, _r2} + {1'b0,  _r0};
								$display("ADC R0 R2");
							end
							R3 : begin
								{ carryflag, _r0} <= #1 { 1'b0, _r3} + {1'b0,  _r0};
								$display("ADC R0 R3");
							end
							endcase
						end
						R1 : begin
							case (current_instruction[63:62])
							R0 : begin
								{ carryflag, _r1} <= #1 { 1'b0, _r0} + {1'b0,  _r1};
								$display("ADC R1 R0");
							end
							R1 : begin
								{ carryflag, _r1} <= #1 { 1'b0, _r1} + {1'b0,  _r1};
								$display("ADC R1 R1");
							end
							R2 : begin
								{ carryflag, _r1} <= #1 { 1'b0, _r2} + {1'b0,  _r1};
								$display("ADC R1 R2");
							end
							R3 : begin
								{ carryflag, _r1} <= #1 { 1'b0, _r3} + {1'b0,  _r1};
								$display("ADC R1 R3");
							end
							endcase
						end
						R2 : begin
							case (current_instruction[63:62])
							R0 : begin
								{ carryflag, _r2} <= #1 { 1'b0, _r0} + {1'b0,  _r2};
								$display("ADC R2 R0");
							end
							R1 : begin
								{ carryflag, _r2} <= #1 { 1'b0, _r1} + {1'b0,  _r2};
								$display("ADC R2 R1");
							end
							R2 : begin
								{ carryflag, _r2} <= #1 { 1'b0, _r2} + {1'b0,  _r2};
								$display("ADC R2 R2");
							end
							R3 : begin
								{ carryflag, _r2} <= #1 { 1'b0, _r3} + {1'b0,  _r2};
								$display("ADC R2 R3");
							end
							endcase
						end
						R3 : begin
							case (current_instruction[63:62])
							R0 : begin
								{ carryflag, _r3} <= #1 { 1'b0, _r0} + {1'b0,  _r3};
								$display("ADC R3 R0");
							end
							R1 : begin
								{ carryflag, _r3} <= #1 { 1'b0, _r1} + {1'b0,  _r3};
								$display("ADC R3 R1");
							end
							R2 : begin
								{ carryflag, _r3} <= #1 { 1'b0, _r2} + {1'b0,  _r3};
								$display("ADC R3 R2");
							end
							R3 : begin
								{ carryflag, _r3} <= #1 { 1'b0, _r3} + {1'b0,  _r3};
								$display("ADC R3 R3");
							end
							endcase
						end
						endcase
						_pc <= #1 _pc + 1'b1;
					end
					SBC: begin
						case (current_instruction[65:64])
						R0 : begin
							case (current_instruction[63:62])
							R0 : begin
								{ carryflag, _r0} <= #1 { 1'b0, _r0} - {1'b0,  _r0};
								$display("SBC R0 R0");
							end
							R1 : begin
								{ carryflag, _r0} <= #1 { 1'b0, _r0} - {1'b0,  _r1};
								$display("SBC R0 R1");
							end
							R2 : begin
								{ carryflag, _r0} <= #1 { 1'b0, _r0} - {1'b0,  _r2};
								$display("SBC R0 R2");
							end
							R3 : begin
								{ carryflag, _r0} <= #1 { 1'b0, _r0} - {1'b0,  _r3};
								$display("SBC R0 R3");
							end
							endcase
						end
						R1 : begin
							case (current_instruction[63:62])
							R0 : begin
								{ carryflag, _r1} <= #1 { 1'b0, _r1} - {1'b0,  _r0};
								$display("SBC R1 R0");
							end
							R1 : begin
								{ carryflag, _r1} <= #1 { 1'b0, _r1} - {1'b0,  _r1};
								$display("SBC R1 R1");
							end
							R2 : begin
								{ carryflag, _r1} <= #1 { 1'b0, _r1} - {1'b0,  _r2};
								$display("SBC R1 R2");
							end
							R3 : begin
								{ carryflag, _r1} <= #1 { 1'b0, _r1} - {1'b0,  _r3};
								$display("SBC R1 R3");
							end
							endcase
						end
						R2 : begin
							case (current_instruction[63:62])
							R0 : begin
								{ carryflag, _r2} <= #1 { 1'b0, _r2} - {1'b0,  _r0};
								$display("SBC R2 R0");
							end
							R1 : begin
								{ carryflag, _r2} <= #1 { 1'b0, _r2} - {1'b0,  _r1};
								$display("SBC R2 R1");
							end
							R2 : begin
								{ carryflag, _r2} <= #1 { 1'b0, _r2} - {1'b0,  _r2};
								$display("SBC R2 R2");
							end
							R3 : begin
								{ carryflag, _r2} <= #1 { 1'b0, _r2} - {1'b0,  _r3};
								$display("SBC R2 R3");
							end
							endcase
						end
						R3 : begin
							case (current_instruction[63:62])
							R0 : begin
								{ carryflag, _r3} <= #1 { 1'b0, _r3} - {1'b0,  _r0};
								$display("SBC R3 R0");
							end
							R1 : begin
								{ carryflag, _r3} <= #1 { 1'b0, _r3} - {1'b0,  _r1};
								$display("SBC R3 R1");
							end
							R2 : begin
								{ carryflag, _r3} <= #1 { 1'b0, _r3} - {1'b0,  _r2};
								$display("SBC R3 R2");
							end
							R3 : begin
								{ carryflag, _r3} <= #1 { 1'b0, _r3} - {1'b0,  _r3};
								$display("SBC R3 R3");
							end
							endcase
						end
						endcase
						_pc <= #1 _pc + 1'b1;
					end
					RSC: begin
						case (current_instruction[65:64])
						R0 : begin
							case (current_instruction[63:62])
							R0 : begin
								{ carryflag, _r0} <= #1 { 1'b0, _r0} - {1'b0,  _r0};
								$display("RSC R0 R0");
							end
							R1 : begin
								{ carryflag, _r0} <= #1 { 1'b0, _r1} - {1'b0,  _r0};
								$display("RSC R1 R0");
							end
							R2 : begin
								{ carryflag, _r0} <= #1 { 1'b0, _r2} - {1'b0,  _r0};
								$display("RSC R2 R0");
							end
							R3 : begin
								{ carryflag, _r0} <= #1 { 1'b0, _r3} - {1'b0,  _r0};
								$display("RSC R3 R0");
							end
							endcase
						end
						R1 : begin
							case (current_instruction[63:62])
							R0 : begin
								{ carryflag, _r1} <= #1 { 1'b0, _r0} - {1'b0,  _r1};
								$display("RSC R0 R1");
							end
							R1 : begin
								{ carryflag, _r1} <= #1 { 1'b0, _r1} - {1'b0,  _r1};
								$display("RSC R1 R1");
							end
							R2 : begin
								{ carryflag, _r1} <= #1 { 1'b0, _r2} - {1'b0,  _r1};
								$display("RSC R2 R1");
							end
							R3 : begin
								{ carryflag, _r1} <= #1 { 1'b0, _r3} - {1'b0,  _r1};
								$display("RSC R3 R1");
							end
							endcase
						end
						R2 : begin
							case (current_instruction[63:62])
							R0 : begin
								{ carryflag, _r2} <= #1 { 1'b0, _r0} - {1'b0,  _r2};
								$display("RSC R0 R2");
							end
							R1 : begin
								{ carryflag, _r2} <= #1 { 1'b0, _r1} - {1'b0,  _r2};
								$display("RSC R1 R2");
							end
							R2 : begin
								{ carryflag, _r2} <= #1 { 1'b0, _r2} - {1'b0,  _r2};
								$display("RSC R2 R2");
							end
							R3 : begin
								{ carryflag, _r2} <= #1 { 1'b0, _r3} - {1'b0,  _r2};
								$display("RSC R3 R2");
							end
							endcase
						end
						R3 : begin
							case (current_instruction[63:62])
							R0 : begin
								{ carryflag, _r3} <= #1 { 1'b0, _r0} - {1'b0,  _r3};
								$display("RSC R0 R3");
							end
							R1 : begin
								{ carryflag, _r3} <= #1 { 1'b0, _r1} - {1'b0,  _r3};
								$display("RSC R1 R3");
							end
							R2 : begin
								{ carryflag, _r3} <= #1 { 1'b0, _r2} - {1'b0,  _r3};
								$display("RSC R2 R3");
							end
							R3 : begin
								{ carryflag, _r3} <= #1 { 1'b0, _r3} - {1'b0,  _r3};
								$display("RSC R3 R3");
							end
							endcase
						end
						endcase
						_pc <= #1 _pc + 1'b1;
					end
					MULC: begin
						case (current_instruction[65:64])
						R0 : begin
							case (current_instruction[63:62])
							R0 : begin
								{ carryflag, _r0} <= #1 { 1'b0, _r0} * {1'b0,  _r0};
								$display("MULC R0 R0");
							end
							R1 : begin
								{ carryflag, _r0} <= #1 { 1'b0, _r1} * {1'b0,  _r0};
								$display("MULC R0 R1");
							end
							R2 : begin
								{ carryflag, _r0} <= #1 { 1'b0, _r2} * {1'b0,  _r0};
								$display("MULC R0 R2");
							end
							R3 : begin
								{ carryflag, _r0} <= #1 { 1'b0, _r3} * {1'b0,  _r0};
								$display("MULC R0 R3");
							end
							endcase
						end
						R1 : begin
							case (current_instruction[63:62])
							R0 : begin
								{ carryflag, _r1} <= #1 { 1'b0, _r0} * {1'b0,  _r1};
								$display("MULC R1 R0");
							end
							R1 : begin
								{ carryflag, _r1} <= #1 { 1'b0, _r1} * {1'b0,  _r1};
								$display("MULC R1 R1");
							end
							R2 : begin
								{ carryflag, _r1} <= #1 { 1'b0, _r2} * {1'b0,  _r1};
								$display("MULC R1 R2");
							end
							R3 : begin
								{ carryflag, _r1} <= #1 { 1'b0, _r3} * {1'b0,  _r1};
								$display("MULC R1 R3");
							end
							endcase
						end
						R2 : begin
							case (current_instruction[63:62])
							R0 : begin
								{ carryflag, _r2} <= #1 { 1'b0, _r0} * {1'b0,  _r2};
								$display("MULC R2 R0");
							end
							R1 : begin
								{ carryflag, _r2} <= #1 { 1'b0, _r1} * {1'b0,  _r2};
								$display("MULC R2 R1");
							end
							R2 : begin
								{ carryflag, _r2} <= #1 { 1'b0, _r2} * {1'b0,  _r2};
								$display("MULC R2 R2");
							end
							R3 : begin
								{ carryflag, _r2} <= #1 { 1'b0, _r3} * {1'b0,  _r2};
								$display("MULC R2 R3");
							end
							endcase
						end
						R3 : begin
							case (current_instruction[63:62])
							R0 : begin
								{ carryflag, _r3} <= #1 { 1'b0, _r0} * {1'b0,  _r3};
								$display("MULC R3 R0");
							end
							R1 : begin
								{ carryflag, _r3} <= #1 { 1'b0, _r1} * {1'b0,  _r3};
								$display("MULC R3 R1");
							end
							R2 : begin
								{ carryflag, _r3} <= #1 { 1'b0, _r2} * {1'b0,  _r3};
								$display("MULC R3 R2");
							end
							R3 : begin
								{ carryflag, _r3} <= #1 { 1'b0, _r3} * {1'b0,  _r3};
								$display("MULC R3 R3");
							end
							endcase
						end
						endcase
						_pc <= #1 _pc + 1'b1;
					end
					JC: begin
					if(carryflag == 'b0) begin
						_pc <= #1 current_instruction[65:61];
						$display("JC ", current_instruction[65:61]);
 end 
					end
					ADD: begin
						case (current_instruction[65:64])
						R0 : begin
							case (current_instruction[63:62])
							R0 : begin
								_r0 <= #1 _r0 + _r0;
								$display("ADD R0 R0");
							end
							R1 : begin
								_r0 <= #1 _r1 + _r0;
								$display("ADD R0 R1");
							end
							R2 : begin
								_r0 <= #1 _r2 + _r0;
								$display("ADD R0 R2");
							end
							R3 : begin
								_r0 <= #1 _r3 + _r0;
								$display("ADD R0 R3");
							end
							endcase
						end
						R1 : begin
							case (current_instruction[63:62])
							R0 : begin
								_r1 <= #1 _r0 + _r1;
								$display("ADD R1 R0");
							end
							R1 : begin
								_r1 <= #1 _r1 + _r1;
								$display("ADD R1 R1");
							end
							R2 : begin
								_r1 <= #1 _r2 + _r1;
								$display("ADD R1 R2");
							end
							R3 : begin
								_r1 <= #1 _r3 + _r1;
								$display("ADD R1 R3");
							end
							endcase
						end
						R2 : begin
							case (current_instruction[63:62])
							R0 : begin
								_r2 <= #1 _r0 + _r2;
								$display("ADD R2 R0");
							end
							R1 : begin
								_r2 <= #1 _r1 + _r2;
								$display("ADD R2 R1");
							end
							R2 : begin
								_r2 <= #1 _r2 + _r2;
								$display("ADD R2 R2");
							end
							R3 : begin
								_r2 <= #1 _r3 + _r2;
								$display("ADD R2 R3");
							end
							endcase
						end
						R3 : begin
							case (current_instruction[63:62])
							R0 : begin
								_r3 <= #1 _r0 + _r3;
								$display("ADD R3 R0");
							end
							R1 : begin
								_r3 <= #1 _r1 + _r3;
								$display("ADD R3 R1");
							end
							R2 : begin
								_r3 <= #1 _r2 + _r3;
								$display("ADD R3 R2");
							end
							R3 : begin
								_r3 <= #1 _r3 + _r3;
								$display("ADD R3 R3");
							end
							endcase
						end
						endcase
						_pc <= #1 _pc + 1'b1;
					end
					CPY: begin
						case (current_instruction[65:64])
						R0 : begin
							case (current_instruction[63:62])
							R0 : begin
								_r0 <= #1 _r0;
								$display("CPY R0 R0");
							end
							R1 : begin
								_r0 <= #1 _r1;
								$display("CPY R0 R1");
							end
							R2 : begin
								_r0 <= #1 _r2;
								$display("CPY R0 R2");
							end
							R3 : begin
								_r0 <= #1 _r3;
								$display("CPY R0 R3");
							end
							endcase
						end
						R1 : begin
							case (current_instruction[63:62])
							R0 : begin
								_r1 <= #1 _r0;
								$display("CPY R1 R0");
							end
							R1 : begin
								_r1 <= #1 _r1;
								$display("CPY R1 R1");
							end
							R2 : begin
								_r1 <= #1 _r2;
								$display("CPY R1 R2");
							end
							R3 : begin
								_r1 <= #1 _r3;
								$display("CPY R1 R3");
							end
							endcase
						end
						R2 : begin
							case (current_instruction[63:62])
							R0 : begin
								_r2 <= #1 _r0;
								$display("CPY R2 R0");
							end
							R1 : begin
								_r2 <= #1 _r1;
								$display("CPY R2 R1");
							end
							R2 : begin
								_r2 <= #1 _r2;
								$display("CPY R2 R2");
							end
							R3 : begin
								_r2 <= #1 _r3;
								$display("CPY R2 R3");
							end
							endcase
						end
						R3 : begin
							case (current_instruction[63:62])
							R0 : begin
								_r3 <= #1 _r0;
								$display("CPY R3 R0");
							end
							R1 : begin
								_r3 <= #1 _r1;
								$display("CPY R3 R1");
							end
							R2 : begin
								_r3 <= #1 _r2;
								$display("CPY R3 R2");
							end
							R3 : begin
								_r3 <= #1 _r3;
								$display("CPY R3 R3");
							end
							endcase
						end
						endcase
						_pc <= #1 _pc + 1'b1;
					end
					default : begin
						$display("Unknown Opcode");
						_pc <= #1 _pc + 1'b1;
					end
				endcase
			// ha placeholder
		end
	end
	assign rom_bus = _pc;
	assign ram_din = ram_din_i;
	assign ram_wren = wr_int_ram;
	assign ram_en = 1'b1;
	assign ram_addr =  (current_instruction[69:66]==M2R) ? addr_ram_m2r : addr_ram_to_mem;
	//logic code to control the address to read RAM
	assign addr_ram_m2r = current_instruction[63:61];
	assign o0 = _auxo0;
	assign o0_valid = o0_val;
endmodule
