`timescale 1ns/1ps
module a0(clock_signal, reset_signal, q0senderData, q0senderWrite, q0senderAck, q0empty, q0full);

	input clock_signal;
	input reset_signal;


	output [7:0] q0senderData;
	output q0senderWrite;
	input q0senderAck;
	input q0empty;
	input q0full;

	wire [2:0] rom_bus;
	wire [10:0] rom_value;


	p0 p0_instance(clock_signal, reset_signal, rom_bus, rom_value, q0senderData, q0senderWrite, q0senderAck, q0empty, q0full);
	p0rom p0rom_instance(rom_bus, rom_value);

endmodule
