
module q0(clk,
    reset,
    p0queue_sendData,
    p0queue_sendWrite,
    p0queue_sendAck,
    p1queue_recvData,
    p1queue_recvRead,
    p1queue_recvAck,
    empty,
    full
);
    input clk;
    input reset;
    output empty;
    output full;
    input [7:0] p0queue_sendData;
    input p0queue_sendWrite;
    output reg p0queue_sendAck;
    output reg [7:0] p1queue_recvData;
    input p1queue_recvRead;
    output reg p1queue_recvAck;

    reg [7:0] memory[3:0];
    reg [2:0] sp;
    reg [2:0] readsp;
    reg [2:0] writesp;

    assign empty = (sp==0)? 1'b1:1'b0; 
    assign full = (sp==4)? 1'b1:1'b0;
    
    wire readneed;
    wire writeneed;

    assign writeneed = ( 1'b0
            | p0queue_sendWrite );

    assign readneed = ( 1'b0
            | p1queue_recvRead );

    reg [0:0] sendSM;
    //
    //localparam sendSMp0queue_send = 1'd0;
    //
    
    reg [0:0] recvSM;
    //
    //localparam recvSMp1queue_recv = 1'd0;
    //

    integer i;

    always @(posedge clk) begin
        if (reset) begin
            sp <= 3'd0;
            readsp <= 3'd0;
            writesp <= 3'd0;
            p1queue_recvData <= 8'd0;
            p1queue_recvAck <= 1'b0;
            p0queue_sendAck <= 1'b0;
            sendSM <= 1'd0;
            recvSM <= 1'd0;
            for (i=0;i<4;i=i+1) begin
                memory[i]<=8'd0;
            end
        end
        else begin
            // Read state machine part
            if (readneed && !empty) begin
                case (recvSM)
                1'd0: begin
                    if (p1queue_recvRead && !p1queue_recvAck) begin
                        p1queue_recvData[7:0] <= memory[readsp];
                        if (readsp==3) begin
                            readsp <= 0;
                            sp <=  writesp;
                        end
                        else begin
                            readsp <= readsp + 1;
                            if (writesp < readsp + 1) begin
                                sp <= 4 - readsp -1 + writesp;
                            end
                            else begin
                                sp <= writesp - readsp - 1;
                            end
                        end
                    end
                    recvSM <= 1'd0;
                end
                endcase
            end
            // Write state machine part
            else if (writeneed && !full) begin
                case (sendSM)
                1'd0: begin
                    if (p0queue_sendWrite && !p0queue_sendAck) begin
                        memory[writesp] <= p0queue_sendData[7:0];
                        if (writesp==3) begin
                            writesp <= 0;
                            sp <= 4 - readsp;
                        end
                        else begin
                            writesp <= writesp + 1;
                            if (writesp + 1 > readsp) begin
                                sp <= writesp - readsp + 1;
                            end
                            else begin
                                sp <= 4 - readsp + writesp + 1;
                            end
                        end
                    end
                    sendSM <= 1'd0;
                end
                endcase
            end

            // Read ack process
            if (p1queue_recvRead && !p1queue_recvAck && recvSM==1'd0 && !empty) begin
                p1queue_recvAck <= 1'b1;
            end
            else begin
                if (!p1queue_recvRead) begin
                    p1queue_recvAck <= 1'b0;
                end
            end

            // Write ack process
            if (!(readneed && !empty) && p0queue_sendWrite && !p0queue_sendAck && sendSM==1'd0 && !full) begin
                p0queue_sendAck <= 1'b1;
            end
            else begin
                if (!p0queue_sendWrite) begin
                    p0queue_sendAck <= 1'b0;
                end
            end
        end
    end
endmodule
