module bondmachine(clk, reset, o0, o0_valid, o0_received);

	input clk, reset;
	//--------------Output Ports-----------------------
	output [7:0] o0;
	output o0_valid;
	input o0_received;



	wire [7:0] p1o0;
	wire p1o0_valid;
	wire p1o0_received;
	wire o0_received;

	wire [7:0] p0q0senderData;
	wire p0q0senderWrite;
	wire p0q0senderAck;

	wire [7:0] p1q0receiverData;
	wire p1q0receiverRead;
	wire p1q0receiverAck;


	wire q0empty;
	wire q0full
;

	//Instantiation of the Processors and Shared Objects
	a0 a0_inst(clk, reset, p0q0senderData, p0q0senderWrite, p0q0senderAck, q0empty, q0full);
	a1 a1_inst(clk, reset, p1o0, p1o0_valid, p1o0_received, p1q0receiverData, p1q0receiverRead, p1q0receiverAck, q0empty, q0full);
	q0 q0_inst (clk, reset, p0q0senderData, p0q0senderWrite, p0q0senderAck, p1q0receiverData, p1q0receiverRead, p1q0receiverAck, q0empty, q0full);

	assign o0 = p1o0;
	assign o0_valid = p1o0_valid;

	assign p1o0_received = o0_received;

endmodule
