`timescale 1ns/1ps
module a1(clock_signal, reset_signal, o0, o0_valid, o0_received, q0receiverData, q0receiverRead, q0receiverAck, q0empty, q0full);

	input clock_signal;
	input reset_signal;

	output [7:0] o0;
	output o0_valid;
	input o0_received;

	input [7:0] q0receiverData;
	output q0receiverRead;
	input q0receiverAck;
	input q0empty;
	input q0full;

	wire [2:0] rom_bus;
	wire [4:0] rom_value;


	p1 p1_instance(clock_signal, reset_signal, rom_bus, rom_value, o0, o0_valid, o0_received, q0receiverData, q0receiverRead, q0receiverAck, q0empty, q0full);
	p1rom p1rom_instance(rom_bus, rom_value);

endmodule
