`timescale 1ns/1ps
module p2rom(input [2:0] rom_bus, output [5:0] rom_value);
	reg [5:0] _rom [0:7];
	initial
	begin
	_rom[0] = 6'b000000;
	_rom[1] = 6'b010000;
	_rom[2] = 6'b010000;
	_rom[3] = 6'b001000;
	_rom[4] = 6'b011000;
	_rom[5] = 6'b100000;
	end
	assign rom_value = _rom[rom_bus];
endmodule
