`timescale 1ns/1ps
module a0(clock_signal, reset_signal, i0, i0_valid , i0_received, o0, o0_valid, o0_received);

	input clock_signal;
	input reset_signal;

	input [15:0] i0;
	input i0_valid;
	output i0_received;
	output [15:0] o0;
	output o0_valid;
	input o0_received;

	wire [2:0] rom_bus;
	wire [4:0] rom_value;


	p0 p0_instance(clock_signal, reset_signal, rom_bus, rom_value, i0, i0_valid , i0_received, o0, o0_valid, o0_received);
	p0rom p0rom_instance(rom_bus, rom_value);

endmodule
