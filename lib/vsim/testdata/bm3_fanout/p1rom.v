`timescale 1ns/1ps
module p1rom(input [2:0] rom_bus, output [4:0] rom_value);
	reg [4:0] _rom [0:7];
	initial
	begin
	_rom[0] = 5'b00000;
	_rom[1] = 5'b01000;
	_rom[2] = 5'b10000;
	_rom[3] = 5'b11000;
	end
	assign rom_value = _rom[rom_bus];
endmodule
