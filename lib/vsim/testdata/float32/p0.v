`timescale 1ns/1ps
module p0(clock_signal, reset_signal, rom_bus, rom_value, o0, o0_valid, o0_received);

	input clock_signal;
	input reset_signal;
	output  [3:0] rom_bus;
	input  [36:0] rom_value;

	output [31:0] o0;
	output o0_valid;
	input o0_received;

			// Opcodes in the instructions, length according the number of the selected.
	localparam	RSET=3'b000,          // Register set value
			ADDF=3'b001,          // Register addf
			MULTF=3'b010,          // Register float32 multiplcation
			DIVF=3'b011,          // Register divf
			R2O=3'b100,          // Register to output
			J=3'b101;          // Jump to a program location

	localparam	R0=2'b00,		// Registers in the intructions
			R1=2'b01,
			R2=2'b10,
			R3=2'b11;
	localparam			O0=1'b0;
	reg [31:0] _auxo0;

	reg [31:0] _ram [0:0];		// Internal processor RAM

	(* KEEP = "TRUE" *) reg [3:0] _pc;		// Program counter

	// The number of registers are 2^R, two letters and an underscore as identifier , maximum R=8 and 265 rigisters
	(* KEEP = "TRUE" *) reg [31:0] _r0;
	(* KEEP = "TRUE" *) reg [31:0] _r1;
	(* KEEP = "TRUE" *) reg [31:0] _r2;
	(* KEEP = "TRUE" *) reg [31:0] _r3;

	wire [36:0] current_instruction;
	assign current_instruction=rom_value;

	reg [31:0] adder_0_input_a;
	reg [31:0] adder_0_input_b;
	reg adder_0_input_a_stb;
	reg adder_0_input_b_stb;
	reg adder_0_output_z_ack;

	wire [31:0] adder_0_output_z;
	wire adder_0_output_z_stb;
	wire adder_0_input_a_ack;
	wire adder_0_input_b_ack;

	reg	[1:0] adder_0_state;
parameter adder_0_put_a         = 2'd0,
          adder_0_put_b         = 2'd1,
          adder_0_get_z         = 2'd2;
	adder_0 adder_0_inst (adder_0_input_a, adder_0_input_b, adder_0_input_a_stb, adder_0_input_b_stb, adder_0_output_z_ack, clock_signal, reset_signal, adder_0_output_z, adder_0_output_z_stb, adder_0_input_a_ack, adder_0_input_b_ack);

	reg [31:0] multiplier_0_input_a;
	reg [31:0] multiplier_0_input_b;
	reg multiplier_0_input_a_stb;
	reg multiplier_0_input_b_stb;
	reg multiplier_0_output_z_ack;

	wire [31:0] multiplier_0_output_z;
	wire multiplier_0_output_z_stb;
	wire multiplier_0_input_a_ack;
	wire multiplier_0_input_b_ack;

	reg	[1:0] multiplier_0_state;
parameter multiplier_0_put_a         = 2'd0,
          multiplier_0_put_b         = 2'd1,
          multiplier_0_get_z         = 2'd2;
	multiplier_0 multiplier_0_inst (multiplier_0_input_a, multiplier_0_input_b, multiplier_0_input_a_stb, multiplier_0_input_b_stb, multiplier_0_output_z_ack, clock_signal, reset_signal, multiplier_0_output_z, multiplier_0_output_z_stb, multiplier_0_input_a_ack, multiplier_0_input_b_ack);

	reg [31:0] divider_0_input_a;
	reg [31:0] divider_0_input_b;
	reg divider_0_input_a_stb;
	reg divider_0_input_b_stb;
	reg divider_0_output_z_ack;

	wire [31:0] divider_0_output_z;
	wire divider_0_output_z_stb;
	wire divider_0_input_a_ack;
	wire divider_0_input_b_ack;

	reg	[1:0] divider_0_state;
parameter divider_0_put_a         = 2'd0,
          divider_0_put_b         = 2'd1,
          divider_0_get_z         = 2'd2;
	divider_0 divider_0_inst (divider_0_input_a, divider_0_input_b, divider_0_input_a_stb, divider_0_input_b_stb, divider_0_output_z_ack, clock_signal, reset_signal, divider_0_output_z, divider_0_output_z_stb, divider_0_input_a_ack, divider_0_input_b_ack);


	reg o0_val;
	reg waitsm;
	initial waitsm = 1'b0;

	always @(posedge clock_signal, posedge reset_signal)
	begin
		if (reset_signal)
		begin
			o0_val <= #1 1'b0;
		end
		else
		begin
			case(current_instruction[36:34])
				R2O: begin
					case (current_instruction[31])
					O0 : begin
						o0_val <= 1'b1;
					end
					default: begin
						if (o0_received)
						begin
							o0_val <= #1 1'b0;
						end
					end
					endcase
				end
				default: begin
					if (o0_received)
					begin
						o0_val <= #1 1'b0;
					end
				end
			endcase
		end
	end

	always @(posedge clock_signal, posedge reset_signal)
	begin
		if(reset_signal)
		begin
			_pc <= #1 4'h0;
			_r0 <= #1 32'h0;
			_r1 <= #1 32'h0;
			_r2 <= #1 32'h0;
			_r3 <= #1 32'h0;
		end
		else begin
			// ha placeholder
			$display("Program Counter:%d", _pc);
			$display("Instruction:%b", rom_value);
			$display("Registers r0:%b r1:%b r2:%b r3:%b ", _r0, _r1, _r2, _r3);
				case(current_instruction[36:34])
					RSET: begin
						case (current_instruction[33:32])
						R0 : begin
							_r0 <= #1 current_instruction[31:0];
							$display("RSET R0 ",_r0);
						end
						R1 : begin
							_r1 <= #1 current_instruction[31:0];
							$display("RSET R1 ",_r1);
						end
						R2 : begin
							_r2 <= #1 current_instruction[31:0];
							$display("RSET R2 ",_r2);
						end
						R3 : begin
							_r3 <= #1 current_instruction[31:0];
							$display("RSET R3 ",_r3);
						end
						endcase
						_pc <= #1 _pc + 1'b1;
					end
					ADDF: begin
						case (current_instruction[33:32])
						R0 : begin
							case (current_instruction[31:30])
							R0 : begin
							case (adder_0_state)
							adder_0_put_a : begin
								if (adder_0_input_a_ack) begin
									adder_0_input_a <= #1 _r0;
									adder_0_input_a_stb <= #1 1;
									adder_0_output_z_ack <= #1 0;
									adder_0_state <= #1 adder_0_put_b;
								end
							end
							adder_0_put_b : begin
								if (adder_0_input_b_ack) begin
									adder_0_input_b <= #1 _r0;
									adder_0_input_b_stb <= #1 1;
									adder_0_output_z_ack <= #1 0;
									adder_0_state <= #1 adder_0_get_z;
									adder_0_input_a_stb <= #1 0;
								end
							end
							adder_0_get_z : begin
								if (adder_0_output_z_stb) begin
									_r0 <= #1 adder_0_output_z;
									adder_0_output_z_ack <= #1 1;
									adder_0_state <= #1 adder_0_put_a;
									adder_0_input_b_stb <= #1 0;
									_pc <= #1 _pc + 1'b1;
								end
							end
							endcase
								$display("ADDF R0 R0");
							end
							R1 : begin
							case (adder_0_state)
							adder_0_put_a : begin
								if (adder_0_input_a_ack) begin
									adder_0_input_a <= #1 _r0;
									adder_0_input_a_stb <= #1 1;
									adder_0_output_z_ack <= #1 0;
									adder_0_state <= #1 adder_0_put_b;
								end
							end
							adder_0_put_b : begin
								if (adder_0_input_b_ack) begin
									adder_0_input_b <= #1 _r1;
									adder_0_input_b_stb <= #1 1;
									adder_0_output_z_ack <= #1 0;
									adder_0_state <= #1 adder_0_get_z;
									adder_0_input_a_stb <= #1 0;
								end
							end
							adder_0_get_z : begin
								if (adder_0_output_z_stb) begin
									_r0 <= #1 adder_0_output_z;
									adder_0_output_z_ack <= #1 1;
									adder_0_state <= #1 adder_0_put_a;
									adder_0_input_b_stb <= #1 0;
									_pc <= #1 _pc + 1'b1;
								end
							end
							endcase
								$display("ADDF R0 R1");
							end
							R2 : begin
							case (adder_0_state)
							adder_0_put_a : begin
								if (adder_0_input_a_ack) begin
									adder_0_input_a <= #1 _r0;
									adder_0_input_a_stb <= #1 1;
									adder_0_output_z_ack <= #1 0;
									adder_0_state <= #1 adder_0_put_b;
								end
							end
							adder_0_put_b : begin
								if (adder_0_input_b_ack) begin
									adder_0_input_b <= #1 _r2;
									adder_0_input_b_stb <= #1 1;
									adder_0_output_z_ack <= #1 0;
									adder_0_state <= #1 adder_0_get_z;
									adder_0_input_a_stb <= #1 0;
								end
							end
							adder_0_get_z : begin
								if (adder_0_output_z_stb) begin
									_r0 <= #1 adder_0_output_z;
									adder_0_output_z_ack <= #1 1;
									adder_0_state <= #1 adder_0_put_a;
									adder_0_input_b_stb <= #1 0;
									_pc <= #1 _pc + 1'b1;
								end
							end
							endcase
								$display("ADDF R0 R2");
							end
							R3 : begin
							case (adder_0_state)
							adder_0_put_a : begin
								if (adder_0_input_a_ack) begin
									adder_0_input_a <= #1 _r0;
									adder_0_input_a_stb <= #1 1;
									adder_0_output_z_ack <= #1 0;
									adder_0_state <= #1 adder_0_put_b;
								end
							end
							adder_0_put_b : begin
								if (adder_0_input_b_ack) begin
									adder_0_input_b <= #1 _r3;
									adder_0_input_b_stb <= #1 1;
									adder_0_output_z_ack <= #1 0;
									adder_0_state <= #1 adder_0_get_z;
									adder_0_input_a_stb <= #1 0;
								end
							end
							adder_0_get_z : begin
								if (adder_0_output_z_stb) begin
									_r0 <= #1 adder_0_output_z;
									adder_0_output_z_ack <= #1 1;
									adder_0_state <= #1 adder_0_put_a;
									adder_0_input_b_stb <= #1 0;
									_pc <= #1 _pc + 1'b1;
								end
							end
							endcase
								$display("ADDF R0 R3");
							end
							endcase
						end
						R1 : begin
							case (current_instruction[31:30])
							R0 : begin
							case (adder_0_state)
							adder_0_put_a : begin
								if (adder_0_input_a_ack) begin
									adder_0_input_a <= #1 _r1;
									adder_0_input_a_stb <= #1 1;
									adder_0_output_z_ack <= #1 0;
									adder_0_state <= #1 adder_0_put_b;
								end
							end
							adder_0_put_b : begin
								if (adder_0_input_b_ack) begin
									adder_0_input_b <= #1 _r0;
									adder_0_input_b_stb <= #1 1;
									adder_0_output_z_ack <= #1 0;
									adder_0_state <= #1 adder_0_get_z;
									adder_0_input_a_stb <= #1 0;
								end
							end
							adder_0_get_z : begin
								if (adder_0_output_z_stb) begin
									_r1 <= #1 adder_0_output_z;
									adder_0_output_z_ack <= #1 1;
									adder_0_state <= #1 adder_0_put_a;
									adder_0_input_b_stb <= #1 0;
									_pc <= #1 _pc + 1'b1;
								end
							end
							endcase
								$display("ADDF R1 R0");
							end
							R1 : begin
							case (adder_0_state)
							adder_0_put_a : begin
								if (adder_0_input_a_ack) begin
									adder_0_input_a <= #1 _r1;
									adder_0_input_a_stb <= #1 1;
									adder_0_output_z_ack <= #1 0;
									adder_0_state <= #1 adder_0_put_b;
								end
							end
							adder_0_put_b : begin
								if (adder_0_input_b_ack) begin
									adder_0_input_b <= #1 _r1;
									adder_0_input_b_stb <= #1 1;
									adder_0_output_z_ack <= #1 0;
									adder_0_state <= #1 adder_0_get_z;
									adder_0_input_a_stb <= #1 0;
								end
							end
							adder_0_get_z : begin
								if (adder_0_output_z_stb) begin
									_r1 <= #1 adder_0_output_z;
									adder_0_output_z_ack <= #1 1;
									adder_0_state <= #1 adder_0_put_a;
									adder_0_input_b_stb <= #1 0;
									_pc <= #1 _pc + 1'b1;
								end
							end
							endcase
								$display("ADDF R1 R1");
							end
							R2 : begin
							case (adder_0_state)
							adder_0_put_a : begin
								if (adder_0_input_a_ack) begin
									adder_0_input_a <= #1 _r1;
									adder_0_input_a_stb <= #1 1;
									adder_0_output_z_ack <= #1 0;
									adder_0_state <= #1 adder_0_put_b;
								end
							end
							adder_0_put_b : begin
								if (adder_0_input_b_ack) begin
									adder_0_input_b <= #1 _r2;
									adder_0_input_b_stb <= #1 1;
									adder_0_output_z_ack <= #1 0;
									adder_0_state <= #1 adder_0_get_z;
									adder_0_input_a_stb <= #1 0;
								end
							end
							adder_0_get_z : begin
								if (adder_0_output_z_stb) begin
									_r1 <= #1 adder_0_output_z;
									adder_0_output_z_ack <= #1 1;
									adder_0_state <= #1 adder_0_put_a;
									adder_0_input_b_stb <= #1 0;
									_pc <= #1 _pc + 1'b1;
								end
							end
							endcase
								$display("ADDF R1 R2");
							end
							R3 : begin
							case (adder_0_state)
							adder_0_put_a : begin
								if (adder_0_input_a_ack) begin
									adder_0_input_a <= #1 _r1;
									adder_0_input_a_stb <= #1 1;
									adder_0_output_z_ack <= #1 0;
									adder_0_state <= #1 adder_0_put_b;
								end
							end
							adder_0_put_b : begin
								if (adder_0_input_b_ack) begin
									adder_0_input_b <= #1 _r3;
									adder_0_input_b_stb <= #1 1;
									adder_0_output_z_ack <= #1 0;
									adder_0_state <= #1 adder_0_get_z;
									adder_0_input_a_stb <= #1 0;
								end
							end
							adder_0_get_z : begin
								if (adder_0_output_z_stb) begin
									_r1 <= #1 adder_0_output_z;
									adder_0_output_z_ack <= #1 1;
									adder_0_state <= #1 adder_0_put_a;
									adder_0_input_b_stb <= #1 0;
									_pc <= #1 _pc + 1'b1;
								end
							end
							endcase
								$display("ADDF R1 R3");
							end
							endcase
						end
						R2 : begin
							case (current_instruction[31:30])
							R0 : begin
							case (adder_0_state)
							adder_0_put_a : begin
								if (adder_0_input_a_ack) begin
									adder_0_input_a <= #1 _r2;
									adder_0_input_a_stb <= #1 1;
									adder_0_output_z_ack <= #1 0;
									adder_0_state <= #1 adder_0_put_b;
								end
							end
							adder_0_put_b : begin
								if (adder_0_input_b_ack) begin
									adder_0_input_b <= #1 _r0;
									adder_0_input_b_stb <= #1 1;
									adder_0_output_z_ack <= #1 0;
									adder_0_state <= #1 adder_0_get_z;
									adder_0_input_a_stb <= #1 0;
								end
							end
							adder_0_get_z : begin
								if (adder_0_output_z_stb) begin
									_r2 <= #1 adder_0_output_z;
									adder_0_output_z_ack <= #1 1;
									adder_0_state <= #1 adder_0_put_a;
									adder_0_input_b_stb <= #1 0;
									_pc <= #1 _pc + 1'b1;
								end
							end
							endcase
								$display("ADDF R2 R0");
							end
							R1 : begin
							case (adder_0_state)
							adder_0_put_a : begin
								if (adder_0_input_a_ack) begin
									adder_0_input_a <= #1 _r2;
									adder_0_input_a_stb <= #1 1;
									adder_0_output_z_ack <= #1 0;
									adder_0_state <= #1 adder_0_put_b;
								end
							end
							adder_0_put_b : begin
								if (adder_0_input_b_ack) begin
									adder_0_input_b <= #1 _r1;
									adder_0_input_b_stb <= #1 1;
									adder_0_output_z_ack <= #1 0;
									adder_0_state <= #1 adder_0_get_z;
									adder_0_input_a_stb <= #1 0;
								end
							end
							adder_0_get_z : begin
								if (adder_0_output_z_stb) begin
									_r2 <= #1 adder_0_output_z;
									adder_0_output_z_ack <= #1 1;
									adder_0_state <= #1 adder_0_put_a;
									adder_0_input_b_stb <= #1 0;
									_pc <= #1 _pc + 1'b1;
								end
							end
							endcase
								$display("ADDF R2 R1");
							end
							R2 : begin
							case (adder_0_state)
							adder_0_put_a : begin
								if (adder_0_input_a_ack) begin
									adder_0_input_a <= #1 _r2;
									adder_0_input_a_stb <= #1 1;
									adder_0_output_z_ack <= #1 0;
									adder_0_state <= #1 adder_0_put_b;
								end
							end
							adder_0_put_b : begin
								if (adder_0_input_b_ack) begin
									adder_0_input_b <= #1 _r2;
									adder_0_input_b_stb <= #1 1;
									adder_0_output_z_ack <= #1 0;
									adder_0_state <= #1 adder_0_get_z;
									adder_0_input_a_stb <= #1 0;
								end
							end
							adder_0_get_z : begin
								if (adder_0_output_z_stb) begin
									_r2 <= #1 adder_0_output_z;
									adder_0_output_z_ack <= #1 1;
									adder_0_state <= #1 adder_0_put_a;
									adder_0_input_b_stb <= #1 0;
									_pc <= #1 _pc + 1'b1;
								end
							end
							endcase
								$display("ADDF R2 R2");
							end
							R3 : begin
							case (adder_0_state)
							adder_0_put_a : begin
								if (adder_0_input_a_ack) begin
									adder_0_input_a <= #1 _r2;
									adder_0_input_a_stb <= #1 1;
									adder_0_output_z_ack <= #1 0;
									adder_0_state <= #1 adder_0_put_b;
								end
							end
							adder_0_put_b : begin
								if (adder_0_input_b_ack) begin
									adder_0_input_b <= #1 _r3;
									adder_0_input_b_stb <= #1 1;
									adder_0_output_z_ack <= #1 0;
									adder_0_state <= #1 adder_0_get_z;
									adder_0_input_a_stb <= #1 0;
								end
							end
							adder_0_get_z : begin
								if (adder_0_output_z_stb) begin
									_r2 <= #1 adder_0_output_z;
									adder_0_output_z_ack <= #1 1;
									adder_0_state <= #1 adder_0_put_a;
									adder_0_input_b_stb <= #1 0;
									_pc <= #1 _pc + 1'b1;
								end
							end
							endcase
								$display("ADDF R2 R3");
							end
							endcase
						end
						R3 : begin
							case (current_instruction[31:30])
							R0 : begin
							case (adder_0_state)
							adder_0_put_a : begin
								if (adder_0_input_a_ack) begin
									adder_0_input_a <= #1 _r3;
									adder_0_input_a_stb <= #1 1;
									adder_0_output_z_ack <= #1 0;
									adder_0_state <= #1 adder_0_put_b;
								end
							end
							adder_0_put_b : begin
								if (adder_0_input_b_ack) begin
									adder_0_input_b <= #1 _r0;
									adder_0_input_b_stb <= #1 1;
									adder_0_output_z_ack <= #1 0;
									adder_0_state <= #1 adder_0_get_z;
									adder_0_input_a_stb <= #1 0;
								end
							end
							adder_0_get_z : begin
								if (adder_0_output_z_stb) begin
									_r3 <= #1 adder_0_output_z;
									adder_0_output_z_ack <= #1 1;
									adder_0_state <= #1 adder_0_put_a;
									adder_0_input_b_stb <= #1 0;
									_pc <= #1 _pc + 1'b1;
								end
							end
							endcase
								$display("ADDF R3 R0");
							end
							R1 : begin
							case (adder_0_state)
							adder_0_put_a : begin
								if (adder_0_input_a_ack) begin
									adder_0_input_a <= #1 _r3;
									adder_0_input_a_stb <= #1 1;
									adder_0_output_z_ack <= #1 0;
									adder_0_state <= #1 adder_0_put_b;
								end
							end
							adder_0_put_b : begin
								if (adder_0_input_b_ack) begin
									adder_0_input_b <= #1 _r1;
									adder_0_input_b_stb <= #1 1;
									adder_0_output_z_ack <= #1 0;
									adder_0_state <= #1 adder_0_get_z;
									adder_0_input_a_stb <= #1 0;
								end
							end
							adder_0_get_z : begin
								if (adder_0_output_z_stb) begin
									_r3 <= #1 adder_0_output_z;
									adder_0_output_z_ack <= #1 1;
									adder_0_state <= #1 adder_0_put_a;
									adder_0_input_b_stb <= #1 0;
									_pc <= #1 _pc + 1'b1;
								end
							end
							endcase
								$display("ADDF R3 R1");
							end
							R2 : begin
							case (adder_0_state)
							adder_0_put_a : begin
								if (adder_0_input_a_ack) begin
									adder_0_input_a <= #1 _r3;
									adder_0_input_a_stb <= #1 1;
									adder_0_output_z_ack <= #1 0;
									adder_0_state <= #1 adder_0_put_b;
								end
							end
							adder_0_put_b : begin
								if (adder_0_input_b_ack) begin
									adder_0_input_b <= #1 _r2;
									adder_0_input_b_stb <= #1 1;
									adder_0_output_z_ack <= #1 0;
									adder_0_state <= #1 adder_0_get_z;
									adder_0_input_a_stb <= #1 0;
								end
							end
							adder_0_get_z : begin
								if (adder_0_output_z_stb) begin
									_r3 <= #1 adder_0_output_z;
									adder_0_output_z_ack <= #1 1;
									adder_0_state <= #1 adder_0_put_a;
									adder_0_input_b_stb <= #1 0;
									_pc <= #1 _pc + 1'b1;
								end
							end
							endcase
								$display("ADDF R3 R2");
							end
							R3 : begin
							case (adder_0_state)
							adder_0_put_a : begin
								if (adder_0_input_a_ack) begin
									adder_0_input_a <= #1 _r3;
									adder_0_input_a_stb <= #1 1;
									adder_0_output_z_ack <= #1 0;
									adder_0_state <= #1 adder_0_put_b;
								end
							end
							adder_0_put_b : begin
								if (adder_0_input_b_ack) begin
									adder_0_input_b <= #1 _r3;
									adder_0_input_b_stb <= #1 1;
									adder_0_output_z_ack <= #1 0;
									adder_0_state <= #1 adder_0_get_z;
									adder_0_input_a_stb <= #1 0;
								end
							end
							adder_0_get_z : begin
								if (adder_0_output_z_stb) begin
									_r3 <= #1 adder_0_output_z;
									adder_0_output_z_ack <= #1 1;
									adder_0_state <= #1 adder_0_put_a;
									adder_0_input_b_stb <= #1 0;
									_pc <= #1 _pc + 1'b1;
								end
							end
							endcase
								$display("ADDF R3 R3");
							end
							endcase
						end
						endcase
					end
					MULTF: begin
						case (current_instruction[33:32])
						R0 : begin
							case (current_instruction[31:30])
							R0 : begin
							case (multiplier_0_state)
							multiplier_0_put_a : begin
								if (multiplier_0_input_a_ack) begin
									multiplier_0_input_a <= #1 _r0;
									multiplier_0_input_a_stb <= #1 1;
									multiplier_0_output_z_ack <= #1 0;
									multiplier_0_state <= #1 multiplier_0_put_b;
								end
							end
							multiplier_0_put_b : begin
								if (multiplier_0_input_b_ack) begin
									multiplier_0_input_b <= #1 _r0;
									multiplier_0_input_b_stb <= #1 1;
									multiplier_0_output_z_ack <= #1 0;
									multiplier_0_state <= #1 multiplier_0_get_z;
									multiplier_0_input_a_stb <= #1 0;
								end
							end
							multiplier_0_get_z : begin
								if (multiplier_0_output_z_stb) begin
									_r0 <= #1 multiplier_0_output_z;
									multiplier_0_output_z_ack <= #1 1;
									multiplier_0_state <= #1 multiplier_0_put_a;
									multiplier_0_input_b_stb <= #1 0;
									_pc <= #1 _pc + 1'b1;
								end
							end
							endcase
								$display("ADDF R0 R0");
							end
							R1 : begin
							case (multiplier_0_state)
							multiplier_0_put_a : begin
								if (multiplier_0_input_a_ack) begin
									multiplier_0_input_a <= #1 _r0;
									multiplier_0_input_a_stb <= #1 1;
									multiplier_0_output_z_ack <= #1 0;
									multiplier_0_state <= #1 multiplier_0_put_b;
								end
							end
							multiplier_0_put_b : begin
								if (multiplier_0_input_b_ack) begin
									multiplier_0_input_b <= #1 _r1;
									multiplier_0_input_b_stb <= #1 1;
									multiplier_0_output_z_ack <= #1 0;
									multiplier_0_state <= #1 multiplier_0_get_z;
									multiplier_0_input_a_stb <= #1 0;
								end
							end
							multiplier_0_get_z : begin
								if (multiplier_0_output_z_stb) begin
									_r0 <= #1 multiplier_0_output_z;
									multiplier_0_output_z_ack <= #1 1;
									multiplier_0_state <= #1 multiplier_0_put_a;
									multiplier_0_input_b_stb <= #1 0;
									_pc <= #1 _pc + 1'b1;
								end
							end
							endcase
								$display("ADDF R0 R1");
							end
							R2 : begin
							case (multiplier_0_state)
							multiplier_0_put_a : begin
								if (multiplier_0_input_a_ack) begin
									multiplier_0_input_a <= #1 _r0;
									multiplier_0_input_a_stb <= #1 1;
									multiplier_0_output_z_ack <= #1 0;
									multiplier_0_state <= #1 multiplier_0_put_b;
								end
							end
							multiplier_0_put_b : begin
								if (multiplier_0_input_b_ack) begin
									multiplier_0_input_b <= #1 _r2;
									multiplier_0_input_b_stb <= #1 1;
									multiplier_0_output_z_ack <= #1 0;
									multiplier_0_state <= #1 multiplier_0_get_z;
									multiplier_0_input_a_stb <= #1 0;
								end
							end
							multiplier_0_get_z : begin
								if (multiplier_0_output_z_stb) begin
									_r0 <= #1 multiplier_0_output_z;
									multiplier_0_output_z_ack <= #1 1;
									multiplier_0_state <= #1 multiplier_0_put_a;
									multiplier_0_input_b_stb <= #1 0;
									_pc <= #1 _pc + 1'b1;
								end
							end
							endcase
								$display("ADDF R0 R2");
							end
							R3 : begin
							case (multiplier_0_state)
							multiplier_0_put_a : begin
								if (multiplier_0_input_a_ack) begin
									multiplier_0_input_a <= #1 _r0;
									multiplier_0_input_a_stb <= #1 1;
									multiplier_0_output_z_ack <= #1 0;
									multiplier_0_state <= #1 multiplier_0_put_b;
								end
							end
							multiplier_0_put_b : begin
								if (multiplier_0_input_b_ack) begin
									multiplier_0_input_b <= #1 _r3;
									multiplier_0_input_b_stb <= #1 1;
									multiplier_0_output_z_ack <= #1 0;
									multiplier_0_state <= #1 multiplier_0_get_z;
									multiplier_0_input_a_stb <= #1 0;
								end
							end
							multiplier_0_get_z : begin
								if (multiplier_0_output_z_stb) begin
									_r0 <= #1 multiplier_0_output_z;
									multiplier_0_output_z_ack <= #1 1;
									multiplier_0_state <= #1 multiplier_0_put_a;
									multiplier_0_input_b_stb <= #1 0;
									_pc <= #1 _pc + 1'b1;
								end
							end
							endcase
								$display("ADDF R0 R3");
							end
							endcase
						end
						R1 : begin
							case (current_instruction[31:30])
							R0 : begin
							case (multiplier_0_state)
							multiplier_0_put_a : begin
								if (multiplier_0_input_a_ack) begin
									multiplier_0_input_a <= #1 _r1;
									multiplier_0_input_a_stb <= #1 1;
									multiplier_0_output_z_ack <= #1 0;
									multiplier_0_state <= #1 multiplier_0_put_b;
								end
							end
							multiplier_0_put_b : begin
								if (multiplier_0_input_b_ack) begin
									multiplier_0_input_b <= #1 _r0;
									multiplier_0_input_b_stb <= #1 1;
									multiplier_0_output_z_ack <= #1 0;
									multiplier_0_state <= #1 multiplier_0_get_z;
									multiplier_0_input_a_stb <= #1 0;
								end
							end
							multiplier_0_get_z : begin
								if (multiplier_0_output_z_stb) begin
									_r1 <= #1 multiplier_0_output_z;
									multiplier_0_output_z_ack <= #1 1;
									multiplier_0_state <= #1 multiplier_0_put_a;
									multiplier_0_input_b_stb <= #1 0;
									_pc <= #1 _pc + 1'b1;
								end
							end
							endcase
								$display("ADDF R1 R0");
							end
							R1 : begin
							case (multiplier_0_state)
							multiplier_0_put_a : begin
								if (multiplier_0_input_a_ack) begin
									multiplier_0_input_a <= #1 _r1;
									multiplier_0_input_a_stb <= #1 1;
									multiplier_0_output_z_ack <= #1 0;
									multiplier_0_state <= #1 multiplier_0_put_b;
								end
							end
							multiplier_0_put_b : begin
								if (multiplier_0_input_b_ack) begin
									multiplier_0_input_b <= #1 _r1;
									multiplier_0_input_b_stb <= #1 1;
									multiplier_0_output_z_ack <= #1 0;
									multiplier_0_state <= #1 multiplier_0_get_z;
									multiplier_0_input_a_stb <= #1 0;
								end
							end
							multiplier_0_get_z : begin
								if (multiplier_0_output_z_stb) begin
									_r1 <= #1 multiplier_0_output_z;
									multiplier_0_output_z_ack <= #1 1;
									multiplier_0_state <= #1 multiplier_0_put_a;
									multiplier_0_input_b_stb <= #1 0;
									_pc <= #1 _pc + 1'b1;
								end
							end
							endcase
								$display("ADDF R1 R1");
							end
							R2 : begin
							case (multiplier_0_state)
							multiplier_0_put_a : begin
								if (multiplier_0_input_a_ack) begin
									multiplier_0_input_a <= #1 _r1;
									multiplier_0_input_a_stb <= #1 1;
									multiplier_0_output_z_ack <= #1 0;
									multiplier_0_state <= #1 multiplier_0_put_b;
								end
							end
							multiplier_0_put_b : begin
								if (multiplier_0_input_b_ack) begin
									multiplier_0_input_b <= #1 _r2;
									multiplier_0_input_b_stb <= #1 1;
									multiplier_0_output_z_ack <= #1 0;
									multiplier_0_state <= #1 multiplier_0_get_z;
									multiplier_0_input_a_stb <= #1 0;
								end
							end
							multiplier_0_get_z : begin
								if (multiplier_0_output_z_stb) begin
									_r1 <= #1 multiplier_0_output_z;
									multiplier_0_output_z_ack <= #1 1;
									multiplier_0_state <= #1 multiplier_0_put_a;
									multiplier_0_input_b_stb <= #1 0;
									_pc <= #1 _pc + 1'b1;
								end
							end
							endcase
								$display("ADDF R1 R2");
							end
							R3 : begin
							case (multiplier_0_state)
							multiplier_0_put_a : begin
								if (multiplier_0_input_a_ack) begin
									multiplier_0_input_a <= #1 _r1;
									multiplier_0_input_a_stb <= #1 1;
									multiplier_0_output_z_ack <= #1 0;
									multiplier_0_state <= #1 multiplier_0_put_b;
								end
							end
							multiplier_0_put_b : begin
								if (multiplier_0_input_b_ack) begin
									multiplier_0_input_b <= #1 _r3;
									multiplier_0_input_b_stb <= #1 1;
									multiplier_0_output_z_ack <= #1 0;
									multiplier_0_state <= #1 multiplier_0_get_z;
									multiplier_0_input_a_stb <= #1 0;
								end
							end
							multiplier_0_get_z : begin
								if (multiplier_0_output_z_stb) begin
									_r1 <= #1 multiplier_0_output_z;
									multiplier_0_output_z_ack <= #1 1;
									multiplier_0_state <= #1 multiplier_0_put_a;
									multiplier_0_input_b_stb <= #1 0;
									_pc <= #1 _pc + 1'b1;
								end
							end
							endcase
								$display("ADDF R1 R3");
							end
							endcase
						end
						R2 : begin
							case (current_instruction[31:30])
							R0 : begin
							case (multiplier_0_state)
							multiplier_0_put_a : begin
								if (multiplier_0_input_a_ack) begin
									multiplier_0_input_a <= #1 _r2;
									multiplier_0_input_a_stb <= #1 1;
									multiplier_0_output_z_ack <= #1 0;
									multiplier_0_state <= #1 multiplier_0_put_b;
								end
							end
							multiplier_0_put_b : begin
								if (multiplier_0_input_b_ack) begin
									multiplier_0_input_b <= #1 _r0;
									multiplier_0_input_b_stb <= #1 1;
									multiplier_0_output_z_ack <= #1 0;
									multiplier_0_state <= #1 multiplier_0_get_z;
									multiplier_0_input_a_stb <= #1 0;
								end
							end
							multiplier_0_get_z : begin
								if (multiplier_0_output_z_stb) begin
									_r2 <= #1 multiplier_0_output_z;
									multiplier_0_output_z_ack <= #1 1;
									multiplier_0_state <= #1 multiplier_0_put_a;
									multiplier_0_input_b_stb <= #1 0;
									_pc <= #1 _pc + 1'b1;
								end
							end
							endcase
								$display("ADDF R2 R0");
							end
							R1 : begin
							case (multiplier_0_state)
							multiplier_0_put_a : begin
								if (multiplier_0_input_a_ack) begin
									multiplier_0_input_a <= #1 _r2;
									multiplier_0_input_a_stb <= #1 1;
									multiplier_0_output_z_ack <= #1 0;
									multiplier_0_state <= #1 multiplier_0_put_b;
								end
							end
							multiplier_0_put_b : begin
								if (multiplier_0_input_b_ack) begin
									multiplier_0_input_b <= #1 _r1;
									multiplier_0_input_b_stb <= #1 1;
									multiplier_0_output_z_ack <= #1 0;
									multiplier_0_state <= #1 multiplier_0_get_z;
									multiplier_0_input_a_stb <= #1 0;
								end
							end
							multiplier_0_get_z : begin
								if (multiplier_0_output_z_stb) begin
									_r2 <= #1 multiplier_0_output_z;
									multiplier_0_output_z_ack <= #1 1;
									multiplier_0_state <= #1 multiplier_0_put_a;
									multiplier_0_input_b_stb <= #1 0;
									_pc <= #1 _pc + 1'b1;
								end
							end
							endcase
								$display("ADDF R2 R1");
							end
							R2 : begin
							case (multiplier_0_state)
							multiplier_0_put_a : begin
								if (multiplier_0_input_a_ack) begin
									multiplier_0_input_a <= #1 _r2;
									multiplier_0_input_a_stb <= #1 1;
									multiplier_0_output_z_ack <= #1 0;
									multiplier_0_state <= #1 multiplier_0_put_b;
								end
							end
							multiplier_0_put_b : begin
								if (multiplier_0_input_b_ack) begin
									multiplier_0_input_b <= #1 _r2;
									multiplier_0_input_b_stb <= #1 1;
									multiplier_0_output_z_ack <= #1 0;
									multiplier_0_state <= #1 multiplier_0_get_z;
									multiplier_0_input_a_stb <= #1 0;
								end
							end
							multiplier_0_get_z : begin
								if (multiplier_0_output_z_stb) begin
									_r2 <= #1 multiplier_0_output_z;
									multiplier_0_output_z_ack <= #1 1;
									multiplier_0_state <= #1 multiplier_0_put_a;
									multiplier_0_input_b_stb <= #1 0;
									_pc <= #1 _pc + 1'b1;
								end
							end
							endcase
								$display("ADDF R2 R2");
							end
							R3 : begin
							case (multiplier_0_state)
							multiplier_0_put_a : begin
								if (multiplier_0_input_a_ack) begin
									multiplier_0_input_a <= #1 _r2;
									multiplier_0_input_a_stb <= #1 1;
									multiplier_0_output_z_ack <= #1 0;
									multiplier_0_state <= #1 multiplier_0_put_b;
								end
							end
							multiplier_0_put_b : begin
								if (multiplier_0_input_b_ack) begin
									multiplier_0_input_b <= #1 _r3;
									multiplier_0_input_b_stb <= #1 1;
									multiplier_0_output_z_ack <= #1 0;
									multiplier_0_state <= #1 multiplier_0_get_z;
									multiplier_0_input_a_stb <= #1 0;
								end
							end
							multiplier_0_get_z : begin
								if (multiplier_0_output_z_stb) begin
									_r2 <= #1 multiplier_0_output_z;
									multiplier_0_output_z_ack <= #1 1;
									multiplier_0_state <= #1 multiplier_0_put_a;
									multiplier_0_input_b_stb <= #1 0;
									_pc <= #1 _pc + 1'b1;
								end
							end
							endcase
								$display("ADDF R2 R3");
							end
							endcase
						end
						R3 : begin
							case (current_instruction[31:30])
							R0 : begin
							case (multiplier_0_state)
							multiplier_0_put_a : begin
								if (multiplier_0_input_a_ack) begin
									multiplier_0_input_a <= #1 _r3;
									multiplier_0_input_a_stb <= #1 1;
									multiplier_0_output_z_ack <= #1 0;
									multiplier_0_state <= #1 multiplier_0_put_b;
								end
							end
							multiplier_0_put_b : begin
								if (multiplier_0_input_b_ack) begin
									multiplier_0_input_b <= #1 _r0;
									multiplier_0_input_b_stb <= #1 1;
									multiplier_0_output_z_ack <= #1 0;
									multiplier_0_state <= #1 multiplier_0_get_z;
									multiplier_0_input_a_stb <= #1 0;
								end
							end
							multiplier_0_get_z : begin
								if (multiplier_0_output_z_stb) begin
									_r3 <= #1 multiplier_0_output_z;
									multiplier_0_output_z_ack <= #1 1;
									multiplier_0_state <= #1 multiplier_0_put_a;
									multiplier_0_input_b_stb <= #1 0;
									_pc <= #1 _pc + 1'b1;
								end
							end
							endcase
								$display("ADDF R3 R0");
							end
							R1 : begin
							case (multiplier_0_state)
							multiplier_0_put_a : begin
								if (multiplier_0_input_a_ack) begin
									multiplier_0_input_a <= #1 _r3;
									multiplier_0_input_a_stb <= #1 1;
									multiplier_0_output_z_ack <= #1 0;
									multiplier_0_state <= #1 multiplier_0_put_b;
								end
							end
							multiplier_0_put_b : begin
								if (multiplier_0_input_b_ack) begin
									multiplier_0_input_b <= #1 _r1;
									multiplier_0_input_b_stb <= #1 1;
									multiplier_0_output_z_ack <= #1 0;
									multiplier_0_state <= #1 multiplier_0_get_z;
									multiplier_0_input_a_stb <= #1 0;
								end
							end
							multiplier_0_get_z : begin
								if (multiplier_0_output_z_stb) begin
									_r3 <= #1 multiplier_0_output_z;
									multiplier_0_output_z_ack <= #1 1;
									multiplier_0_state <= #1 multiplier_0_put_a;
									multiplier_0_input_b_stb <= #1 0;
									_pc <= #1 _pc + 1'b1;
								end
							end
							endcase
								$display("ADDF R3 R1");
							end
							R2 : begin
							case (multiplier_0_state)
							multiplier_0_put_a : begin
								if (multiplier_0_input_a_ack) begin
									multiplier_0_input_a <= #1 _r3;
									multiplier_0_input_a_stb <= #1 1;
									multiplier_0_output_z_ack <= #1 0;
									multiplier_0_state <= #1 multiplier_0_put_b;
								end
							end
							multiplier_0_put_b : begin
								if (multiplier_0_input_b_ack) begin
									multiplier_0_input_b <= #1 _r2;
									multiplier_0_input_b_stb <= #1 1;
									multiplier_0_output_z_ack <= #1 0;
									multiplier_0_state <= #1 multiplier_0_get_z;
									multiplier_0_input_a_stb <= #1 0;
								end
							end
							multiplier_0_get_z : begin
								if (multiplier_0_output_z_stb) begin
									_r3 <= #1 multiplier_0_output_z;
									multiplier_0_output_z_ack <= #1 1;
									multiplier_0_state <= #1 multiplier_0_put_a;
									multiplier_0_input_b_stb <= #1 0;
									_pc <= #1 _pc + 1'b1;
								end
							end
							endcase
								$display("ADDF R3 R2");
							end
							R3 : begin
							case (multiplier_0_state)
							multiplier_0_put_a : begin
								if (multiplier_0_input_a_ack) begin
									multiplier_0_input_a <= #1 _r3;
									multiplier_0_input_a_stb <= #1 1;
									multiplier_0_output_z_ack <= #1 0;
									multiplier_0_state <= #1 multiplier_0_put_b;
								end
							end
							multiplier_0_put_b : begin
								if (multiplier_0_input_b_ack) begin
									multiplier_0_input_b <= #1 _r3;
									multiplier_0_input_b_stb <= #1 1;
									multiplier_0_output_z_ack <= #1 0;
									multiplier_0_state <= #1 multiplier_0_get_z;
									multiplier_0_input_a_stb <= #1 0;
								end
							end
							multiplier_0_get_z : begin
								if (multiplier_0_output_z_stb) begin
									_r3 <= #1 multiplier_0_output_z;
									multiplier_0_output_z_ack <= #1 1;
									multiplier_0_state <= #1 multiplier_0_put_a;
									multiplier_0_input_b_stb <= #1 0;
									_pc <= #1 _pc + 1'b1;
								end
							end
							endcase
								$display("ADDF R3 R3");
							end
							endcase
						end
						endcase
					end
					DIVF: begin
						case (current_instruction[33:32])
						R0 : begin
							case (current_instruction[31:30])
							R0 : begin
							case (divider_0_state)
							divider_0_put_a : begin
								if (divider_0_input_a_ack) begin
									divider_0_input_a <= #1 _r0;
									divider_0_input_a_stb <= #1 1;
									divider_0_output_z_ack <= #1 0;
									divider_0_state <= #1 divider_0_put_b;
								end
							end
							divider_0_put_b : begin
								if (divider_0_input_b_ack) begin
									divider_0_input_b <= #1 _r0;
									divider_0_input_b_stb <= #1 1;
									divider_0_output_z_ack <= #1 0;
									divider_0_state <= #1 divider_0_get_z;
									divider_0_input_a_stb <= #1 0;
								end
							end
							divider_0_get_z : begin
								if (divider_0_output_z_stb) begin
									_r0 <= #1 divider_0_output_z;
									divider_0_output_z_ack <= #1 1;
									divider_0_state <= #1 divider_0_put_a;
									divider_0_input_b_stb <= #1 0;
									_pc <= #1 _pc + 1'b1;
								end
							end
							endcase
								$display("DIVF R0 R0");
							end
							R1 : begin
							case (divider_0_state)
							divider_0_put_a : begin
								if (divider_0_input_a_ack) begin
									divider_0_input_a <= #1 _r0;
									divider_0_input_a_stb <= #1 1;
									divider_0_output_z_ack <= #1 0;
									divider_0_state <= #1 divider_0_put_b;
								end
							end
							divider_0_put_b : begin
								if (divider_0_input_b_ack) begin
									divider_0_input_b <= #1 _r1;
									divider_0_input_b_stb <= #1 1;
									divider_0_output_z_ack <= #1 0;
									divider_0_state <= #1 divider_0_get_z;
									divider_0_input_a_stb <= #1 0;
								end
							end
							divider_0_get_z : begin
								if (divider_0_output_z_stb) begin
									_r0 <= #1 divider_0_output_z;
									divider_0_output_z_ack <= #1 1;
									divider_0_state <= #1 divider_0_put_a;
									divider_0_input_b_stb <= #1 0;
									_pc <= #1 _pc + 1'b1;
								end
							end
							endcase
								$display("DIVF R0 R1");
							end
							R2 : begin
							case (divider_0_state)
							divider_0_put_a : begin
								if (divider_0_input_a_ack) begin
									divider_0_input_a <= #1 _r0;
									divider_0_input_a_stb <= #1 1;
									divider_0_output_z_ack <= #1 0;
									divider_0_state <= #1 divider_0_put_b;
								end
							end
							divider_0_put_b : begin
								if (divider_0_input_b_ack) begin
									divider_0_input_b <= #1 _r2;
									divider_0_input_b_stb <= #1 1;
									divider_0_output_z_ack <= #1 0;
									divider_0_state <= #1 divider_0_get_z;
									divider_0_input_a_stb <= #1 0;
								end
							end
							divider_0_get_z : begin
								if (divider_0_output_z_stb) begin
									_r0 <= #1 divider_0_output_z;
									divider_0_output_z_ack <= #1 1;
									divider_0_state <= #1 divider_0_put_a;
									divider_0_input_b_stb <= #1 0;
									_pc <= #1 _pc + 1'b1;
								end
							end
							endcase
								$display("DIVF R0 R2");
							end
							R3 : begin
							case (divider_0_state)
							divider_0_put_a : begin
								if (divider_0_input_a_ack) begin
									divider_0_input_a <= #1 _r0;
									divider_0_input_a_stb <= #1 1;
									divider_0_output_z_ack <= #1 0;
									divider_0_state <= #1 divider_0_put_b;
								end
							end
							divider_0_put_b : begin
								if (divider_0_input_b_ack) begin
									divider_0_input_b <= #1 _r3;
									divider_0_input_b_stb <= #1 1;
									divider_0_output_z_ack <= #1 0;
									divider_0_state <= #1 divider_0_get_z;
									divider_0_input_a_stb <= #1 0;
								end
							end
							divider_0_get_z : begin
								if (divider_0_output_z_stb) begin
									_r0 <= #1 divider_0_output_z;
									divider_0_output_z_ack <= #1 1;
									divider_0_state <= #1 divider_0_put_a;
									divider_0_input_b_stb <= #1 0;
									_pc <= #1 _pc + 1'b1;
								end
							end
							endcase
								$display("DIVF R0 R3");
							end
							endcase
						end
						R1 : begin
							case (current_instruction[31:30])
							R0 : begin
							case (divider_0_state)
							divider_0_put_a : begin
								if (divider_0_input_a_ack) begin
									divider_0_input_a <= #1 _r1;
									divider_0_input_a_stb <= #1 1;
									divider_0_output_z_ack <= #1 0;
									divider_0_state <= #1 divider_0_put_b;
								end
							end
							divider_0_put_b : begin
								if (divider_0_input_b_ack) begin
									divider_0_input_b <= #1 _r0;
									divider_0_input_b_stb <= #1 1;
									divider_0_output_z_ack <= #1 0;
									divider_0_state <= #1 divider_0_get_z;
									divider_0_input_a_stb <= #1 0;
								end
							end
							divider_0_get_z : begin
								if (divider_0_output_z_stb) begin
									_r1 <= #1 divider_0_output_z;
									divider_0_output_z_ack <= #1 1;
									divider_0_state <= #1 divider_0_put_a;
									divider_0_input_b_stb <= #1 0;
									_pc <= #1 _pc + 1'b1;
								end
							end
							endcase
								$display("DIVF R1 R0");
							end
							R1 : begin
							case (divider_0_state)
							divider_0_put_a : begin
								if (divider_0_input_a_ack) begin
									divider_0_input_a <= #1 _r1;
									divider_0_input_a_stb <= #1 1;
									divider_0_output_z_ack <= #1 0;
									divider_0_state <= #1 divider_0_put_b;
								end
							end
							divider_0_put_b : begin
								if (divider_0_input_b_ack) begin
									divider_0_input_b <= #1 _r1;
									divider_0_input_b_stb <= #1 1;
									divider_0_output_z_ack <= #1 0;
									divider_0_state <= #1 divider_0_get_z;
									divider_0_input_a_stb <= #1 0;
								end
							end
							divider_0_get_z : begin
								if (divider_0_output_z_stb) begin
									_r1 <= #1 divider_0_output_z;
									divider_0_output_z_ack <= #1 1;
									divider_0_state <= #1 divider_0_put_a;
									divider_0_input_b_stb <= #1 0;
									_pc <= #1 _pc + 1'b1;
								end
							end
							endcase
								$display("DIVF R1 R1");
							end
							R2 : begin
							case (divider_0_state)
							divider_0_put_a : begin
								if (divider_0_input_a_ack) begin
									divider_0_input_a <= #1 _r1;
									divider_0_input_a_stb <= #1 1;
									divider_0_output_z_ack <= #1 0;
									divider_0_state <= #1 divider_0_put_b;
								end
							end
							divider_0_put_b : begin
								if (divider_0_input_b_ack) begin
									divider_0_input_b <= #1 _r2;
									divider_0_input_b_stb <= #1 1;
									divider_0_output_z_ack <= #1 0;
									divider_0_state <= #1 divider_0_get_z;
									divider_0_input_a_stb <= #1 0;
								end
							end
							divider_0_get_z : begin
								if (divider_0_output_z_stb) begin
									_r1 <= #1 divider_0_output_z;
									divider_0_output_z_ack <= #1 1;
									divider_0_state <= #1 divider_0_put_a;
									divider_0_input_b_stb <= #1 0;
									_pc <= #1 _pc + 1'b1;
								end
							end
							endcase
								$display("DIVF R1 R2");
							end
							R3 : begin
							case (divider_0_state)
							divider_0_put_a : begin
								if (divider_0_input_a_ack) begin
									divider_0_input_a <= #1 _r1;
									divider_0_input_a_stb <= #1 1;
									divider_0_output_z_ack <= #1 0;
									divider_0_state <= #1 divider_0_put_b;
								end
							end
							divider_0_put_b : begin
								if (divider_0_input_b_ack) begin
									divider_0_input_b <= #1 _r3;
									divider_0_input_b_stb <= #1 1;
									divider_0_output_z_ack <= #1 0;
									divider_0_state <= #1 divider_0_get_z;
									divider_0_input_a_stb <= #1 0;
								end
							end
							divider_0_get_z : begin
								if (divider_0_output_z_stb) begin
									_r1 <= #1 divider_0_output_z;
									divider_0_output_z_ack <= #1 1;
									divider_0_state <= #1 divider_0_put_a;
									divider_0_input_b_stb <= #1 0;
									_pc <= #1 _pc + 1'b1;
								end
							end
							endcase
								$display("DIVF R1 R3");
							end
							endcase
						end
						R2 : begin
							case (current_instruction[31:30])
							R0 : begin
							case (divider_0_state)
							divider_0_put_a : begin
								if (divider_0_input_a_ack) begin
									divider_0_input_a <= #1 _r2;
									divider_0_input_a_stb <= #1 1;
									divider_0_output_z_ack <= #1 0;
									divider_0_state <= #1 divider_0_put_b;
								end
							end
							divider_0_put_b : begin
								if (divider_0_input_b_ack) begin
									divider_0_input_b <= #1 _r0;
									divider_0_input_b_stb <= #1 1;
									divider_0_output_z_ack <= #1 0;
									divider_0_state <= #1 divider_0_get_z;
									divider_0_input_a_stb <= #1 0;
								end
							end
							divider_0_get_z : begin
								if (divider_0_output_z_stb) begin
									_r2 <= #1 divider_0_output_z;
									divider_0_output_z_ack <= #1 1;
									divider_0_state <= #1 divider_0_put_a;
									divider_0_input_b_stb <= #1 0;
									_pc <= #1 _pc + 1'b1;
								end
							end
							endcase
								$display("DIVF R2 R0");
							end
							R1 : begin
							case (divider_0_state)
							divider_0_put_a : begin
								if (divider_0_input_a_ack) begin
									divider_0_input_a <= #1 _r2;
									divider_0_input_a_stb <= #1 1;
									divider_0_output_z_ack <= #1 0;
									divider_0_state <= #1 divider_0_put_b;
								end
							end
							divider_0_put_b : begin
								if (divider_0_input_b_ack) begin
									divider_0_input_b <= #1 _r1;
									divider_0_input_b_stb <= #1 1;
									divider_0_output_z_ack <= #1 0;
									divider_0_state <= #1 divider_0_get_z;
									divider_0_input_a_stb <= #1 0;
								end
							end
							divider_0_get_z : begin
								if (divider_0_output_z_stb) begin
									_r2 <= #1 divider_0_output_z;
									divider_0_output_z_ack <= #1 1;
									divider_0_state <= #1 divider_0_put_a;
									divider_0_input_b_stb <= #1 0;
									_pc <= #1 _pc + 1'b1;
								end
							end
							endcase
								$display("DIVF R2 R1");
							end
							R2 : begin
							case (divider_0_state)
							divider_0_put_a : begin
								if (divider_0_input_a_ack) begin
									divider_0_input_a <= #1 _r2;
									divider_0_input_a_stb <= #1 1;
									divider_0_output_z_ack <= #1 0;
									divider_0_state <= #1 divider_0_put_b;
								end
							end
							divider_0_put_b : begin
								if (divider_0_input_b_ack) begin
									divider_0_input_b <= #1 _r2;
									divider_0_input_b_stb <= #1 1;
									divider_0_output_z_ack <= #1 0;
									divider_0_state <= #1 divider_0_get_z;
									divider_0_input_a_stb <= #1 0;
								end
							end
							divider_0_get_z : begin
								if (divider_0_output_z_stb) begin
									_r2 <= #1 divider_0_output_z;
									divider_0_output_z_ack <= #1 1;
									divider_0_state <= #1 divider_0_put_a;
									divider_0_input_b_stb <= #1 0;
									_pc <= #1 _pc + 1'b1;
								end
							end
							endcase
								$display("DIVF R2 R2");
							end
							R3 : begin
							case (divider_0_state)
							divider_0_put_a : begin
								if (divider_0_input_a_ack) begin
									divider_0_input_a <= #1 _r2;
									divider_0_input_a_stb <= #1 1;
									divider_0_output_z_ack <= #1 0;
									divider_0_state <= #1 divider_0_put_b;
								end
							end
							divider_0_put_b : begin
								if (divider_0_input_b_ack) begin
									divider_0_input_b <= #1 _r3;
									divider_0_input_b_stb <= #1 1;
									divider_0_output_z_ack <= #1 0;
									divider_0_state <= #1 divider_0_get_z;
									divider_0_input_a_stb <= #1 0;
								end
							end
							divider_0_get_z : begin
								if (divider_0_output_z_stb) begin
									_r2 <= #1 divider_0_output_z;
									divider_0_output_z_ack <= #1 1;
									divider_0_state <= #1 divider_0_put_a;
									divider_0_input_b_stb <= #1 0;
									_pc <= #1 _pc + 1'b1;
								end
							end
							endcase
								$display("DIVF R2 R3");
							end
							endcase
						end
						R3 : begin
							case (current_instruction[31:30])
							R0 : begin
							case (divider_0_state)
							divider_0_put_a : begin
								if (divider_0_input_a_ack) begin
									divider_0_input_a <= #1 _r3;
									divider_0_input_a_stb <= #1 1;
									divider_0_output_z_ack <= #1 0;
									divider_0_state <= #1 divider_0_put_b;
								end
							end
							divider_0_put_b : begin
								if (divider_0_input_b_ack) begin
									divider_0_input_b <= #1 _r0;
									divider_0_input_b_stb <= #1 1;
									divider_0_output_z_ack <= #1 0;
									divider_0_state <= #1 divider_0_get_z;
									divider_0_input_a_stb <= #1 0;
								end
							end
							divider_0_get_z : begin
								if (divider_0_output_z_stb) begin
									_r3 <= #1 divider_0_output_z;
									divider_0_output_z_ack <= #1 1;
									divider_0_state <= #1 divider_0_put_a;
									divider_0_input_b_stb <= #1 0;
									_pc <= #1 _pc + 1'b1;
								end
							end
							endcase
								$display("DIVF R3 R0");
							end
							R1 : begin
							case (divider_0_state)
							divider_0_put_a : begin
								if (divider_0_input_a_ack) begin
									divider_0_input_a <= #1 _r3;
									divider_0_input_a_stb <= #1 1;
									divider_0_output_z_ack <= #1 0;
									divider_0_state <= #1 divider_0_put_b;
								end
							end
							divider_0_put_b : begin
								if (divider_0_input_b_ack) begin
									divider_0_input_b <= #1 _r1;
									divider_0_input_b_stb <= #1 1;
									divider_0_output_z_ack <= #1 0;
									divider_0_state <= #1 divider_0_get_z;
									divider_0_input_a_stb <= #1 0;
								end
							end
							divider_0_get_z : begin
								if (divider_0_output_z_stb) begin
									_r3 <= #1 divider_0_output_z;
									divider_0_output_z_ack <= #1 1;
									divider_0_state <= #1 divider_0_put_a;
									divider_0_input_b_stb <= #1 0;
									_pc <= #1 _pc + 1'b1;
								end
							end
							endcase
								$display("DIVF R3 R1");
							end
							R2 : begin
							case (divider_0_state)
							divider_0_put_a : begin
								if (divider_0_input_a_ack) begin
									divider_0_input_a <= #1 _r3;
									divider_0_input_a_stb <= #1 1;
									divider_0_output_z_ack <= #1 0;
									divider_0_state <= #1 divider_0_put_b;
								end
							end
							divider_0_put_b : begin
								if (divider_0_input_b_ack) begin
									divider_0_input_b <= #1 _r2;
									divider_0_input_b_stb <= #1 1;
									divider_0_output_z_ack <= #1 0;
									divider_0_state <= #1 divider_0_get_z;
									divider_0_input_a_stb <= #1 0;
								end
							end
							divider_0_get_z : begin
								if (divider_0_output_z_stb) begin
									_r3 <= #1 divider_0_output_z;
									divider_0_output_z_ack <= #1 1;
									divider_0_state <= #1 divider_0_put_a;
									divider_0_input_b_stb <= #1 0;
									_pc <= #1 _pc + 1'b1;
								end
							end
							endcase
								$display("DIVF R3 R2");
							end
							R3 : begin
							case (divider_0_state)
							divider_0_put_a : begin
								if (divider_0_input_a_ack) begin
									divider_0_input_a <= #1 _r3;
									divider_0_input_a_stb <= #1 1;
									divider_0_output_z_ack <= #1 0;
									divider_0_state <= #1 divider_0_put_b;
								end
							end
							divider_0_put_b : begin
								if (divider_0_input_b_ack) begin
									divider_0_input_b <= #1 _r3;
									divider_0_input_b_stb <= #1 1;
									divider_0_output_z_ack <= #1 0;
									divider_0_state <= #1 divider_0_get_z;
									divider_0_input_a_stb <= #1 0;
								end
							end
							divider_0_get_z : begin
								if (divider_0_output_z_stb) begin
									_r3 <= #1 divider_0_output_z;
									divider_0_output_z_ack <= #1 1;
									divider_0_state <= #1 divider_0_put_a;
									divider_0_input_b_stb <= #1 0;
									_pc <= #1 _pc + 1'b1;
								end
							end
							endcase
								$display("DIVF R3 R3");
							end
							endcase
						end
						endcase
					end
					R2O: begin
						case (current_instruction[33:32])
						R0 : begin
							case (current_instruction[31])
							O0 : begin
								_auxo0 <= #1 _r0;
								$display("R2O R0 O0");
							end
							endcase
						end
						R1 : begin
							case (current_instruction[31])
							O0 : begin
								_auxo0 <= #1 _r1;
								$display("R2O R1 O0");
							end
							endcase
						end
						R2 : begin
							case (current_instruction[31])
							O0 : begin
								_auxo0 <= #1 _r2;
								$display("R2O R2 O0");
							end
							endcase
						end
						R3 : begin
							case (current_instruction[31])
							O0 : begin
								_auxo0 <= #1 _r3;
								$display("R2O R3 O0");
							end
							endcase
						end
						endcase
						_pc <= #1 _pc + 1'b1;
					end
					J: begin
						_pc <= #1 current_instruction[33:30];
						$display("J ", current_instruction[33:30]);
					end
					default : begin
						$display("Unknown Opcode");
						_pc <= #1 _pc + 1'b1;
					end
				endcase
			// ha placeholder
		end
	end
	assign rom_bus = _pc;
	assign o0 = _auxo0;
	assign o0_valid = o0_val;
endmodule

//IEEE Floating Point Multiplier (Single Precision)
//Copyright (C) Jonathan P Dawson 2013
//2013-12-12
module adder_0 (
	input_a,
        input_b,
        input_a_stb,
        input_b_stb,
        output_z_ack,
        clk,
        rst,
        output_z,
        output_z_stb,
        input_a_ack,
        input_b_ack);

  input     clk;
  input     rst;

  input     [31:0] input_a;
  input     input_a_stb;
  output    input_a_ack;

  input     [31:0] input_b;
  input     input_b_stb;
  output    input_b_ack;

  output    [31:0] output_z;
  output    output_z_stb;
  input     output_z_ack;

  reg       s_output_z_stb;
  reg       [31:0] s_output_z;
  reg       s_input_a_ack;
  reg       s_input_b_ack;

  reg       [3:0] state;
  parameter get_a         = 4'd0,
            get_b         = 4'd1,
            unpack        = 4'd2,
            special_cases = 4'd3,
            align         = 4'd4,
            add_0         = 4'd5,
            add_1         = 4'd6,
            normalise_1   = 4'd7,
            normalise_2   = 4'd8,
            round         = 4'd9,
            pack          = 4'd10,
            put_z         = 4'd11;

  reg       [31:0] a, b, z;
  reg       [26:0] a_m, b_m;
  reg       [23:0] z_m;
  reg       [9:0] a_e, b_e, z_e;
  reg       a_s, b_s, z_s;
  reg       guard, round_bit, sticky;
  reg       [27:0] sum;

  always @(posedge clk)
  begin

    case(state)

      get_a:
      begin
        s_input_a_ack <= 1;
        if (s_input_a_ack && input_a_stb) begin
          a <= input_a;
          s_input_a_ack <= 0;
          state <= get_b;
        end
      end

      get_b:
      begin
        s_input_b_ack <= 1;
        if (s_input_b_ack && input_b_stb) begin
          b <= input_b;
          s_input_b_ack <= 0;
          state <= unpack;
        end
      end

      unpack:
      begin
        a_m <= {a[22 : 0], 3'd0};
        b_m <= {b[22 : 0], 3'd0};
        a_e <= a[30 : 23] - 127;
        b_e <= b[30 : 23] - 127;
        a_s <= a[31];
        b_s <= b[31];
        state <= special_cases;
      end

      special_cases:
      begin
        //if a is NaN or b is NaN return NaN 
        if ((a_e == 128 && a_m != 0) || (b_e == 128 && b_m != 0)) begin
          z[31] <= 1;
          z[30:23] <= 255;
          z[22] <= 1;
          z[21:0] <= 0;
          state <= put_z;
        //if a is inf return inf
        end else if (a_e == 128) begin
          z[31] <= a_s;
          z[30:23] <= 255;
          z[22:0] <= 0;
          //if a is inf and signs don't match return nan
          if ((b_e == 128) && (a_s != b_s)) begin
              z[31] <= b_s;
              z[30:23] <= 255;
              z[22] <= 1;
              z[21:0] <= 0;
          end
          state <= put_z;
        //if b is inf return inf
        end else if (b_e == 128) begin
          z[31] <= b_s;
          z[30:23] <= 255;
          z[22:0] <= 0;
          state <= put_z;
        //if a is zero return b
        end else if ((($signed(a_e) == -127) && (a_m == 0)) && (($signed(b_e) == -127) && (b_m == 0))) begin
          z[31] <= a_s & b_s;
          z[30:23] <= b_e[7:0] + 127;
          z[22:0] <= b_m[26:3];
          state <= put_z;
        //if a is zero return b
        end else if (($signed(a_e) == -127) && (a_m == 0)) begin
          z[31] <= b_s;
          z[30:23] <= b_e[7:0] + 127;
          z[22:0] <= b_m[26:3];
          state <= put_z;
        //if b is zero return a
        end else if (($signed(b_e) == -127) && (b_m == 0)) begin
          z[31] <= a_s;
          z[30:23] <= a_e[7:0] + 127;
          z[22:0] <= a_m[26:3];
          state <= put_z;
        end else begin
          //Denormalised Number
          if ($signed(a_e) == -127) begin
            a_e <= -126;
          end else begin
            a_m[26] <= 1;
          end
          //Denormalised Number
          if ($signed(b_e) == -127) begin
            b_e <= -126;
          end else begin
            b_m[26] <= 1;
          end
          state <= align;
        end
      end

      align:
      begin
        if ($signed(a_e) > $signed(b_e)) begin
          b_e <= b_e + 1;
          b_m <= b_m >> 1;
          b_m[0] <= b_m[0] | b_m[1];
        end else if ($signed(a_e) < $signed(b_e)) begin
          a_e <= a_e + 1;
          a_m <= a_m >> 1;
          a_m[0] <= a_m[0] | a_m[1];
        end else begin
          state <= add_0;
        end
      end

      add_0:
      begin
        z_e <= a_e;
        if (a_s == b_s) begin
          sum <= a_m + b_m;
          z_s <= a_s;
        end else begin
          if (a_m >= b_m) begin
            sum <= a_m - b_m;
            z_s <= a_s;
          end else begin
            sum <= b_m - a_m;
            z_s <= b_s;
          end
        end
        state <= add_1;
      end

      add_1:
      begin
        if (sum[27]) begin
          z_m <= sum[27:4];
          guard <= sum[3];
          round_bit <= sum[2];
          sticky <= sum[1] | sum[0];
          z_e <= z_e + 1;
        end else begin
          z_m <= sum[26:3];
          guard <= sum[2];
          round_bit <= sum[1];
          sticky <= sum[0];
        end
        state <= normalise_1;
      end

      normalise_1:
      begin
        if (z_m[23] == 0 && $signed(z_e) > -126) begin
          z_e <= z_e - 1;
          z_m <= z_m << 1;
          z_m[0] <= guard;
          guard <= round_bit;
          round_bit <= 0;
        end else begin
          state <= normalise_2;
        end
      end

      normalise_2:
      begin
        if ($signed(z_e) < -126) begin
          z_e <= z_e + 1;
          z_m <= z_m >> 1;
          guard <= z_m[0];
          round_bit <= guard;
          sticky <= sticky | round_bit;
        end else begin
          state <= round;
        end
      end

      round:
      begin
        if (guard && (round_bit | sticky | z_m[0])) begin
          z_m <= z_m + 1;
          if (z_m == 24'hffffff) begin
            z_e <=z_e + 1;
          end
        end
        state <= pack;
      end

      pack:
      begin
        z[22 : 0] <= z_m[22:0];
        z[30 : 23] <= z_e[7:0] + 127;
        z[31] <= z_s;
        if ($signed(z_e) == -126 && z_m[23] == 0) begin
          z[30 : 23] <= 0;
        end
        if ($signed(z_e) == -126 && z_m[23:0] == 24'h0) begin
          z[31] <= 1'b0; // FIX SIGN BUG: -a + a = +0.
        end
        //if overflow occurs, return inf
        if ($signed(z_e) > 127) begin
          z[22 : 0] <= 0;
          z[30 : 23] <= 255;
          z[31] <= z_s;
        end
        state <= put_z;
      end

      put_z:
      begin
        s_output_z_stb <= 1;
        s_output_z <= z;
        if (s_output_z_stb && output_z_ack) begin
          s_output_z_stb <= 0;
          state <= get_a;
        end
      end

    endcase

    if (rst == 1) begin
      state <= get_a;
      s_input_a_ack <= 0;
      s_input_b_ack <= 0;
      s_output_z_stb <= 0;
    end

  end
  assign input_a_ack = s_input_a_ack;
  assign input_b_ack = s_input_b_ack;
  assign output_z_stb = s_output_z_stb;
  assign output_z = s_output_z;
endmodule


//IEEE Floating Point Multiplier (Single Precision)
//Copyright (C) Jonathan P Dawson 2013
//2013-12-12
module multiplier_0 (
	input_a,
        input_b,
        input_a_stb,
        input_b_stb,
        output_z_ack,
        clk,
        rst,
        output_z,
        output_z_stb,
        input_a_ack,
        input_b_ack);

  input     clk;
  input     rst;

  input     [31:0] input_a;
  input     input_a_stb;
  output    input_a_ack;

  input     [31:0] input_b;
  input     input_b_stb;
  output    input_b_ack;

  output    [31:0] output_z;
  output    output_z_stb;
  input     output_z_ack;

  reg       s_output_z_stb;
  reg       [31:0] s_output_z;
  reg       s_input_a_ack;
  reg       s_input_b_ack;

  reg       [3:0] state;
  parameter get_a         = 4'd0,
            get_b         = 4'd1,
            unpack        = 4'd2,
            special_cases = 4'd3,
            normalise_a   = 4'd4,
            normalise_b   = 4'd5,
            multiply_0    = 4'd6,
            multiply_1    = 4'd7,
            normalise_1   = 4'd8,
            normalise_2   = 4'd9,
            round         = 4'd10,
            pack          = 4'd11,
            put_z         = 4'd12;

  reg       [31:0] a, b, z;
  reg       [23:0] a_m, b_m, z_m;
  reg       [9:0] a_e, b_e, z_e;
  reg       a_s, b_s, z_s;
  reg       guard, round_bit, sticky;
  reg       [47:0] product;

  always @(posedge clk)
  begin

    case(state)

      get_a:
      begin
        s_input_a_ack <= 1;
        if (s_input_a_ack && input_a_stb) begin
          a <= input_a;
          s_input_a_ack <= 0;
          state <= get_b;
        end
      end

      get_b:
      begin
        s_input_b_ack <= 1;
        if (s_input_b_ack && input_b_stb) begin
          b <= input_b;
          s_input_b_ack <= 0;
          state <= unpack;
        end
      end

      unpack:
      begin
        a_m <= a[22 : 0];
        b_m <= b[22 : 0];
        a_e <= a[30 : 23] - 127;
        b_e <= b[30 : 23] - 127;
        a_s <= a[31];
        b_s <= b[31];
        state <= special_cases;
      end

      special_cases:
      begin
        //if a is NaN or b is NaN return NaN 
        if ((a_e == 128 && a_m != 0) || (b_e == 128 && b_m != 0)) begin
          z[31] <= 1;
          z[30:23] <= 255;
          z[22] <= 1;
          z[21:0] <= 0;
          state <= put_z;
        //if a is inf return inf
        end else if (a_e == 128) begin
          z[31] <= a_s ^ b_s;
          z[30:23] <= 255;
          z[22:0] <= 0;
          //if b is zero return NaN
          if (($signed(b_e) == -127) && (b_m == 0)) begin
            z[31] <= 1;
            z[30:23] <= 255;
            z[22] <= 1;
            z[21:0] <= 0;
          end
          state <= put_z;
        //if b is inf return inf
        end else if (b_e == 128) begin
          z[31] <= a_s ^ b_s;
          z[30:23] <= 255;
          z[22:0] <= 0;
          //if a is zero return NaN
          if (($signed(a_e) == -127) && (a_m == 0)) begin
            z[31] <= 1;
            z[30:23] <= 255;
            z[22] <= 1;
            z[21:0] <= 0;
          end
          state <= put_z;
        //if a is zero return zero
        end else if (($signed(a_e) == -127) && (a_m == 0)) begin
          z[31] <= a_s ^ b_s;
          z[30:23] <= 0;
          z[22:0] <= 0;
          state <= put_z;
        //if b is zero return zero
        end else if (($signed(b_e) == -127) && (b_m == 0)) begin
          z[31] <= a_s ^ b_s;
          z[30:23] <= 0;
          z[22:0] <= 0;
          state <= put_z;
        end else begin
          //Denormalised Number
          if ($signed(a_e) == -127) begin
            a_e <= -126;
          end else begin
            a_m[23] <= 1;
          end
          //Denormalised Number
          if ($signed(b_e) == -127) begin
            b_e <= -126;
          end else begin
            b_m[23] <= 1;
          end
          state <= normalise_a;
        end
      end

      normalise_a:
      begin
        if (a_m[23]) begin
          state <= normalise_b;
        end else begin
          a_m <= a_m << 1;
          a_e <= a_e - 1;
        end
      end

      normalise_b:
      begin
        if (b_m[23]) begin
          state <= multiply_0;
        end else begin
          b_m <= b_m << 1;
          b_e <= b_e - 1;
        end
      end

      multiply_0:
      begin
        z_s <= a_s ^ b_s;
        z_e <= a_e + b_e + 1;
        product <= a_m * b_m;
        state <= multiply_1;
      end

      multiply_1:
      begin
        z_m <= product[47:24];
        guard <= product[23];
        round_bit <= product[22];
        sticky <= (product[21:0] != 0);
        state <= normalise_1;
      end

      normalise_1:
      begin
        if (z_m[23] == 0) begin
          z_e <= z_e - 1;
          z_m <= z_m << 1;
          z_m[0] <= guard;
          guard <= round_bit;
          round_bit <= 0;
        end else begin
          state <= normalise_2;
        end
      end

      normalise_2:
      begin
        if ($signed(z_e) < -126) begin
          z_e <= z_e + 1;
          z_m <= z_m >> 1;
          guard <= z_m[0];
          round_bit <= guard;
          sticky <= sticky | round_bit;
        end else begin
          state <= round;
        end
      end

      round:
      begin
        if (guard && (round_bit | sticky | z_m[0])) begin
          z_m <= z_m + 1;
          if (z_m == 24'hffffff) begin
            z_e <=z_e + 1;
          end
        end
        state <= pack;
      end

      pack:
      begin
        z[22 : 0] <= z_m[22:0];
        z[30 : 23] <= z_e[7:0] + 127;
        z[31] <= z_s;
        if ($signed(z_e) == -126 && z_m[23] == 0) begin
          z[30 : 23] <= 0;
        end
        //if overflow occurs, return inf
        if ($signed(z_e) > 127) begin
          z[22 : 0] <= 0;
          z[30 : 23] <= 255;
          z[31] <= z_s;
        end
        state <= put_z;
      end

      put_z:
      begin
        s_output_z_stb <= 1;
        s_output_z <= z;
        if (s_output_z_stb && output_z_ack) begin
          s_output_z_stb <= 0;
          state <= get_a;
        end
      end

    endcase

    if (rst == 1) begin
      state <= get_a;
      s_input_a_ack <= 0;
      s_input_b_ack <= 0;
      s_output_z_stb <= 0;
    end

  end
  assign input_a_ack = s_input_a_ack;
  assign input_b_ack = s_input_b_ack;
  assign output_z_stb = s_output_z_stb;
  assign output_z = s_output_z;
endmodule


//IEEE Floating Point Multiplier (Single Precision)
//Copyright (C) Jonathan P Dawson 2013
//2013-12-12
module divider_0 (
	input_a,
        input_b,
        input_a_stb,
        input_b_stb,
        output_z_ack,
        clk,
        rst,
        output_z,
        output_z_stb,
        input_a_ack,
        input_b_ack);

  input     clk;
  input     rst;

  input     [31:0] input_a;
  input     input_a_stb;
  output    input_a_ack;

  input     [31:0] input_b;
  input     input_b_stb;
  output    input_b_ack;

  output    [31:0] output_z;
  output    output_z_stb;
  input     output_z_ack;

  reg       s_output_z_stb;
  reg       [31:0] s_output_z;
  reg       s_input_a_ack;
  reg       s_input_b_ack;

  reg       [3:0] state;
  parameter get_a         = 4'd0,
            get_b         = 4'd1,
            unpack        = 4'd2,
            special_cases = 4'd3,
            normalise_a   = 4'd4,
            normalise_b   = 4'd5,
            divide_0      = 4'd6,
            divide_1      = 4'd7,
            divide_2      = 4'd8,
            divide_3      = 4'd9,
            normalise_1   = 4'd10,
            normalise_2   = 4'd11,
            round         = 4'd12,
            pack          = 4'd13,
            put_z         = 4'd14;

  reg       [31:0] a, b, z;
  reg       [23:0] a_m, b_m, z_m;
  reg       [9:0] a_e, b_e, z_e;
  reg       a_s, b_s, z_s;
  reg       guard, round_bit, sticky;
  reg       [50:0] quotient, divisor, dividend, remainder;
  reg       [5:0] count;

  always @(posedge clk)
  begin

    case(state)

      get_a:
      begin
        s_input_a_ack <= 1;
        if (s_input_a_ack && input_a_stb) begin
          a <= input_a;
          s_input_a_ack <= 0;
          state <= get_b;
        end
      end

      get_b:
      begin
        s_input_b_ack <= 1;
        if (s_input_b_ack && input_b_stb) begin
          b <= input_b;
          s_input_b_ack <= 0;
          state <= unpack;
        end
      end

      unpack:
      begin
        a_m <= a[22 : 0];
        b_m <= b[22 : 0];
        a_e <= a[30 : 23] - 127;
        b_e <= b[30 : 23] - 127;
        a_s <= a[31];
        b_s <= b[31];
        state <= special_cases;
      end

      special_cases:
      begin
        //if a is NaN or b is NaN return NaN 
        if ((a_e == 128 && a_m != 0) || (b_e == 128 && b_m != 0)) begin
          z[31] <= 1;
          z[30:23] <= 255;
          z[22] <= 1;
          z[21:0] <= 0;
          state <= put_z;
          //if a is inf and b is inf return NaN 
        end else if ((a_e == 128) && (b_e == 128)) begin
          z[31] <= 1;
          z[30:23] <= 255;
          z[22] <= 1;
          z[21:0] <= 0;
          state <= put_z;
        //if a is inf return inf
        end else if (a_e == 128) begin
          z[31] <= a_s ^ b_s;
          z[30:23] <= 255;
          z[22:0] <= 0;
          state <= put_z;
           //if b is zero return NaN
          if ($signed(b_e == -127) && (b_m == 0)) begin
            z[31] <= 1;
            z[30:23] <= 255;
            z[22] <= 1;
            z[21:0] <= 0;
            state <= put_z;
          end
        //if b is inf return zero
        end else if (b_e == 128) begin
          z[31] <= a_s ^ b_s;
          z[30:23] <= 0;
          z[22:0] <= 0;
          state <= put_z;
        //if a is zero return zero
        end else if (($signed(a_e) == -127) && (a_m == 0)) begin
          z[31] <= a_s ^ b_s;
          z[30:23] <= 0;
          z[22:0] <= 0;
          state <= put_z;
           //if b is zero return NaN
          if (($signed(b_e) == -127) && (b_m == 0)) begin
            z[31] <= 1;
            z[30:23] <= 255;
            z[22] <= 1;
            z[21:0] <= 0;
            state <= put_z;
          end
        //if b is zero return inf
        end else if (($signed(b_e) == -127) && (b_m == 0)) begin
          z[31] <= a_s ^ b_s;
          z[30:23] <= 255;
          z[22:0] <= 0;
          state <= put_z;
        end else begin
          //Denormalised Number
          if ($signed(a_e) == -127) begin
            a_e <= -126;
          end else begin
            a_m[23] <= 1;
          end
          //Denormalised Number
          if ($signed(b_e) == -127) begin
            b_e <= -126;
          end else begin
            b_m[23] <= 1;
          end
          state <= normalise_a;
        end
      end

      normalise_a:
      begin
        if (a_m[23]) begin
          state <= normalise_b;
        end else begin
          a_m <= a_m << 1;
          a_e <= a_e - 1;
        end
      end

      normalise_b:
      begin
        if (b_m[23]) begin
          state <= divide_0;
        end else begin
          b_m <= b_m << 1;
          b_e <= b_e - 1;
        end
      end

      divide_0:
      begin
        z_s <= a_s ^ b_s;
        z_e <= a_e - b_e;
        quotient <= 0;
        remainder <= 0;
        count <= 0;
        dividend <= a_m << 27;
        divisor <= b_m;
        state <= divide_1;
      end

      divide_1:
      begin
        quotient <= quotient << 1;
        remainder <= remainder << 1;
        remainder[0] <= dividend[50];
        dividend <= dividend << 1;
        state <= divide_2;
      end

      divide_2:
      begin
        if (remainder >= divisor) begin
          quotient[0] <= 1;
          remainder <= remainder - divisor;
        end
        if (count == 49) begin
          state <= divide_3;
        end else begin
          count <= count + 1;
          state <= divide_1;
        end
      end

      divide_3:
      begin
        z_m <= quotient[26:3];
        guard <= quotient[2];
        round_bit <= quotient[1];
        sticky <= quotient[0] | (remainder != 0);
        state <= normalise_1;
      end

      normalise_1:
      begin
        if (z_m[23] == 0 && $signed(z_e) > -126) begin
          z_e <= z_e - 1;
          z_m <= z_m << 1;
          z_m[0] <= guard;
          guard <= round_bit;
          round_bit <= 0;
        end else begin
          state <= normalise_2;
        end
      end

      normalise_2:
      begin
        if ($signed(z_e) < -126) begin
          z_e <= z_e + 1;
          z_m <= z_m >> 1;
          guard <= z_m[0];
          round_bit <= guard;
          sticky <= sticky | round_bit;
        end else begin
          state <= round;
        end
      end

      round:
      begin
        if (guard && (round_bit | sticky | z_m[0])) begin
          z_m <= z_m + 1;
          if (z_m == 24'hffffff) begin
            z_e <=z_e + 1;
          end
        end
        state <= pack;
      end

      pack:
      begin
        z[22 : 0] <= z_m[22:0];
        z[30 : 23] <= z_e[7:0] + 127;
        z[31] <= z_s;
        if ($signed(z_e) == -126 && z_m[23] == 0) begin
          z[30 : 23] <= 0;
        end
        //if overflow occurs, return inf
        if ($signed(z_e) > 127) begin
          z[22 : 0] <= 0;
          z[30 : 23] <= 255;
          z[31] <= z_s;
        end
        state <= put_z;
      end

      put_z:
      begin
        s_output_z_stb <= 1;
        s_output_z <= z;
        if (s_output_z_stb && output_z_ack) begin
          s_output_z_stb <= 0;
          state <= get_a;
        end
      end

    endcase

    if (rst == 1) begin
      state <= get_a;
      s_input_a_ack <= 0;
      s_input_b_ack <= 0;
      s_output_z_stb <= 0;
    end

  end
  assign input_a_ack = s_input_a_ack;
  assign input_b_ack = s_input_b_ack;
  assign output_z_stb = s_output_z_stb;
  assign output_z = s_output_z;
endmodule

