
module lifo_1s1r(clk,
    reset,
    pushData,
    pushWrite,
    pushAck,
    popData,
    popRead,
    popAck,
    empty,
    full
);
    input clk;
    input reset;
    output empty;
    output full;
    input [7:0] pushData;
    input pushWrite;
    output reg pushAck;
    output reg [7:0] popData;
    input popRead;
    output reg popAck;

    reg [7:0] memory[3:0];
    reg [2:0] sp;

    assign empty = (sp==0)? 1'b1:1'b0; 
    assign full = (sp==4)? 1'b1:1'b0;
    
    wire readneed;
    wire writeneed;

    assign writeneed = ( 1'b0
            | pushWrite );

    assign readneed = ( 1'b0
            | popRead );

    reg [0:0] sendSM;
    //
    //localparam sendSMpush = 1'd0;
    //
    
    reg [0:0] recvSM;
    //
    //localparam recvSMpop = 1'd0;
    //

    integer i;

    always @(posedge clk) begin
        if (reset) begin
            sp <= 3'd0;
            popData <= 8'd0;
            popAck <= 1'b0;
            pushAck <= 1'b0;
            sendSM <= 1'd0;
            recvSM <= 1'd0;
            for (i=0;i<4;i=i+1) begin
                memory[i]<=8'd0;
            end
        end
        else begin
            // Read state machine part
            if (readneed && !empty) begin
                case (recvSM)
                1'd0: begin
                    if (popRead && !popAck) begin
                        popData[7:0] <= memory[sp-1];
                        sp <= sp - 1;
                    end
                    recvSM <= 1'd0;
                end
                endcase
            end
            // Write state machine part
            else if (writeneed && !full) begin
                case (sendSM)
                1'd0: begin
                    if (pushWrite && !pushAck) begin
                        memory[sp] <= pushData[7:0];
                        sp <= sp + 1;
                    end
                    sendSM <= 1'd0;
                end
                endcase
            end

            // Read ack process
            if (popRead && !popAck && recvSM==1'd0 && !empty) begin
                popAck <= 1'b1;
            end
            else begin
                if (!popRead) begin
                    popAck <= 1'b0;
                end
            end

            // Write ack process
            if (!(readneed && !empty) && pushWrite && !pushAck && sendSM==1'd0 && !full) begin
                pushAck <= 1'b1;
            end
            else begin
                if (!pushWrite) begin
                    pushAck <= 1'b0;
                end
            end
        end
    end
endmodule
