
module lifo_2s3r(clk,
    reset,
    saData,
    saWrite,
    saAck,
    sbData,
    sbWrite,
    sbAck,
    raData,
    raRead,
    raAck,
    rbData,
    rbRead,
    rbAck,
    rcData,
    rcRead,
    rcAck,
    empty,
    full
);
    input clk;
    input reset;
    output empty;
    output full;
    input [15:0] saData;
    input saWrite;
    output reg saAck;
    input [15:0] sbData;
    input sbWrite;
    output reg sbAck;
    output reg [15:0] raData;
    input raRead;
    output reg raAck;
    output reg [15:0] rbData;
    input rbRead;
    output reg rbAck;
    output reg [15:0] rcData;
    input rcRead;
    output reg rcAck;

    reg [15:0] memory[4:0];
    reg [2:0] sp;

    assign empty = (sp==0)? 1'b1:1'b0; 
    assign full = (sp==5)? 1'b1:1'b0;
    
    wire readneed;
    wire writeneed;

    assign writeneed = ( 1'b0
            | saWrite
            | sbWrite );

    assign readneed = ( 1'b0
            | raRead
            | rbRead
            | rcRead );

    reg [0:0] sendSM;
    //
    //localparam sendSMsa = 1'd0;
    //
    //localparam sendSMsb = 1'd1;
    //
    
    reg [1:0] recvSM;
    //
    //localparam recvSMra = 2'd0;
    //
    //localparam recvSMrb = 2'd1;
    //
    //localparam recvSMrc = 2'd2;
    //

    integer i;

    always @(posedge clk) begin
        if (reset) begin
            sp <= 3'd0;
            raData <= 16'd0;
            raAck <= 1'b0;
            rbData <= 16'd0;
            rbAck <= 1'b0;
            rcData <= 16'd0;
            rcAck <= 1'b0;
            saAck <= 1'b0;
            sbAck <= 1'b0;
            sendSM <= 1'd0;
            recvSM <= 2'd0;
            for (i=0;i<5;i=i+1) begin
                memory[i]<=16'd0;
            end
        end
        else begin
            // Read state machine part
            if (readneed && !empty) begin
                case (recvSM)
                2'd0: begin
                    if (raRead && !raAck) begin
                        raData[15:0] <= memory[sp-1];
                        sp <= sp - 1;
                    end
                    recvSM <= 2'd1;
                end
                2'd1: begin
                    if (rbRead && !rbAck) begin
                        rbData[15:0] <= memory[sp-1];
                        sp <= sp - 1;
                    end
                    recvSM <= 2'd2;
                end
                2'd2: begin
                    if (rcRead && !rcAck) begin
                        rcData[15:0] <= memory[sp-1];
                        sp <= sp - 1;
                    end
                    recvSM <= 2'd0;
                end
                endcase
            end
            // Write state machine part
            else if (writeneed && !full) begin
                case (sendSM)
                1'd0: begin
                    if (saWrite && !saAck) begin
                        memory[sp] <= saData[15:0];
                        sp <= sp + 1;
                    end
                    sendSM <= 1'd1;
                end
                1'd1: begin
                    if (sbWrite && !sbAck) begin
                        memory[sp] <= sbData[15:0];
                        sp <= sp + 1;
                    end
                    sendSM <= 1'd0;
                end
                endcase
            end

            // Read ack process
            if (raRead && !raAck && recvSM==2'd0 && !empty) begin
                raAck <= 1'b1;
            end
            else begin
                if (!raRead) begin
                    raAck <= 1'b0;
                end
            end
            if (rbRead && !rbAck && recvSM==2'd1 && !empty) begin
                rbAck <= 1'b1;
            end
            else begin
                if (!rbRead) begin
                    rbAck <= 1'b0;
                end
            end
            if (rcRead && !rcAck && recvSM==2'd2 && !empty) begin
                rcAck <= 1'b1;
            end
            else begin
                if (!rcRead) begin
                    rcAck <= 1'b0;
                end
            end

            // Write ack process
            if (!(readneed && !empty) && saWrite && !saAck && sendSM==1'd0 && !full) begin
                saAck <= 1'b1;
            end
            else begin
                if (!saWrite) begin
                    saAck <= 1'b0;
                end
            end
            if (!(readneed && !empty) && sbWrite && !sbAck && sendSM==1'd1 && !full) begin
                sbAck <= 1'b1;
            end
            else begin
                if (!sbWrite) begin
                    sbAck <= 1'b0;
                end
            end
        end
    end
endmodule
