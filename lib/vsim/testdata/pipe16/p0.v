`timescale 1ns/1ps
module p0(clock_signal, reset_signal, rom_bus, rom_value, o0, o0_valid, o0_received);

	input clock_signal;
	input reset_signal;
	output  [4:0] rom_bus;
	input  [21:0] rom_value;

	output [15:0] o0;
	output o0_valid;
	input o0_received;

			// Opcodes in the instructions, length according the number of the selected.
	localparam	RSET=4'b0000,          // Register set value
			ADDP=4'b0001,          // Register pipelined addition
			MULTP=4'b0010,          // Register pipelined multiplcation
			DIVP=4'b0011,          // Register pipelined multiplcation
			CMPR=4'b0100,          // Register comparison
			JCMPL=4'b0101,          // Jump to a program location conditioned to the comparison flag
			JCMPO=4'b0110,          // Jump to a program location in the ROM conditioned to the comparison flag
			JCMPRIO=4'b0111,          // Register indirect Jump to a program location on ROM conditioned to the comparison flag
			JRI=4'b1000,          // Register indirect Jump to a program location
			JRIO=4'b1001,          // Register indirect Jump to a program location on ROM
			JO=4'b1010,          // Jump to a program location in the ROM
			R2O=4'b1011,          // Register to output
			J=4'b1100,          // Jump to a program location
			INC=4'b1101;          // Increment a register by 1

	localparam	R0=2'b00,		// Registers in the intructions
			R1=2'b01,
			R2=2'b10,
			R3=2'b11;
	localparam			O0=1'b0;
	reg [15:0] _auxo0;

	reg [15:0] _ram [0:0];		// Internal processor RAM

	(* KEEP = "TRUE" *) reg [4:0] _pc;		// Program counter

	// The number of registers are 2^R, two letters and an underscore as identifier , maximum R=8 and 265 rigisters
	(* KEEP = "TRUE" *) reg [15:0] _r0;
	(* KEEP = "TRUE" *) reg [15:0] _r1;
	(* KEEP = "TRUE" *) reg [15:0] _r2;
	(* KEEP = "TRUE" *) reg [15:0] _r3;

	wire [21:0] current_instruction;
	assign current_instruction=rom_value;

	reg [15:0] addp_0_input_a;
	reg [15:0] addp_0_input_b;
	wire [15:0] addp_0_output_z;
	reg	[1:0] addp_0_state;
parameter addp_0_put         = 2'd0,
          addp_0_get         = 2'd1;
	addp_0 addp_0_inst (addp_0_input_a, addp_0_input_b,  addp_0_output_z);

	reg [15:0] multp_0_input_a;
	reg [15:0] multp_0_input_b;
	wire [15:0] multp_0_output_z;
	reg	[1:0] multp_0_state;
parameter multp_0_put         = 2'd0,
          multp_0_get         = 2'd1;
	multp_0 multp_0_inst (multp_0_input_a, multp_0_input_b,  multp_0_output_z);

	reg [15:0] divp_0_input_a;
	reg [15:0] divp_0_input_b;
	wire [15:0] divp_0_output_z;
	reg	[1:0] divp_0_state;
parameter divp_0_put         = 2'd0,
          divp_0_get         = 2'd1;
	divp_0 divp_0_inst (divp_0_input_a, divp_0_input_b,  divp_0_output_z);

	reg cmpflag;

	reg o0_val;
	reg waitsm;
	initial waitsm = 1'b0;

	always @(posedge clock_signal, posedge reset_signal)
	begin
		if (reset_signal)
		begin
			o0_val <= #1 1'b0;
		end
		else
		begin
			case(current_instruction[21:18])
				R2O: begin
					case (current_instruction[15])
					O0 : begin
						o0_val <= 1'b1;
					end
					default: begin
						if (o0_received)
						begin
							o0_val <= #1 1'b0;
						end
					end
					endcase
				end
				default: begin
					if (o0_received)
					begin
						o0_val <= #1 1'b0;
					end
				end
			endcase
		end
	end

	always @(posedge clock_signal, posedge reset_signal)
	begin
		if(reset_signal)
		begin
			_pc <= #1 5'h0;
			_r0 <= #1 16'h0;
			_r1 <= #1 16'h0;
			_r2 <= #1 16'h0;
			_r3 <= #1 16'h0;
		end
		else begin
			// ha placeholder
			$display("Program Counter:%d", _pc);
			$display("Instruction:%b", rom_value);
			$display("Registers r0:%b r1:%b r2:%b r3:%b ", _r0, _r1, _r2, _r3);
				case(current_instruction[21:18])
					RSET: begin
						case (current_instruction[17:16])
						R0 : begin
							_r0 <= #1 current_instruction[15:0];
							$display("RSET R0 ",_r0);
						end
						R1 : begin
							_r1 <= #1 current_instruction[15:0];
							$display("RSET R1 ",_r1);
						end
						R2 : begin
							_r2 <= #1 current_instruction[15:0];
							$display("RSET R2 ",_r2);
						end
						R3 : begin
							_r3 <= #1 current_instruction[15:0];
							$display("RSET R3 ",_r3);
						end
						endcase
						_pc <= #1 _pc + 1'b1;
					end
					ADDP: begin
						case (current_instruction[17:16])
						R0 : begin
							case (current_instruction[15:14])
							R0 : begin
							case (addp_0_state)
							addp_0_put : begin
								addp_0_input_a <= #1 _r0;
								addp_0_input_b <= #1 _r0;
								addp_0_state <= #1 addp_0_get;
							end
							addp_0_get : begin
								_r0 <= #1 addp_0_output_z;
								addp_0_state <= #1 addp_0_put;
								_pc <= #1 _pc + 1'b1;
							end
							endcase
								$display("ADDP R0 R0");
							end
							R1 : begin
							case (addp_0_state)
							addp_0_put : begin
								addp_0_input_a <= #1 _r0;
								addp_0_input_b <= #1 _r1;
								addp_0_state <= #1 addp_0_get;
							end
							addp_0_get : begin
								_r0 <= #1 addp_0_output_z;
								addp_0_state <= #1 addp_0_put;
								_pc <= #1 _pc + 1'b1;
							end
							endcase
								$display("ADDP R0 R1");
							end
							R2 : begin
							case (addp_0_state)
							addp_0_put : begin
								addp_0_input_a <= #1 _r0;
								addp_0_input_b <= #1 _r2;
								addp_0_state <= #1 addp_0_get;
							end
							addp_0_get : begin
								_r0 <= #1 addp_0_output_z;
								addp_0_state <= #1 addp_0_put;
								_pc <= #1 _pc + 1'b1;
							end
							endcase
								$display("ADDP R0 R2");
							end
							R3 : begin
							case (addp_0_state)
							addp_0_put : begin
								addp_0_input_a <= #1 _r0;
								addp_0_input_b <= #1 _r3;
								addp_0_state <= #1 addp_0_get;
							end
							addp_0_get : begin
								_r0 <= #1 addp_0_output_z;
								addp_0_state <= #1 addp_0_put;
								_pc <= #1 _pc + 1'b1;
							end
							endcase
								$display("ADDP R0 R3");
							end
							endcase
						end
						R1 : begin
							case (current_instruction[15:14])
							R0 : begin
							case (addp_0_state)
							addp_0_put : begin
								addp_0_input_a <= #1 _r1;
								addp_0_input_b <= #1 _r0;
								addp_0_state <= #1 addp_0_get;
							end
							addp_0_get : begin
								_r1 <= #1 addp_0_output_z;
								addp_0_state <= #1 addp_0_put;
								_pc <= #1 _pc + 1'b1;
							end
							endcase
								$display("ADDP R1 R0");
							end
							R1 : begin
							case (addp_0_state)
							addp_0_put : begin
								addp_0_input_a <= #1 _r1;
								addp_0_input_b <= #1 _r1;
								addp_0_state <= #1 addp_0_get;
							end
							addp_0_get : begin
								_r1 <= #1 addp_0_output_z;
								addp_0_state <= #1 addp_0_put;
								_pc <= #1 _pc + 1'b1;
							end
							endcase
								$display("ADDP R1 R1");
							end
							R2 : begin
							case (addp_0_state)
							addp_0_put : begin
								addp_0_input_a <= #1 _r1;
								addp_0_input_b <= #1 _r2;
								addp_0_state <= #1 addp_0_get;
							end
							addp_0_get : begin
								_r1 <= #1 addp_0_output_z;
								addp_0_state <= #1 addp_0_put;
								_pc <= #1 _pc + 1'b1;
							end
							endcase
								$display("ADDP R1 R2");
							end
							R3 : begin
							case (addp_0_state)
							addp_0_put : begin
								addp_0_input_a <= #1 _r1;
								addp_0_input_b <= #1 _r3;
								addp_0_state <= #1 addp_0_get;
							end
							addp_0_get : begin
								_r1 <= #1 addp_0_output_z;
								addp_0_state <= #1 addp_0_put;
								_pc <= #1 _pc + 1'b1;
							end
							endcase
								$display("ADDP R1 R3");
							end
							endcase
						end
						R2 : begin
							case (current_instruction[15:14])
							R0 : begin
							case (addp_0_state)
							addp_0_put : begin
								addp_0_input_a <= #1 _r2;
								addp_0_input_b <= #1 _r0;
								addp_0_state <= #1 addp_0_get;
							end
							addp_0_get : begin
								_r2 <= #1 addp_0_output_z;
								addp_0_state <= #1 addp_0_put;
								_pc <= #1 _pc + 1'b1;
							end
							endcase
								$display("ADDP R2 R0");
							end
							R1 : begin
							case (addp_0_state)
							addp_0_put : begin
								addp_0_input_a <= #1 _r2;
								addp_0_input_b <= #1 _r1;
								addp_0_state <= #1 addp_0_get;
							end
							addp_0_get : begin
								_r2 <= #1 addp_0_output_z;
								addp_0_state <= #1 addp_0_put;
								_pc <= #1 _pc + 1'b1;
							end
							endcase
								$display("ADDP R2 R1");
							end
							R2 : begin
							case (addp_0_state)
							addp_0_put : begin
								addp_0_input_a <= #1 _r2;
								addp_0_input_b <= #1 _r2;
								addp_0_state <= #1 addp_0_get;
							end
							addp_0_get : begin
								_r2 <= #1 addp_0_output_z;
								addp_0_state <= #1 addp_0_put;
								_pc <= #1 _pc + 1'b1;
							end
							endcase
								$display("ADDP R2 R2");
							end
							R3 : begin
							case (addp_0_state)
							addp_0_put : begin
								addp_0_input_a <= #1 _r2;
								addp_0_input_b <= #1 _r3;
								addp_0_state <= #1 addp_0_get;
							end
							addp_0_get : begin
								_r2 <= #1 addp_0_output_z;
								addp_0_state <= #1 addp_0_put;
								_pc <= #1 _pc + 1'b1;
							end
							endcase
								$display("ADDP R2 R3");
							end
							endcase
						end
						R3 : begin
							case (current_instruction[15:14])
							R0 : begin
							case (addp_0_state)
							addp_0_put : begin
								addp_0_input_a <= #1 _r3;
								addp_0_input_b <= #1 _r0;
								addp_0_state <= #1 addp_0_get;
							end
							addp_0_get : begin
								_r3 <= #1 addp_0_output_z;
								addp_0_state <= #1 addp_0_put;
								_pc <= #1 _pc + 1'b1;
							end
							endcase
								$display("ADDP R3 R0");
							end
							R1 : begin
							case (addp_0_state)
							addp_0_put : begin
								addp_0_input_a <= #1 _r3;
								addp_0_input_b <= #1 _r1;
								addp_0_state <= #1 addp_0_get;
							end
							addp_0_get : begin
								_r3 <= #1 addp_0_output_z;
								addp_0_state <= #1 addp_0_put;
								_pc <= #1 _pc + 1'b1;
							end
							endcase
								$display("ADDP R3 R1");
							end
							R2 : begin
							case (addp_0_state)
							addp_0_put : begin
								addp_0_input_a <= #1 _r3;
								addp_0_input_b <= #1 _r2;
								addp_0_state <= #1 addp_0_get;
							end
							addp_0_get : begin
								_r3 <= #1 addp_0_output_z;
								addp_0_state <= #1 addp_0_put;
								_pc <= #1 _pc + 1'b1;
							end
							endcase
								$display("ADDP R3 R2");
							end
							R3 : begin
							case (addp_0_state)
							addp_0_put : begin
								addp_0_input_a <= #1 _r3;
								addp_0_input_b <= #1 _r3;
								addp_0_state <= #1 addp_0_get;
							end
							addp_0_get : begin
								_r3 <= #1 addp_0_output_z;
								addp_0_state <= #1 addp_0_put;
								_pc <= #1 _pc + 1'b1;
							end
							endcase
								$display("ADDP R3 R3");
							end
							endcase
						end
						endcase
					end
					MULTP: begin
						case (current_instruction[17:16])
						R0 : begin
							case (current_instruction[15:14])
							R0 : begin
							case (multp_0_state)
							multp_0_put : begin
								multp_0_input_a <= #1 _r0;
								multp_0_input_b <= #1 _r0;
								multp_0_state <= #1 multp_0_get;
							end
							multp_0_get : begin
								_r0 <= #1 multp_0_output_z;
								multp_0_state <= #1 multp_0_put;
								_pc <= #1 _pc + 1'b1;
							end
							endcase
								$display("MULTP R0 R0");
							end
							R1 : begin
							case (multp_0_state)
							multp_0_put : begin
								multp_0_input_a <= #1 _r0;
								multp_0_input_b <= #1 _r1;
								multp_0_state <= #1 multp_0_get;
							end
							multp_0_get : begin
								_r0 <= #1 multp_0_output_z;
								multp_0_state <= #1 multp_0_put;
								_pc <= #1 _pc + 1'b1;
							end
							endcase
								$display("MULTP R0 R1");
							end
							R2 : begin
							case (multp_0_state)
							multp_0_put : begin
								multp_0_input_a <= #1 _r0;
								multp_0_input_b <= #1 _r2;
								multp_0_state <= #1 multp_0_get;
							end
							multp_0_get : begin
								_r0 <= #1 multp_0_output_z;
								multp_0_state <= #1 multp_0_put;
								_pc <= #1 _pc + 1'b1;
							end
							endcase
								$display("MULTP R0 R2");
							end
							R3 : begin
							case (multp_0_state)
							multp_0_put : begin
								multp_0_input_a <= #1 _r0;
								multp_0_input_b <= #1 _r3;
								multp_0_state <= #1 multp_0_get;
							end
							multp_0_get : begin
								_r0 <= #1 multp_0_output_z;
								multp_0_state <= #1 multp_0_put;
								_pc <= #1 _pc + 1'b1;
							end
							endcase
								$display("MULTP R0 R3");
							end
							endcase
						end
						R1 : begin
							case (current_instruction[15:14])
							R0 : begin
							case (multp_0_state)
							multp_0_put : begin
								multp_0_input_a <= #1 _r1;
								multp_0_input_b <= #1 _r0;
								multp_0_state <= #1 multp_0_get;
							end
							multp_0_get : begin
								_r1 <= #1 multp_0_output_z;
								multp_0_state <= #1 multp_0_put;
								_pc <= #1 _pc + 1'b1;
							end
							endcase
								$display("MULTP R1 R0");
							end
							R1 : begin
							case (multp_0_state)
							multp_0_put : begin
								multp_0_input_a <= #1 _r1;
								multp_0_input_b <= #1 _r1;
								multp_0_state <= #1 multp_0_get;
							end
							multp_0_get : begin
								_r1 <= #1 multp_0_output_z;
								multp_0_state <= #1 multp_0_put;
								_pc <= #1 _pc + 1'b1;
							end
							endcase
								$display("MULTP R1 R1");
							end
							R2 : begin
							case (multp_0_state)
							multp_0_put : begin
								multp_0_input_a <= #1 _r1;
								multp_0_input_b <= #1 _r2;
								multp_0_state <= #1 multp_0_get;
							end
							multp_0_get : begin
								_r1 <= #1 multp_0_output_z;
								multp_0_state <= #1 multp_0_put;
								_pc <= #1 _pc + 1'b1;
							end
							endcase
								$display("MULTP R1 R2");
							end
							R3 : begin
							case (multp_0_state)
							multp_0_put : begin
								multp_0_input_a <= #1 _r1;
								multp_0_input_b <= #1 _r3;
								multp_0_state <= #1 multp_0_get;
							end
							multp_0_get : begin
								_r1 <= #1 multp_0_output_z;
								multp_0_state <= #1 multp_0_put;
								_pc <= #1 _pc + 1'b1;
							end
							endcase
								$display("MULTP R1 R3");
							end
							endcase
						end
						R2 : begin
							case (current_instruction[15:14])
							R0 : begin
							case (multp_0_state)
							multp_0_put : begin
								multp_0_input_a <= #1 _r2;
								multp_0_input_b <= #1 _r0;
								multp_0_state <= #1 multp_0_get;
							end
							multp_0_get : begin
								_r2 <= #1 multp_0_output_z;
								multp_0_state <= #1 multp_0_put;
								_pc <= #1 _pc + 1'b1;
							end
							endcase
								$display("MULTP R2 R0");
							end
							R1 : begin
							case (multp_0_state)
							multp_0_put : begin
								multp_0_input_a <= #1 _r2;
								multp_0_input_b <= #1 _r1;
								multp_0_state <= #1 multp_0_get;
							end
							multp_0_get : begin
								_r2 <= #1 multp_0_output_z;
								multp_0_state <= #1 multp_0_put;
								_pc <= #1 _pc + 1'b1;
							end
							endcase
								$display("MULTP R2 R1");
							end
							R2 : begin
							case (multp_0_state)
							multp_0_put : begin
								multp_0_input_a <= #1 _r2;
								multp_0_input_b <= #1 _r2;
								multp_0_state <= #1 multp_0_get;
							end
							multp_0_get : begin
								_r2 <= #1 multp_0_output_z;
								multp_0_state <= #1 multp_0_put;
								_pc <= #1 _pc + 1'b1;
							end
							endcase
								$display("MULTP R2 R2");
							end
							R3 : begin
							case (multp_0_state)
							multp_0_put : begin
								multp_0_input_a <= #1 _r2;
								multp_0_input_b <= #1 _r3;
								multp_0_state <= #1 multp_0_get;
							end
							multp_0_get : begin
								_r2 <= #1 multp_0_output_z;
								multp_0_state <= #1 multp_0_put;
								_pc <= #1 _pc + 1'b1;
							end
							endcase
								$display("MULTP R2 R3");
							end
							endcase
						end
						R3 : begin
							case (current_instruction[15:14])
							R0 : begin
							case (multp_0_state)
							multp_0_put : begin
								multp_0_input_a <= #1 _r3;
								multp_0_input_b <= #1 _r0;
								multp_0_state <= #1 multp_0_get;
							end
							multp_0_get : begin
								_r3 <= #1 multp_0_output_z;
								multp_0_state <= #1 multp_0_put;
								_pc <= #1 _pc + 1'b1;
							end
							endcase
								$display("MULTP R3 R0");
							end
							R1 : begin
							case (multp_0_state)
							multp_0_put : begin
								multp_0_input_a <= #1 _r3;
								multp_0_input_b <= #1 _r1;
								multp_0_state <= #1 multp_0_get;
							end
							multp_0_get : begin
								_r3 <= #1 multp_0_output_z;
								multp_0_state <= #1 multp_0_put;
								_pc <= #1 _pc + 1'b1;
							end
							endcase
								$display("MULTP R3 R1");
							end
							R2 : begin
							case (multp_0_state)
							multp_0_put : begin
								multp_0_input_a <= #1 _r3;
								multp_0_input_b <= #1 _r2;
								multp_0_state <= #1 multp_0_get;
							end
							multp_0_get : begin
								_r3 <= #1 multp_0_output_z;
								multp_0_state <= #1 multp_0_put;
								_pc <= #1 _pc + 1'b1;
							end
							endcase
								$display("MULTP R3 R2");
							end
							R3 : begin
							case (multp_0_state)
							multp_0_put : begin
								multp_0_input_a <= #1 _r3;
								multp_0_input_b <= #1 _r3;
								multp_0_state <= #1 multp_0_get;
							end
							multp_0_get : begin
								_r3 <= #1 multp_0_output_z;
								multp_0_state <= #1 multp_0_put;
								_pc <= #1 _pc + 1'b1;
							end
							endcase
								$display("MULTP R3 R3");
							end
							endcase
						end
						endcase
					end
					DIVP: begin
						case (current_instruction[17:16])
						R0 : begin
							case (current_instruction[15:14])
							R0 : begin
							case (divp_0_state)
							divp_0_put : begin
								divp_0_input_a <= #1 _r0;
								divp_0_input_b <= #1 _r0;
								divp_0_state <= #1 divp_0_get;
							end
							divp_0_get : begin
								_r0 <= #1 divp_0_output_z;
								divp_0_state <= #1 divp_0_put;
								_pc <= #1 _pc + 1'b1;
							end
							endcase
								$display("DIVP R0 R0");
							end
							R1 : begin
							case (divp_0_state)
							divp_0_put : begin
								divp_0_input_a <= #1 _r0;
								divp_0_input_b <= #1 _r1;
								divp_0_state <= #1 divp_0_get;
							end
							divp_0_get : begin
								_r0 <= #1 divp_0_output_z;
								divp_0_state <= #1 divp_0_put;
								_pc <= #1 _pc + 1'b1;
							end
							endcase
								$display("DIVP R0 R1");
							end
							R2 : begin
							case (divp_0_state)
							divp_0_put : begin
								divp_0_input_a <= #1 _r0;
								divp_0_input_b <= #1 _r2;
								divp_0_state <= #1 divp_0_get;
							end
							divp_0_get : begin
								_r0 <= #1 divp_0_output_z;
								divp_0_state <= #1 divp_0_put;
								_pc <= #1 _pc + 1'b1;
							end
							endcase
								$display("DIVP R0 R2");
							end
							R3 : begin
							case (divp_0_state)
							divp_0_put : begin
								divp_0_input_a <= #1 _r0;
								divp_0_input_b <= #1 _r3;
								divp_0_state <= #1 divp_0_get;
							end
							divp_0_get : begin
								_r0 <= #1 divp_0_output_z;
								divp_0_state <= #1 divp_0_put;
								_pc <= #1 _pc + 1'b1;
							end
							endcase
								$display("DIVP R0 R3");
							end
							endcase
						end
						R1 : begin
							case (current_instruction[15:14])
							R0 : begin
							case (divp_0_state)
							divp_0_put : begin
								divp_0_input_a <= #1 _r1;
								divp_0_input_b <= #1 _r0;
								divp_0_state <= #1 divp_0_get;
							end
							divp_0_get : begin
								_r1 <= #1 divp_0_output_z;
								divp_0_state <= #1 divp_0_put;
								_pc <= #1 _pc + 1'b1;
							end
							endcase
								$display("DIVP R1 R0");
							end
							R1 : begin
							case (divp_0_state)
							divp_0_put : begin
								divp_0_input_a <= #1 _r1;
								divp_0_input_b <= #1 _r1;
								divp_0_state <= #1 divp_0_get;
							end
							divp_0_get : begin
								_r1 <= #1 divp_0_output_z;
								divp_0_state <= #1 divp_0_put;
								_pc <= #1 _pc + 1'b1;
							end
							endcase
								$display("DIVP R1 R1");
							end
							R2 : begin
							case (divp_0_state)
							divp_0_put : begin
								divp_0_input_a <= #1 _r1;
								divp_0_input_b <= #1 _r2;
								divp_0_state <= #1 divp_0_get;
							end
							divp_0_get : begin
								_r1 <= #1 divp_0_output_z;
								divp_0_state <= #1 divp_0_put;
								_pc <= #1 _pc + 1'b1;
							end
							endcase
								$display("DIVP R1 R2");
							end
							R3 : begin
							case (divp_0_state)
							divp_0_put : begin
								divp_0_input_a <= #1 _r1;
								divp_0_input_b <= #1 _r3;
								divp_0_state <= #1 divp_0_get;
							end
							divp_0_get : begin
								_r1 <= #1 divp_0_output_z;
								divp_0_state <= #1 divp_0_put;
								_pc <= #1 _pc + 1'b1;
							end
							endcase
								$display("DIVP R1 R3");
							end
							endcase
						end
						R2 : begin
							case (current_instruction[15:14])
							R0 : begin
							case (divp_0_state)
							divp_0_put : begin
								divp_0_input_a <= #1 _r2;
								divp_0_input_b <= #1 _r0;
								divp_0_state <= #1 divp_0_get;
							end
							divp_0_get : begin
								_r2 <= #1 divp_0_output_z;
								divp_0_state <= #1 divp_0_put;
								_pc <= #1 _pc + 1'b1;
							end
							endcase
								$display("DIVP R2 R0");
							end
							R1 : begin
							case (divp_0_state)
							divp_0_put : begin
								divp_0_input_a <= #1 _r2;
								divp_0_input_b <= #1 _r1;
								divp_0_state <= #1 divp_0_get;
							end
							divp_0_get : begin
								_r2 <= #1 divp_0_output_z;
								divp_0_state <= #1 divp_0_put;
								_pc <= #1 _pc + 1'b1;
							end
							endcase
								$display("DIVP R2 R1");
							end
							R2 : begin
							case (divp_0_state)
							divp_0_put : begin
								divp_0_input_a <= #1 _r2;
								divp_0_input_b <= #1 _r2;
								divp_0_state <= #1 divp_0_get;
							end
							divp_0_get : begin
								_r2 <= #1 divp_0_output_z;
								divp_0_state <= #1 divp_0_put;
								_pc <= #1 _pc + 1'b1;
							end
							endcase
								$display("DIVP R2 R2");
							end
							R3 : begin
							case (divp_0_state)
							divp_0_put : begin
								divp_0_input_a <= #1 _r2;
								divp_0_input_b <= #1 _r3;
								divp_0_state <= #1 divp_0_get;
							end
							divp_0_get : begin
								_r2 <= #1 divp_0_output_z;
								divp_0_state <= #1 divp_0_put;
								_pc <= #1 _pc + 1'b1;
							end
							endcase
								$display("DIVP R2 R3");
							end
							endcase
						end
						R3 : begin
							case (current_instruction[15:14])
							R0 : begin
							case (divp_0_state)
							divp_0_put : begin
								divp_0_input_a <= #1 _r3;
								divp_0_input_b <= #1 _r0;
								divp_0_state <= #1 divp_0_get;
							end
							divp_0_get : begin
								_r3 <= #1 divp_0_output_z;
								divp_0_state <= #1 divp_0_put;
								_pc <= #1 _pc + 1'b1;
							end
							endcase
								$display("DIVP R3 R0");
							end
							R1 : begin
							case (divp_0_state)
							divp_0_put : begin
								divp_0_input_a <= #1 _r3;
								divp_0_input_b <= #1 _r1;
								divp_0_state <= #1 divp_0_get;
							end
							divp_0_get : begin
								_r3 <= #1 divp_0_output_z;
								divp_0_state <= #1 divp_0_put;
								_pc <= #1 _pc + 1'b1;
							end
							endcase
								$display("DIVP R3 R1");
							end
							R2 : begin
							case (divp_0_state)
							divp_0_put : begin
								divp_0_input_a <= #1 _r3;
								divp_0_input_b <= #1 _r2;
								divp_0_state <= #1 divp_0_get;
							end
							divp_0_get : begin
								_r3 <= #1 divp_0_output_z;
								divp_0_state <= #1 divp_0_put;
								_pc <= #1 _pc + 1'b1;
							end
							endcase
								$display("DIVP R3 R2");
							end
							R3 : begin
							case (divp_0_state)
							divp_0_put : begin
								divp_0_input_a <= #1 _r3;
								divp_0_input_b <= #1 _r3;
								divp_0_state <= #1 divp_0_get;
							end
							divp_0_get : begin
								_r3 <= #1 divp_0_output_z;
								divp_0_state <= #1 divp_0_put;
								_pc <= #1 _pc + 1'b1;
							end
							endcase
								$display("DIVP R3 R3");
							end
							endcase
						end
						endcase
					end
					CMPR: begin
						case (current_instruction[17:16])
						R0 : begin
							case (current_instruction[15:14])
							R0 : begin
								if (_r0 == _r0) begin
									cmpflag <= 1'b1;
								end else begin
									cmpflag <= 1'b0;
								end
								$display("CMPR R0 R0");
							end
							R1 : begin
								if (_r1 == _r0) begin
									cmpflag <= 1'b1;
								end else begin
									cmpflag <= 1'b0;
								end
								$display("CMPR R0 R1");
							end
							R2 : begin
								if (_r2 == _r0) begin
									cmpflag <= 1'b1;
								end else begin
									cmpflag <= 1'b0;
								end
								$display("CMPR R0 R2");
							end
							R3 : begin
								if (_r3 == _r0) begin
									cmpflag <= 1'b1;
								end else begin
									cmpflag <= 1'b0;
								end
								$display("CMPR R0 R3");
							end
							endcase
						end
						R1 : begin
							case (current_instruction[15:14])
							R0 : begin
								if (_r0 == _r1) begin
									cmpflag <= 1'b1;
								end else begin
									cmpflag <= 1'b0;
								end
								$display("CMPR R1 R0");
							end
							R1 : begin
								if (_r1 == _r1) begin
									cmpflag <= 1'b1;
								end else begin
									cmpflag <= 1'b0;
								end
								$display("CMPR R1 R1");
							end
							R2 : begin
								if (_r2 == _r1) begin
									cmpflag <= 1'b1;
								end else begin
									cmpflag <= 1'b0;
								end
								$display("CMPR R1 R2");
							end
							R3 : begin
								if (_r3 == _r1) begin
									cmpflag <= 1'b1;
								end else begin
									cmpflag <= 1'b0;
								end
								$display("CMPR R1 R3");
							end
							endcase
						end
						R2 : begin
							case (current_instruction[15:14])
							R0 : begin
								if (_r0 == _r2) begin
									cmpflag <= 1'b1;
								end else begin
									cmpflag <= 1'b0;
								end
								$display("CMPR R2 R0");
							end
							R1 : begin
								if (_r1 == _r2) begin
									cmpflag <= 1'b1;
								end else begin
									cmpflag <= 1'b0;
								end
								$display("CMPR R2 R1");
							end
							R2 : begin
								if (_r2 == _r2) begin
									cmpflag <= 1'b1;
								end else begin
									cmpflag <= 1'b0;
								end
								$display("CMPR R2 R2");
							end
							R3 : begin
								if (_r3 == _r2) begin
									cmpflag <= 1'b1;
								end else begin
									cmpflag <= 1'b0;
								end
								$display("CMPR R2 R3");
							end
							endcase
						end
						R3 : begin
							case (current_instruction[15:14])
							R0 : begin
								if (_r0 == _r3) begin
									cmpflag <= 1'b1;
								end else begin
									cmpflag <= 1'b0;
								end
								$display("CMPR R3 R0");
							end
							R1 : begin
								if (_r1 == _r3) begin
									cmpflag <= 1'b1;
								end else begin
									cmpflag <= 1'b0;
								end
								$display("CMPR R3 R1");
							end
							R2 : begin
								if (_r2 == _r3) begin
									cmpflag <= 1'b1;
								end else begin
									cmpflag <= 1'b0;
								end
								$display("CMPR R3 R2");
							end
							R3 : begin
								if (_r3 == _r3) begin
									cmpflag <= 1'b1;
								end else begin
									cmpflag <= 1'b0;
								end
								$display("CMPR R3 R3");
							end
							endcase
						end
						endcase
						_pc <= #1 _pc + 1'b1;
					end
					JCMPL: begin
						if (cmpflag == 1'b1) begin
							_pc <= #1 current_instruction[17:13];
						end
						else begin
							_pc <= #1 _pc + 1'b1;
						end
						$display("JCMPL ", current_instruction[17:13]);
					end
					JCMPO: begin
						if (cmpflag == 1'b1) begin
							_pc <= current_instruction[17:13];
						end
						else begin
						_pc <= #1 _pc + 1'b1;
						end
						$display("JCMPL ", current_instruction[17:13]);
					end
					JCMPRIO: begin
						case (current_instruction[17:16])
						R0 : begin
							if (cmpflag == 1'b1) begin
								_pc <= #1 _r0;
							end else begin
								_pc <= #1 _pc + 1'b1;
							end
							$display("JCMPRIO R0");
						end
						R1 : begin
							if (cmpflag == 1'b1) begin
								_pc <= #1 _r1;
							end else begin
								_pc <= #1 _pc + 1'b1;
							end
							$display("JCMPRIO R1");
						end
						R2 : begin
							if (cmpflag == 1'b1) begin
								_pc <= #1 _r2;
							end else begin
								_pc <= #1 _pc + 1'b1;
							end
							$display("JCMPRIO R2");
						end
						R3 : begin
							if (cmpflag == 1'b1) begin
								_pc <= #1 _r3;
							end else begin
								_pc <= #1 _pc + 1'b1;
							end
							$display("JCMPRIO R3");
						end
						endcase
					end
					JRI: begin
						case (current_instruction[17:16])
						R0 : begin
						_pc <= #1 _r0;
							$display("JRI R0");
						end
						R1 : begin
						_pc <= #1 _r1;
							$display("JRI R1");
						end
						R2 : begin
						_pc <= #1 _r2;
							$display("JRI R2");
						end
						R3 : begin
						_pc <= #1 _r3;
							$display("JRI R3");
						end
						endcase
					end
					JRIO: begin
						case (current_instruction[17:16])
						R0 : begin
							_pc <= #1 _r0;
							$display("JRIO R0");
						end
						R1 : begin
							_pc <= #1 _r1;
							$display("JRIO R1");
						end
						R2 : begin
							_pc <= #1 _r2;
							$display("JRIO R2");
						end
						R3 : begin
							_pc <= #1 _r3;
							$display("JRIO R3");
						end
						endcase
					end
					JO: begin
						_pc <= #1 current_instruction[17:13];
						$display("JO ", current_instruction[17:13]);
					end
					R2O: begin
						case (current_instruction[17:16])
						R0 : begin
							case (current_instruction[15])
							O0 : begin
								_auxo0 <= #1 _r0;
								$display("R2O R0 O0");
							end
							endcase
						end
						R1 : begin
							case (current_instruction[15])
							O0 : begin
								_auxo0 <= #1 _r1;
								$display("R2O R1 O0");
							end
							endcase
						end
						R2 : begin
							case (current_instruction[15])
							O0 : begin
								_auxo0 <= #1 _r2;
								$display("R2O R2 O0");
							end
							endcase
						end
						R3 : begin
							case (current_instruction[15])
							O0 : begin
								_auxo0 <= #1 _r3;
								$display("R2O R3 O0");
							end
							endcase
						end
						endcase
						_pc <= #1 _pc + 1'b1;
					end
					J: begin
						_pc <= #1 current_instruction[17:13];
						$display("J ", current_instruction[17:13]);
					end
					INC: begin
						case (current_instruction[17:16])
						R0 : begin
							_r0 <= #1 _r0 + 1'b1;
							$display("INC R0");
						end
						R1 : begin
							_r1 <= #1 _r1 + 1'b1;
							$display("INC R1");
						end
						R2 : begin
							_r2 <= #1 _r2 + 1'b1;
							$display("INC R2");
						end
						R3 : begin
							_r3 <= #1 _r3 + 1'b1;
							$display("INC R3");
						end
						endcase
						_pc <= #1 _pc + 1'b1;
					end
					default : begin
						$display("Unknown Opcode");
						_pc <= #1 _pc + 1'b1;
					end
				endcase
			// ha placeholder
		end
	end
	assign rom_bus = _pc;
	assign o0 = _auxo0;
	assign o0_valid = o0_val;
endmodule


module addp_0(
        input_a,
        input_b,
        output_z);

  input     [15:0] input_a;
  input     [15:0] input_b;
  output    [15:0] output_z;
  assign output_z = input_a + input_b;

endmodule


module multp_0(
        input_a,
        input_b,
        output_z);

  input     [15:0] input_a;
  input     [15:0] input_b;
  output    [15:0] output_z;
  assign output_z = input_a * input_b;

endmodule


module divp_0(
        input_a,
        input_b,
        output_z);

  input     [15:0] input_a;
  input     [15:0] input_b;
  output    [15:0] output_z;
  assign output_z = input_a * input_b;

endmodule
