module bondmachine(clk, reset, o0, o0_valid, o0_received);

	input clk, reset;
	//--------------Output Ports-----------------------
	output [15:0] o0;
	output o0_valid;
	input o0_received;



	wire [15:0] p0o0;
	wire p0o0_valid;
	wire p0o0_received;
	wire o0_received;


	//Instantiation of the Processors and Shared Objects
	a0 a0_inst(clk, reset, p0o0, p0o0_valid, p0o0_received);

	assign o0 = p0o0;
	assign o0_valid = p0o0_valid;

	assign p0o0_received = o0_received;

endmodule
