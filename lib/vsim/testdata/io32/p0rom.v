`timescale 1ns/1ps
module p0rom(input [3:0] rom_bus, output [6:0] rom_value);
	reg [6:0] _rom [0:15];
	initial
	begin
	_rom[0] = 7'b0000000;
	_rom[1] = 7'b0000110;
	_rom[2] = 7'b1000001;
	_rom[3] = 7'b0010000;
	_rom[4] = 7'b0101000;
	_rom[5] = 7'b1011000;
	_rom[6] = 7'b0111010;
	_rom[7] = 7'b1110000;
	_rom[8] = 7'b1100000;
	end
	assign rom_value = _rom[rom_bus];
endmodule
