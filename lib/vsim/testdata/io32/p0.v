`timescale 1ns/1ps
module p0(clock_signal, reset_signal, rom_bus, rom_value, i0, i0_valid, i0_received, i1, i1_valid, i1_received, o0, o0_valid, o0_received, o1, o1_valid, o1_received);

	input clock_signal;
	input reset_signal;
	output  [3:0] rom_bus;
	input  [6:0] rom_value;

	input [31:0] i0;
	input i0_valid;
	output i0_received;
	input [31:0] i1;
	input i1_valid;
	output i1_received;
	output [31:0] o0;
	output o0_valid;
	input o0_received;
	output [31:0] o1;
	output o1_valid;
	input o1_received;

			// Opcodes in the instructions, length according the number of the selected.
	localparam	I2RW=3'b000,          // Sync input to register
			R2OWA=3'b001,          // Register to output
			I2R=3'b010,          // Input to register
			R2O=3'b011,          // Register to output
			ADD=3'b100,          // Register add
			INC=3'b101,          // Increment a register by 1
			J=3'b110,          // Jump to a program location
			NOP=3'b111;          // No operation

	localparam	R0=2'b00,		// Registers in the intructions
			R1=2'b01,
			R2=2'b10,
			R3=2'b11;
	localparam			I0=1'b0,
			I1=1'b1;
	localparam			O0=1'b0,
			O1=1'b1;
	reg [31:0] _auxo0;
	reg [31:0] _auxo1;

	reg [31:0] _ram [0:0];		// Internal processor RAM

	(* KEEP = "TRUE" *) reg [3:0] _pc;		// Program counter

	// The number of registers are 2^R, two letters and an underscore as identifier , maximum R=8 and 265 rigisters
	(* KEEP = "TRUE" *) reg [31:0] _r0;
	(* KEEP = "TRUE" *) reg [31:0] _r1;
	(* KEEP = "TRUE" *) reg [31:0] _r2;
	(* KEEP = "TRUE" *) reg [31:0] _r3;

	wire [6:0] current_instruction;
	assign current_instruction=rom_value;


	reg i0_recv;
	reg i1_recv;

	always @(posedge clock_signal, posedge reset_signal)
	begin
		if (reset_signal)
		begin
			i0_recv <= #1 1'b0;
		end
		else
		begin
			case(current_instruction[6:4])
				I2RW: begin
					case (current_instruction[1])
					I0 : begin
						if (i0_valid)
						begin
							i0_recv <= #1 1'b1;
						end else begin
							i0_recv <= #1 1'b0;
						end
					end
					default: begin
						if (!i0_valid)
						begin
							i0_recv <= #1 1'b0;
						end
					end
					endcase
				end
				I2R: begin
					case (current_instruction[1])
					I0 : begin
						if (i0_valid)
						begin
							i0_recv <= #1 1'b1;
						end
					end
					default: begin
						if (!i0_valid)
						begin
							i0_recv <= #1 1'b0;
						end
					end
					endcase
				end
				default: begin
					if (!i0_valid)
					begin
						i0_recv <= #1 1'b0;
					end
				end
			endcase
		end
	end
	always @(posedge clock_signal, posedge reset_signal)
	begin
		if (reset_signal)
		begin
			i1_recv <= #1 1'b0;
		end
		else
		begin
			case(current_instruction[6:4])
				I2RW: begin
					case (current_instruction[1])
					I1 : begin
						if (i1_valid)
						begin
							i1_recv <= #1 1'b1;
						end else begin
							i1_recv <= #1 1'b0;
						end
					end
					default: begin
						if (!i1_valid)
						begin
							i1_recv <= #1 1'b0;
						end
					end
					endcase
				end
				I2R: begin
					case (current_instruction[1])
					I1 : begin
						if (i1_valid)
						begin
							i1_recv <= #1 1'b1;
						end
					end
					default: begin
						if (!i1_valid)
						begin
							i1_recv <= #1 1'b0;
						end
					end
					endcase
				end
				default: begin
					if (!i1_valid)
					begin
						i1_recv <= #1 1'b0;
					end
				end
			endcase
		end
	end

	reg o0_val;
	reg o1_val;
	reg waitsm;
	initial waitsm = 1'b0;

	always @(posedge clock_signal, posedge reset_signal)
	begin
		if (reset_signal)
		begin
			o0_val <= #1 1'b0;
		end
		else
		begin
			case(current_instruction[6:4])
				R2OWA: begin
					case (current_instruction[1])
					O0 : begin
						if (waitsm == 1'b1) o0_val <= 1'b1;
					end
					default: begin
						if (o0_received)
						begin
							o0_val <= #1 1'b0;
						end
					end
					endcase
				end
				R2O: begin
					case (current_instruction[1])
					O0 : begin
						o0_val <= 1'b1;
					end
					default: begin
						if (o0_received)
						begin
							o0_val <= #1 1'b0;
						end
					end
					endcase
				end
				default: begin
					if (o0_received)
					begin
						o0_val <= #1 1'b0;
					end
				end
			endcase
		end
	end
	always @(posedge clock_signal, posedge reset_signal)
	begin
		if (reset_signal)
		begin
			o1_val <= #1 1'b0;
		end
		else
		begin
			case(current_instruction[6:4])
				R2OWA: begin
					case (current_instruction[1])
					O1 : begin
						if (waitsm == 1'b1) o1_val <= 1'b1;
					end
					default: begin
						if (o1_received)
						begin
							o1_val <= #1 1'b0;
						end
					end
					endcase
				end
				R2O: begin
					case (current_instruction[1])
					O1 : begin
						o1_val <= 1'b1;
					end
					default: begin
						if (o1_received)
						begin
							o1_val <= #1 1'b0;
						end
					end
					endcase
				end
				default: begin
					if (o1_received)
					begin
						o1_val <= #1 1'b0;
					end
				end
			endcase
		end
	end

	always @(posedge clock_signal, posedge reset_signal)
	begin
		if(reset_signal)
		begin
			_pc <= #1 4'h0;
			_r0 <= #1 32'h0;
			_r1 <= #1 32'h0;
			_r2 <= #1 32'h0;
			_r3 <= #1 32'h0;
		end
		else begin
			// ha placeholder
			$display("Program Counter:%d", _pc);
			$display("Instruction:%b", rom_value);
			$display("Registers r0:%b r1:%b r2:%b r3:%b ", _r0, _r1, _r2, _r3);
				case(current_instruction[6:4])
					I2RW: begin
						case (current_instruction[3:2])
						R0 : begin
							case (current_instruction[1])
							I0 : begin
								if (i0_valid)
								begin
									_r0 <= #1 i0;
									_pc <= #1 _pc + 1'b1;
									$display("I2RW R0 I0");
								end
							end
							I1 : begin
								if (i1_valid)
								begin
									_r0 <= #1 i1;
									_pc <= #1 _pc + 1'b1;
									$display("I2RW R0 I1");
								end
							end
							endcase
						end
						R1 : begin
							case (current_instruction[1])
							I0 : begin
								if (i0_valid)
								begin
									_r1 <= #1 i0;
									_pc <= #1 _pc + 1'b1;
									$display("I2RW R1 I0");
								end
							end
							I1 : begin
								if (i1_valid)
								begin
									_r1 <= #1 i1;
									_pc <= #1 _pc + 1'b1;
									$display("I2RW R1 I1");
								end
							end
							endcase
						end
						R2 : begin
							case (current_instruction[1])
							I0 : begin
								if (i0_valid)
								begin
									_r2 <= #1 i0;
									_pc <= #1 _pc + 1'b1;
									$display("I2RW R2 I0");
								end
							end
							I1 : begin
								if (i1_valid)
								begin
									_r2 <= #1 i1;
									_pc <= #1 _pc + 1'b1;
									$display("I2RW R2 I1");
								end
							end
							endcase
						end
						R3 : begin
							case (current_instruction[1])
							I0 : begin
								if (i0_valid)
								begin
									_r3 <= #1 i0;
									_pc <= #1 _pc + 1'b1;
									$display("I2RW R3 I0");
								end
							end
							I1 : begin
								if (i1_valid)
								begin
									_r3 <= #1 i1;
									_pc <= #1 _pc + 1'b1;
									$display("I2RW R3 I1");
								end
							end
							endcase
						end
						endcase
					end
					R2OWA: begin
						case (current_instruction[3:2])
						R0 : begin
							case (current_instruction[1])
							O0 : begin
								if (waitsm == 1'b0) begin
									if (!o0_received) begin
										waitsm <= 1'b1;
									end
								end else begin
									_auxo0 <= #1 _r0;
									if (o0_received) begin
										_pc <= #1 _pc + 1'b1;
										waitsm <= 1'b0;
									end
								end
								$display("R2OWA R0 O0");
							end
							O1 : begin
								if (waitsm == 1'b0) begin
									if (!o1_received) begin
										waitsm <= 1'b1;
									end
								end else begin
									_auxo1 <= #1 _r0;
									if (o1_received) begin
										_pc <= #1 _pc + 1'b1;
										waitsm <= 1'b0;
									end
								end
								$display("R2OWA R0 O1");
							end
							endcase
						end
						R1 : begin
							case (current_instruction[1])
							O0 : begin
								if (waitsm == 1'b0) begin
									if (!o0_received) begin
										waitsm <= 1'b1;
									end
								end else begin
									_auxo0 <= #1 _r1;
									if (o0_received) begin
										_pc <= #1 _pc + 1'b1;
										waitsm <= 1'b0;
									end
								end
								$display("R2OWA R1 O0");
							end
							O1 : begin
								if (waitsm == 1'b0) begin
									if (!o1_received) begin
										waitsm <= 1'b1;
									end
								end else begin
									_auxo1 <= #1 _r1;
									if (o1_received) begin
										_pc <= #1 _pc + 1'b1;
										waitsm <= 1'b0;
									end
								end
								$display("R2OWA R1 O1");
							end
							endcase
						end
						R2 : begin
							case (current_instruction[1])
							O0 : begin
								if (waitsm == 1'b0) begin
									if (!o0_received) begin
										waitsm <= 1'b1;
									end
								end else begin
									_auxo0 <= #1 _r2;
									if (o0_received) begin
										_pc <= #1 _pc + 1'b1;
										waitsm <= 1'b0;
									end
								end
								$display("R2OWA R2 O0");
							end
							O1 : begin
								if (waitsm == 1'b0) begin
									if (!o1_received) begin
										waitsm <= 1'b1;
									end
								end else begin
									_auxo1 <= #1 _r2;
									if (o1_received) begin
										_pc <= #1 _pc + 1'b1;
										waitsm <= 1'b0;
									end
								end
								$display("R2OWA R2 O1");
							end
							endcase
						end
						R3 : begin
							case (current_instruction[1])
							O0 : begin
								if (waitsm == 1'b0) begin
									if (!o0_received) begin
										waitsm <= 1'b1;
									end
								end else begin
									_auxo0 <= #1 _r3;
									if (o0_received) begin
										_pc <= #1 _pc + 1'b1;
										waitsm <= 1'b0;
									end
								end
								$display("R2OWA R3 O0");
							end
							O1 : begin
								if (waitsm == 1'b0) begin
									if (!o1_received) begin
										waitsm <= 1'b1;
									end
								end else begin
									_auxo1 <= #1 _r3;
									if (o1_received) begin
										_pc <= #1 _pc + 1'b1;
										waitsm <= 1'b0;
									end
								end
								$display("R2OWA R3 O1");
							end
							endcase
						end
						endcase
					end
					I2R: begin
						case (current_instruction[3:2])
						R0 : begin
							case (current_instruction[1])
							I0 : begin
								_r0 <= #1 i0;
								$display("I2R R0 I0");
							end
							I1 : begin
								_r0 <= #1 i1;
								$display("I2R R0 I1");
							end
							endcase
						end
						R1 : begin
							case (current_instruction[1])
							I0 : begin
								_r1 <= #1 i0;
								$display("I2R R1 I0");
							end
							I1 : begin
								_r1 <= #1 i1;
								$display("I2R R1 I1");
							end
							endcase
						end
						R2 : begin
							case (current_instruction[1])
							I0 : begin
								_r2 <= #1 i0;
								$display("I2R R2 I0");
							end
							I1 : begin
								_r2 <= #1 i1;
								$display("I2R R2 I1");
							end
							endcase
						end
						R3 : begin
							case (current_instruction[1])
							I0 : begin
								_r3 <= #1 i0;
								$display("I2R R3 I0");
							end
							I1 : begin
								_r3 <= #1 i1;
								$display("I2R R3 I1");
							end
							endcase
						end
						endcase
						_pc <= #1 _pc + 1'b1;
					end
					R2O: begin
						case (current_instruction[3:2])
						R0 : begin
							case (current_instruction[1])
							O0 : begin
								_auxo0 <= #1 _r0;
								$display("R2O R0 O0");
							end
							O1 : begin
								_auxo1 <= #1 _r0;
								$display("R2O R0 O1");
							end
							endcase
						end
						R1 : begin
							case (current_instruction[1])
							O0 : begin
								_auxo0 <= #1 _r1;
								$display("R2O R1 O0");
							end
							O1 : begin
								_auxo1 <= #1 _r1;
								$display("R2O R1 O1");
							end
							endcase
						end
						R2 : begin
							case (current_instruction[1])
							O0 : begin
								_auxo0 <= #1 _r2;
								$display("R2O R2 O0");
							end
							O1 : begin
								_auxo1 <= #1 _r2;
								$display("R2O R2 O1");
							end
							endcase
						end
						R3 : begin
							case (current_instruction[1])
							O0 : begin
								_auxo0 <= #1 _r3;
								$display("R2O R3 O0");
							end
							O1 : begin
								_auxo1 <= #1 _r3;
								$display("R2O R3 O1");
							end
							endcase
						end
						endcase
						_pc <= #1 _pc + 1'b1;
					end
					ADD: begin
						case (current_instruction[3:2])
						R0 : begin
							case (current_instruction[1:0])
							R0 : begin
								_r0 <= #1 _r0 + _r0;
								$display("ADD R0 R0");
							end
							R1 : begin
								_r0 <= #1 _r1 + _r0;
								$display("ADD R0 R1");
							end
							R2 : begin
								_r0 <= #1 _r2 + _r0;
								$display("ADD R0 R2");
							end
							R3 : begin
								_r0 <= #1 _r3 + _r0;
								$display("ADD R0 R3");
							end
							endcase
						end
						R1 : begin
							case (current_instruction[1:0])
							R0 : begin
								_r1 <= #1 _r0 + _r1;
								$display("ADD R1 R0");
							end
							R1 : begin
								_r1 <= #1 _r1 + _r1;
								$display("ADD R1 R1");
							end
							R2 : begin
								_r1 <= #1 _r2 + _r1;
								$display("ADD R1 R2");
							end
							R3 : begin
								_r1 <= #1 _r3 + _r1;
								$display("ADD R1 R3");
							end
							endcase
						end
						R2 : begin
							case (current_instruction[1:0])
							R0 : begin
								_r2 <= #1 _r0 + _r2;
								$display("ADD R2 R0");
							end
							R1 : begin
								_r2 <= #1 _r1 + _r2;
								$display("ADD R2 R1");
							end
							R2 : begin
								_r2 <= #1 _r2 + _r2;
								$display("ADD R2 R2");
							end
							R3 : begin
								_r2 <= #1 _r3 + _r2;
								$display("ADD R2 R3");
							end
							endcase
						end
						R3 : begin
							case (current_instruction[1:0])
							R0 : begin
								_r3 <= #1 _r0 + _r3;
								$display("ADD R3 R0");
							end
							R1 : begin
								_r3 <= #1 _r1 + _r3;
								$display("ADD R3 R1");
							end
							R2 : begin
								_r3 <= #1 _r2 + _r3;
								$display("ADD R3 R2");
							end
							R3 : begin
								_r3 <= #1 _r3 + _r3;
								$display("ADD R3 R3");
							end
							endcase
						end
						endcase
						_pc <= #1 _pc + 1'b1;
					end
					INC: begin
						case (current_instruction[3:2])
						R0 : begin
							_r0 <= #1 _r0 + 1'b1;
							$display("INC R0");
						end
						R1 : begin
							_r1 <= #1 _r1 + 1'b1;
							$display("INC R1");
						end
						R2 : begin
							_r2 <= #1 _r2 + 1'b1;
							$display("INC R2");
						end
						R3 : begin
							_r3 <= #1 _r3 + 1'b1;
							$display("INC R3");
						end
						endcase
						_pc <= #1 _pc + 1'b1;
					end
					J: begin
						_pc <= #1 current_instruction[3:0];
						$display("J ", current_instruction[3:0]);
					end
					NOP: begin
						$display("NOP");
						_pc <= #1 _pc + 1'b1;
					end
					default : begin
						$display("Unknown Opcode");
						_pc <= #1 _pc + 1'b1;
					end
				endcase
			// ha placeholder
		end
	end
	assign rom_bus = _pc;
	assign i0_received = i0_recv;
	assign i1_received = i1_recv;
	assign o0 = _auxo0;
	assign o0_valid = o0_val;
	assign o1 = _auxo1;
	assign o1_valid = o1_val;
endmodule
