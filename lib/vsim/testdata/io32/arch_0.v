`timescale 1ns/1ps
module a0(clock_signal, reset_signal, i0, i0_valid , i0_received, i1, i1_valid , i1_received, o0, o0_valid, o0_received, o1, o1_valid, o1_received);

	input clock_signal;
	input reset_signal;

	input [31:0] i0;
	input i0_valid;
	output i0_received;
	input [31:0] i1;
	input i1_valid;
	output i1_received;
	output [31:0] o0;
	output o0_valid;
	input o0_received;
	output [31:0] o1;
	output o1_valid;
	input o1_received;

	wire [3:0] rom_bus;
	wire [6:0] rom_value;


	p0 p0_instance(clock_signal, reset_signal, rom_bus, rom_value, i0, i0_valid , i0_received, i1, i1_valid , i1_received, o0, o0_valid, o0_received, o1, o1_valid, o1_received);
	p0rom p0rom_instance(rom_bus, rom_value);

endmodule
