`timescale 1ns/1ps
module a0(clock_signal, reset_signal, o0, o0_valid, o0_received);

	input clock_signal;
	input reset_signal;

	output [7:0] o0;
	output o0_valid;
	input o0_received;

	wire [2:0] rom_bus;
	wire [10:0] rom_value;

	wire [7:0] a0din;
	wire [7:0] a0dout;
	wire [1:0] a0addr;
	wire a0wren;
	wire a0en;

	p0 p0_instance(clock_signal, reset_signal, rom_bus, rom_value, a0din, a0dout, a0addr, a0wren, a0en, o0, o0_valid, o0_received);
	p0rom p0rom_instance(rom_bus, rom_value);
	p0ram p0ram_instance(clock_signal, reset_signal, a0din, a0dout, a0addr, a0wren, a0en);

endmodule
