`timescale 1ns/1ps
module p0rom(input [2:0] rom_bus, output [11:0] rom_value);
	reg [11:0] _rom [0:7];
	initial
	begin
	_rom[0] = 12'b000000000000;
	_rom[1] = 12'b010000000000;
	_rom[2] = 12'b100000000000;
	_rom[3] = 12'b110010000000;
	end
	assign rom_value = _rom[rom_bus];
endmodule
