`timescale 1ns/1ps
module a0(clock_signal, reset_signal, o0, o0_valid, o0_received);

	input clock_signal;
	input reset_signal;

	output [7:0] o0;
	output o0_valid;
	input o0_received;

	wire [2:0] rom_bus;
	wire [11:0] rom_value;


	p0 p0_instance(clock_signal, reset_signal, rom_bus, rom_value, o0, o0_valid, o0_received);
	p0rom p0rom_instance(rom_bus, rom_value);

endmodule
