
module request(clk, reset, req, ack, impulse);
    input clk;
    input reset;
    output reg req;
    input ack;
    input impulse;

    reg state;

    initial begin
        state = 0;
        req = 0;
    end

    always @(posedge clk) begin
        if (reset) begin
            state <= 0;
        end else begin
            case (state)
                0: begin
                    req <= 0;
                    if (impulse) begin
                        state <= 1;
                    end
                end
                1: begin
                    req <= 1;
                    if (ack) begin
                        state <= 0;
                    end
                end
            endcase
        end
    end

endmodule

module unlock(clk, reset, valid, received);
    input clk;
    input reset;
    input valid;
    output reg received;

    always @(posedge clk) begin
        if (reset) begin
	    received <= 0;
	end else begin
	    if (valid) begin
		received <= 1;
	    end
	    else begin
		received <= 0;
	    end
	end
	end
endmodule

module bondmachine_tb;

	reg clk, reset;

	wire [7:0] o0;
	wire o0_valid;
	wire o0_received;

	bondmachine bondmachine_inst (clk, reset, o0, o0_valid, o0_received);

	unlock o0_unlock(
		.clk(clk),
		.reset(reset),
		.valid(o0_valid),
		.received(o0_received)
	);
	always #1 clk = ~clk;
	initial  begin
		$dumpfile ("working_dir/bondmachine.vcd");
		$dumpvars;
	end
	initial begin
		clk = 1'b0;
		reset = 1'b1;
		#100;

		reset = 1'b0;

		#100000;
		$finish;
	end
endmodule
