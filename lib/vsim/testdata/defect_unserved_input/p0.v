`timescale 1ns/1ps
module p0(clock_signal, reset_signal, rom_bus, rom_value, i0, i0_valid, i0_received, o0, o0_valid, o0_received);

	input clock_signal;
	input reset_signal;
	output  [2:0] rom_bus;
	input  [11:0] rom_value;

	input [7:0] i0;
	input i0_valid;
	output i0_received;
	output [7:0] o0;
	output o0_valid;
	input o0_received;

			// Opcodes in the instructions, length according the number of the selected.
	localparam	RSET=2'b00,          // Register set value
			INC=2'b01,          // Increment a register by 1
			R2O=2'b10,          // Register to output
			J=2'b11;          // Jump to a program location

	localparam	R0=2'b00,		// Registers in the intructions
			R1=2'b01,
			R2=2'b10,
			R3=2'b11;
	localparam			I0=1'b0;
	localparam			O0=1'b0;
	reg [7:0] _auxo0;

	reg [7:0] _ram [0:0];		// Internal processor RAM

	(* KEEP = "TRUE" *) reg [2:0] _pc;		// Program counter

	// The number of registers are 2^R, two letters and an underscore as identifier , maximum R=8 and 265 rigisters
	(* KEEP = "TRUE" *) reg [7:0] _r0;
	(* KEEP = "TRUE" *) reg [7:0] _r1;
	(* KEEP = "TRUE" *) reg [7:0] _r2;
	(* KEEP = "TRUE" *) reg [7:0] _r3;

	wire [11:0] current_instruction;
	assign current_instruction=rom_value;


	reg o0_val;
	reg waitsm;
	initial waitsm = 1'b0;

	always @(posedge clock_signal, posedge reset_signal)
	begin
		if (reset_signal)
		begin
			o0_val <= #1 1'b0;
		end
		else
		begin
			case(current_instruction[11:10])
				R2O: begin
					case (current_instruction[7])
					O0 : begin
						o0_val <= 1'b1;
					end
					default: begin
						if (o0_received)
						begin
							o0_val <= #1 1'b0;
						end
					end
					endcase
				end
				default: begin
					if (o0_received)
					begin
						o0_val <= #1 1'b0;
					end
				end
			endcase
		end
	end

	always @(posedge clock_signal, posedge reset_signal)
	begin
		if(reset_signal)
		begin
			_pc <= #1 3'h0;
			_r0 <= #1 8'h0;
			_r1 <= #1 8'h0;
			_r2 <= #1 8'h0;
			_r3 <= #1 8'h0;
		end
		else begin
			// ha placeholder
			$display("Program Counter:%d", _pc);
			$display("Instruction:%b", rom_value);
			$display("Registers r0:%b r1:%b r2:%b r3:%b ", _r0, _r1, _r2, _r3);
				case(current_instruction[11:10])
					RSET: begin
						case (current_instruction[9:8])
						R0 : begin
							_r0 <= #1 current_instruction[7:0];
							$display("RSET R0 ",_r0);
						end
						R1 : begin
							_r1 <= #1 current_instruction[7:0];
							$display("RSET R1 ",_r1);
						end
						R2 : begin
							_r2 <= #1 current_instruction[7:0];
							$display("RSET R2 ",_r2);
						end
						R3 : begin
							_r3 <= #1 current_instruction[7:0];
							$display("RSET R3 ",_r3);
						end
						endcase
						_pc <= #1 _pc + 1'b1;
					end
					INC: begin
						case (current_instruction[9:8])
						R0 : begin
							_r0 <= #1 _r0 + 1'b1;
							$display("INC R0");
						end
						R1 : begin
							_r1 <= #1 _r1 + 1'b1;
							$display("INC R1");
						end
						R2 : begin
							_r2 <= #1 _r2 + 1'b1;
							$display("INC R2");
						end
						R3 : begin
							_r3 <= #1 _r3 + 1'b1;
							$display("INC R3");
						end
						endcase
						_pc <= #1 _pc + 1'b1;
					end
					R2O: begin
						case (current_instruction[9:8])
						R0 : begin
							case (current_instruction[7])
							O0 : begin
								_auxo0 <= #1 _r0;
								$display("R2O R0 O0");
							end
							endcase
						end
						R1 : begin
							case (current_instruction[7])
							O0 : begin
								_auxo0 <= #1 _r1;
								$display("R2O R1 O0");
							end
							endcase
						end
						R2 : begin
							case (current_instruction[7])
							O0 : begin
								_auxo0 <= #1 _r2;
								$display("R2O R2 O0");
							end
							endcase
						end
						R3 : begin
							case (current_instruction[7])
							O0 : begin
								_auxo0 <= #1 _r3;
								$display("R2O R3 O0");
							end
							endcase
						end
						endcase
						_pc <= #1 _pc + 1'b1;
					end
					J: begin
						_pc <= #1 current_instruction[9:7];
						$display("J ", current_instruction[9:7]);
					end
					default : begin
						$display("Unknown Opcode");
						_pc <= #1 _pc + 1'b1;
					end
				endcase
			// ha placeholder
		end
	end
	assign rom_bus = _pc;
	assign i0_received = i0_recv;
	assign o0 = _auxo0;
	assign o0_valid = o0_val;
endmodule
