`timescale 1ns/1ps
module p0(clock_signal, reset_signal, rom_bus, rom_value, o0, o0_valid, o0_received);

	input clock_signal;
	input reset_signal;
	output  [2:0] rom_bus;
	input  [11:0] rom_value;

	output [7:0] o0;
	output o0_valid;
	input o0_received;

			// Opcodes in the instructions, length according the number of the selected.
	localparam	RSET=3'b000,          // Register set value
			INCC=3'b001,          // Increment a register by 1
			CILC=3'b010,          // Left Shift of a register with control of carry flag
			JC=3'b011,          // Jump to a program location if carry-bit is 0
			R2O=3'b100,          // Register to output
			J=3'b101;          // Jump to a program location

	localparam	R0=1'b0,		// Registers in the intructions
			R1=1'b1;
	localparam			O0=1'b0;
	reg [7:0] _auxo0;

	reg [7:0] _ram [0:0];		// Internal processor RAM

	(* KEEP = "TRUE" *) reg [2:0] _pc;		// Program counter

	// The number of registers are 2^R, two letters and an underscore as identifier , maximum R=8 and 265 rigisters
	(* KEEP = "TRUE" *) reg [7:0] _r0;
	(* KEEP = "TRUE" *) reg [7:0] _r1;

	wire [11:0] current_instruction;
	assign current_instruction=rom_value;

	reg carryflag;

	reg o0_val;
	reg waitsm;
	initial waitsm = 1'b0;

	always @(posedge clock_signal, posedge reset_signal)
	begin
		if (reset_signal)
		begin
			o0_val <= #1 1'b0;
		end
		else
		begin
			case(current_instruction[11:9])
				R2O: begin
					case (current_instruction[7])
					O0 : begin
						o0_val <= 1'b1;
					end
					default: begin
						if (o0_received)
						begin
							o0_val <= #1 1'b0;
						end
					end
					endcase
				end
				default: begin
					if (o0_received)
					begin
						o0_val <= #1 1'b0;
					end
				end
			endcase
		end
	end

	always @(posedge clock_signal, posedge reset_signal)
	begin
		if(reset_signal)
		begin
			_pc <= #1 3'h0;
			_r0 <= #1 8'h0;
			_r1 <= #1 8'h0;
		end
		else begin
			// ha placeholder
			$display("Program Counter:%d", _pc);
			$display("Instruction:%b", rom_value);
			$display("Registers r0:%b r1:%b ", _r0, _r1);
				case(current_instruction[11:9])
					RSET: begin
						case (current_instruction[8])
						R0 : begin
							_r0 <= #1 current_instruction[7:0];
							$display("RSET R0 ",_r0);
						end
						R1 : begin
							_r1 <= #1 current_instruction[7:0];
							$display("RSET R1 ",_r1);
						end
						endcase
						_pc <= #1 _pc + 1'b1;
					end
					INCC: begin
						case (current_instruction[8])
						R0 : begin
							{carryflag,_r0} <= #1 {0,_r0} + 1'b1;
							$display("INCC R0");
						end
						R1 : begin
							{carryflag,_r1} <= #1 {0,_r1} + 1'b1;
							$display("INCC R1");
						end
						endcase
						_pc <= #1 _pc + 1'b1;
					end
					CILC: begin
						case (current_instruction[8])
						R0 : begin
							{carryflag,_r0} <= #1 {0,_r0} << 1'b1;
							$display("Cilc R0");
						end
						R1 : begin
							{carryflag,_r1} <= #1 {0,_r1} << 1'b1;
							$display("Cilc R1");
						end
						endcase
						_pc <= #1 _pc + 1'b1;
					end
					JC: begin
					if(carryflag == 'b0) begin
						_pc <= #1 current_instruction[8:6];
						$display("JC ", current_instruction[8:6]);
 end 
					end
					R2O: begin
						case (current_instruction[8])
						R0 : begin
							case (current_instruction[7])
							O0 : begin
								_auxo0 <= #1 _r0;
								$display("R2O R0 O0");
							end
							endcase
						end
						R1 : begin
							case (current_instruction[7])
							O0 : begin
								_auxo0 <= #1 _r1;
								$display("R2O R1 O0");
							end
							endcase
						end
						endcase
						_pc <= #1 _pc + 1'b1;
					end
					J: begin
						_pc <= #1 current_instruction[8:6];
						$display("J ", current_instruction[8:6]);
					end
					default : begin
						$display("Unknown Opcode");
						_pc <= #1 _pc + 1'b1;
					end
				endcase
			// ha placeholder
		end
	end
	assign rom_bus = _pc;
	assign o0 = _auxo0;
	assign o0_valid = o0_val;
endmodule
