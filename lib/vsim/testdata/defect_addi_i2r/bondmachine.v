module bondmachine(clk, reset, i0, i0_valid, i0_received, i1, i1_valid, i1_received, o0, o0_valid, o0_received);

	input clk, reset;
	input [7:0] i0;
	input i0_valid;
	output i0_received;
	input [7:0] i1;
	input i1_valid;
	output i1_received;
	//--------------Output Ports-----------------------
	output [7:0] o0;
	output o0_valid;
	input o0_received;



	wire [7:0] p0o0;
	wire p0o0_valid;
	wire p0o0_received;
	wire o0_received;
	wire [7:0] i0;
	wire i0_valid;
	wire i0_received;
	wire p0i0_received;
	wire [7:0] i1;
	wire i1_valid;
	wire i1_received;
	wire p0i1_received;


	//Instantiation of the Processors and Shared Objects
	a0 a0_inst(clk, reset, i0, i0_valid, p0i0_received, i1, i1_valid, p0i1_received, p0o0, p0o0_valid, p0o0_received);

	assign o0 = p0o0;
	assign o0_valid = p0o0_valid;

	assign p0o0_received = o0_received;
	assign i0_received = p0i0_received;
	assign i1_received = p0i1_received;

endmodule
