package main

import (
	"fmt"
	"os"
	"path/filepath"
	"strings"

	"github.com/BondMachineHQ/BondMachine/pkg/bmstack"
	"github.com/BondMachineHQ/BondMachine/pkg/bondmachine"
	"github.com/BondMachineHQ/BondMachine/pkg/procbuilder"
	"github.com/BondMachineHQ/BondMachine/pkg/simbox"
)

func opsByName(names string) []procbuilder.Opcode {
	var res []procbuilder.Opcode
	for _, n := range strings.Split(names, ",") {
		found := false
		for _, op := range procbuilder.Allopcodes {
			if op.Op_get_name() == n {
				res = append(res, op)
				found = true
			}
		}
		if !found {
			panic("no opcode " + n)
		}
	}
	return res
}

type procSpec struct {
	rsize, r, n, m, l, o uint8
	ops                  string
	prog                 string
	shared               string
}

func mkMachine(ps procSpec) *procbuilder.Machine {
	mach := new(procbuilder.Machine)
	mach.Arch.Modes = []string{"ha"}
	mach.Arch.Rsize = ps.rsize
	mach.Arch.R = ps.r
	mach.Arch.N = ps.n
	mach.Arch.M = ps.m
	mach.Arch.L = ps.l
	mach.Arch.O = ps.o
	mach.Arch.Op = opsByName(ps.ops)
	mach.Arch.Shared_constraints = ps.shared
	p, err := mach.Arch.Assembler([]byte(ps.prog))
	if err != nil {
		panic(err)
	}
	mach.Program = p
	return mach
}

type bmSpec struct {
	name    string
	rsize   uint8
	procs   []procSpec
	inputs  int
	outputs int
	bonds   [][2]string
	shared  []string    // e.g. "queue:4"
	links   [][2]string // proc, so
	tb      bool
}

func genBM(root string, spec bmSpec) {
	dir := filepath.Join(root, spec.name)
	os.RemoveAll(dir)
	os.MkdirAll(dir, 0755)
	cwd, _ := os.Getwd()
	defer os.Chdir(cwd)
	os.Chdir(dir)
	defer func() {
		if r := recover(); r != nil {
			fmt.Println("PANIC generating", spec.name, ":", r)
		}
	}()
	bm := new(bondmachine.Bondmachine)
	bm.Rsize = spec.rsize
	bm.Init()
	prog := ""
	for i, ps := range spec.procs {
		// shared constraints must be known to the assembler
		m := mkMachine(ps)
		bm.Domains = append(bm.Domains, m)
		bm.Add_processor(i)
		prog += fmt.Sprintf("# processor %d: rsize=%d R=%d N=%d M=%d L=%d O=%d ops=%s shared=%s\n%s\n", i, ps.rsize, ps.r, ps.n, ps.m, ps.l, ps.o, ps.ops, ps.shared, ps.prog)
	}
	for i := 0; i < spec.inputs; i++ {
		bm.Add_input()
	}
	for i := 0; i < spec.outputs; i++ {
		bm.Add_output()
	}
	for _, b := range spec.bonds {
		bm.Add_bond([]string{b[0], b[1]})
	}
	if len(spec.shared) > 0 {
		bm.Add_shared_objects(spec.shared)
		for _, l := range spec.links {
			bm.Connect_processor_shared_object([]string{l[0], l[1]})
		}
	}
	conf := new(bondmachine.Config)
	sbox := new(simbox.Simbox)
	if err := bm.Write_verilog(conf, "iverilog", nil, nil, sbox); err != nil {
		fmt.Println("ERROR", spec.name, err)
	}
	if !spec.tb {
		os.Remove("bondmachine_tb.v")
	}
	os.WriteFile("program.txt", []byte(prog), 0644)
	fmt.Println("generated", spec.name)
}

func genStack(root, name, memType string, depth, dsize int, senders, receivers []string) {
	dir := filepath.Join(root, "stacks")
	os.MkdirAll(dir, 0755)
	s := bmstack.CreateBasicStack()
	s.ModuleName = name
	s.MemType = memType
	s.Depth = depth
	s.DataSize = dsize
	s.Senders = senders
	s.Receivers = receivers
	r, err := s.WriteHDL()
	if err != nil {
		panic(err)
	}
	os.WriteFile(filepath.Join(dir, name+".v"), []byte(r), 0644)
	fmt.Println("generated stack", name)
}

func main() {
	root := os.Args[1]

	// 1. 8-bit counter, no inputs
	genBM(root, bmSpec{name: "counter8", rsize: 8, outputs: 1,
		procs: []procSpec{{rsize: 8, r: 2, n: 0, m: 1, l: 0, o: 3, ops: "rset,inc,r2o,j",
			prog: "rset r0 0\ninc r0\nr2o r0 o0\nj 1\n"}},
		bonds: [][2]string{{"p0o0", "o0"}}, tb: true})

	// 1b. same but with an input that no opcode serves: i0_recv is never declared
	genBM(root, bmSpec{name: "defect_unserved_input", rsize: 8, inputs: 1, outputs: 1,
		procs: []procSpec{{rsize: 8, r: 2, n: 1, m: 1, l: 0, o: 3, ops: "rset,inc,r2o,j",
			prog: "rset r0 0\ninc r0\nr2o r0 o0\nj 1\n"}},
		bonds: [][2]string{{"i0", "p0i0"}, {"p0o0", "o0"}}})

	// 2. 16-bit ALU mix: sum 1..10 with jz loop, then logic ops
	genBM(root, bmSpec{name: "alu16", rsize: 16, outputs: 1,
		procs: []procSpec{{rsize: 16, r: 2, n: 0, m: 1, l: 0, o: 5,
			ops: "rset,add,sub,mult,div,mod,and,or,xor,not,nand,nor,xnor,cpy,clr,dec,inc,jz,j,r2o,cil,cir,cirn,nop,hlt",
			prog: strings.Join([]string{
				"rset r0 10", // 0  counter
				"clr r1",     // 1  acc
				"add r1 r0",  // 2  acc += counter
				"dec r0",     // 3
				"jz r0 6",    // 4
				"j 2",        // 5
				"r2o r1 o0",  // 6  o0 = 55
				"rset r2 6",  // 7
				"cpy r3 r1",  // 8  r3 = 55
				"mult r3 r2", // 9  r3 = 330
				"div r3 r2",  // 10 r3 = 55
				"mod r3 r2",  // 11 r3 = 1
				"cil r3",     // 12 r3 = 2
				"cil r3",     // 13 r3 = 4
				"cir r3",     // 14 r3 = 2
				"or r3 r2",   // 15 r3 = 6
				"xor r3 r1",  // 16 r3 = 6^55 = 49
				"and r3 r1",  // 17 r3 = 49&55 = 49
				"not r2 r3",  // 18 r2 = ~49 = 0xffce
				"sub r2 r1",  // 19 r2 = 0xffce-55 = 0xff97
				"nand r2 r3", // 20 r2 = ~(0xff97 & 49) = ~0x11 = 0xffee
				"nor r2 r3",  // 21 r2 = ~(0xffee | 49) = ~0xffff = 0
				"xnor r2 r3", // 22 r2 = ~(0 ^ 49) = 0xffce
				"cirn r2",    // 23 r2 = 0x7fe7
				"nop",        // 24
				"r2o r2 o0",  // 25 o0 = 0x7fe7
				"hlt",        // 26
			}, "\n") + "\n"}},
		bonds: [][2]string{{"p0o0", "o0"}}})

	// 3. 32-bit I/O: two inputs added, sent out with handshakes
	genBM(root, bmSpec{name: "io32", rsize: 32, inputs: 2, outputs: 2,
		procs: []procSpec{{rsize: 32, r: 2, n: 2, m: 2, l: 0, o: 4,
			ops: "i2rw,r2owa,i2r,r2o,add,inc,j,nop",
			prog: strings.Join([]string{
				"i2rw r0 i0",  // 0
				"i2rw r1 i1",  // 1
				"add r0 r1",   // 2
				"r2owa r0 o0", // 3
				"i2r r2 i0",   // 4
				"inc r2",      // 5
				"r2o r2 o1",   // 6
				"nop",         // 7
				"j 0",         // 8
			}, "\n") + "\n"}},
		bonds: [][2]string{{"i0", "p0i0"}, {"i1", "p0i1"}, {"p0o0", "o0"}, {"p0o1", "o1"}}})

	// 3b. addi together with i2r: both declare and drive iN_recv
	genBM(root, bmSpec{name: "defect_addi_i2r", rsize: 8, inputs: 2, outputs: 1,
		procs: []procSpec{{rsize: 8, r: 1, n: 2, m: 1, l: 0, o: 3,
			ops:  "i2r,addi,r2o,j",
			prog: "i2r r0 i0\naddi r1\nr2o r1 o0\nj 0\n"}},
		bonds: [][2]string{{"i0", "p0i0"}, {"i1", "p0i1"}, {"p0o0", "o0"}}})

	// 3c. addi alone (it serves the inputs itself)
	genBM(root, bmSpec{name: "addi8", rsize: 8, inputs: 2, outputs: 1,
		procs: []procSpec{{rsize: 8, r: 1, n: 2, m: 1, l: 0, o: 3,
			ops:  "addi,r2o,j",
			prog: "addi r1\nr2o r1 o0\nj 0\n"}},
		bonds: [][2]string{{"i0", "p0i0"}, {"i1", "p0i1"}, {"p0o0", "o0"}}})

	// 4. 64-bit with RAM and carry ops: ROM words exceed 64 bits
	genBM(root, bmSpec{name: "ram64", rsize: 64, outputs: 1,
		procs: []procSpec{{rsize: 64, r: 2, n: 0, m: 1, l: 3, o: 5,
			ops: "rset,r2m,m2r,inc,dec,r2o,j,jz,adc,sbc,rsc,mulc,jc,add,cpy",
			prog: strings.Join([]string{
				"rset r0 0xfedcba9876543210", // 0
				"r2m r0 3",                   // 1
				"rset r1 0xffffffffffffffff", // 2
				"r2m r1 5",                   // 3
				"m2r r2 3",                   // 4 r2 = fedc...
				"m2r r3 5",                   // 5 r3 = ffff...
				"adc r2 r3",                  // 6 r2 = fedcba987654320f carry=1
				"r2o r2 o0",                  // 7
				"inc r3",                     // 8 r3 = 0
				"jz r3 11",                   // 9
				"j 9",                        // 10
				"mulc r3 r2",                 // 11 r3 = 0, carry 0
				"sbc r3 r2",                  // 12 r3 = 0 - r2 -> borrow
				"r2o r3 o0",                  // 13
				"j 13",                       // 14
			}, "\n") + "\n"}},
		bonds: [][2]string{{"p0o0", "o0"}}})

	// 5. carry opcodes that use an unsized constant in a concatenation
	genBM(root, bmSpec{name: "defect_unsized_concat", rsize: 8, outputs: 1,
		procs: []procSpec{{rsize: 8, r: 1, n: 0, m: 1, l: 0, o: 3,
			ops:  "rset,incc,cilc,jc,r2o,j",
			prog: "rset r0 254\nincc r0\nincc r0\nr2o r0 o0\ncilc r0\nj 1\n"}},
		bonds: [][2]string{{"p0o0", "o0"}}})

	// 6. pipeline and compare opcodes, register-indirect jumps
	genBM(root, bmSpec{name: "pipe16", rsize: 16, outputs: 1,
		procs: []procSpec{{rsize: 16, r: 2, n: 0, m: 1, l: 0, o: 5,
			ops: "rset,addp,multp,divp,cmpr,jcmpl,jcmpo,jcmprio,jri,jrio,jo,r2o,j,inc",
			prog: strings.Join([]string{
				"rset r0 7",    // 0
				"rset r1 6",    // 1
				"multp r0 r1",  // 2 r0 = 42
				"addp r0 r1",   // 3 r0 = 48
				"r2o r0 o0",    // 4
				"rset r2 48",   // 5
				"cmpr r0 r2",   // 6 flag=1
				"jcmpl 9",      // 7
				"rset r3 999",  // 8 skipped
				"rset r3 12",   // 9
				"jri r3",       // 10 -> 12
				"rset r0 1000", // 11 skipped
				"inc r0",       // 12 r0 = 49
				"r2o r0 o0",    // 13
				"j 13",         // 14
			}, "\n") + "\n"}},
		bonds: [][2]string{{"p0o0", "o0"}}})

	// 7. opcodes whose "ha" templates reference von-Neumann-only state
	genBM(root, bmSpec{name: "defect_jria_ha", rsize: 8, outputs: 1,
		procs: []procSpec{{rsize: 8, r: 1, n: 0, m: 1, l: 0, o: 3,
			ops:  "rset,jria,r2o,j",
			prog: "rset r0 0\nr2o r0 o0\njria r0\n"}},
		bonds: [][2]string{{"p0o0", "o0"}}})

	// 7b. m2r without r2m: the ram_addr mux has an empty else branch
	genBM(root, bmSpec{name: "defect_m2r_only", rsize: 8, outputs: 1,
		procs: []procSpec{{rsize: 8, r: 1, n: 0, m: 1, l: 2, o: 3,
			ops:  "rset,m2r,r2o,j",
			prog: "m2r r0 1\nr2o r0 o0\nj 0\n"}},
		bonds: [][2]string{{"p0o0", "o0"}}})

	// 8. two processors joined by a bond: o0 = 2*(i0+1)
	genBM(root, bmSpec{name: "bm2", rsize: 8, inputs: 1, outputs: 1,
		procs: []procSpec{
			{rsize: 8, r: 1, n: 1, m: 1, l: 0, o: 3, ops: "i2rw,inc,r2owa,j",
				prog: "i2rw r0 i0\ninc r0\nr2owa r0 o0\nj 0\n"},
			{rsize: 8, r: 1, n: 1, m: 1, l: 0, o: 3, ops: "i2rw,add,r2owa,j",
				prog: "i2rw r0 i0\nadd r0 r0\nr2owa r0 o0\nj 0\n"},
		},
		bonds: [][2]string{{"i0", "p0i0"}, {"p0o0", "p1i0"}, {"p1o0", "o0"}}})

	// 9. three processors, fan-out of p0o0 to p1 and p2
	genBM(root, bmSpec{name: "bm3_fanout", rsize: 16, inputs: 1, outputs: 2,
		procs: []procSpec{
			{rsize: 16, r: 1, n: 1, m: 1, l: 0, o: 3, ops: "i2rw,inc,r2owa,j",
				prog: "i2rw r0 i0\ninc r0\nr2owa r0 o0\nj 0\n"},
			{rsize: 16, r: 1, n: 1, m: 1, l: 0, o: 3, ops: "i2rw,add,r2owa,j",
				prog: "i2rw r0 i0\nadd r0 r0\nr2owa r0 o0\nj 0\n"},
			{rsize: 16, r: 1, n: 1, m: 1, l: 0, o: 3, ops: "i2rw,dec,nop,r2owa,j",
				prog: "i2rw r0 i0\nnop\nnop\ndec r0\nr2owa r0 o0\nj 0\n"},
		},
		bonds: [][2]string{{"i0", "p0i0"}, {"p0o0", "p1i0"}, {"p0o0", "p2i0"}, {"p1o0", "o0"}, {"p2o0", "o1"}}})

	// 10. two processors sharing a queue
	genBM(root, bmSpec{name: "bm_queue", rsize: 8, outputs: 1,
		procs: []procSpec{
			{rsize: 8, r: 1, n: 0, m: 0, l: 0, o: 3, ops: "rset,inc,r2q,j", shared: "queue:4",
				prog: "rset r0 1\nr2q r0 q0\ninc r0\nj 1\n"},
			{rsize: 8, r: 1, n: 0, m: 1, l: 0, o: 3, ops: "q2r,r2o,j", shared: "queue:4",
				prog: "q2r r0 q0\nr2o r0 o0\nj 0\n"},
		},
		bonds:  [][2]string{{"p1o0", "o0"}},
		shared: []string{"queue:4"}, links: [][2]string{{"0", "0"}, {"1", "0"}}})

	// 11. two processors sharing a stack
	genBM(root, bmSpec{name: "bm_stack", rsize: 8, outputs: 1,
		procs: []procSpec{
			{rsize: 8, r: 1, n: 0, m: 0, l: 0, o: 3, ops: "rset,inc,r2t,j", shared: "stack:4",
				prog: "rset r0 1\nr2t r0 st0\ninc r0\nj 1\n"},
			{rsize: 8, r: 1, n: 0, m: 1, l: 0, o: 3, ops: "t2r,r2o,j", shared: "stack:4",
				prog: "t2r r0 st0\nr2o r0 o0\nj 0\n"},
		},
		bonds:  [][2]string{{"p1o0", "o0"}},
		shared: []string{"stack:4"}, links: [][2]string{{"0", "0"}, {"1", "0"}}})

	// 12. bonus: IEEE-754 single precision cores (outside the required subset, used as a regression)
	genBM(root, bmSpec{name: "float32", rsize: 32, outputs: 1,
		procs: []procSpec{{rsize: 32, r: 2, n: 0, m: 1, l: 0, o: 4, ops: "rset,addf,multf,divf,r2o,j",
			prog: "rset r0 0x3fc00000\nrset r1 0x40100000\naddf r0 r1\nr2o r0 o0\nmultf r0 r1\nr2o r0 o0\ndivf r0 r1\nr2o r0 o0\nj 8\n"}},
		bonds: [][2]string{{"p0o0", "o0"}}})

	// stacks and queues
	genStack(root, "lifo_1s1r", "LIFO", 4, 8, []string{"push"}, []string{"pop"})
	genStack(root, "fifo_1s1r", "FIFO", 4, 8, []string{"push"}, []string{"pop"})
	genStack(root, "fifo_3s2r", "FIFO", 8, 32, []string{"sender1", "sender2", "sender3"}, []string{"receiver1", "receiver2"})
	genStack(root, "lifo_2s3r", "LIFO", 5, 16, []string{"sa", "sb"}, []string{"ra", "rb", "rc"})
	genStack(root, "fifo_wide", "FIFO", 3, 72, []string{"push"}, []string{"pop"})
}
