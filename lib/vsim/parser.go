package vsim

import (
	"math/big"
	"strconv"
	"strings"
)

type parser struct {
	file string
	toks []token
	pos  int
}

type parseAbort struct{ err error }

func (p *parser) fail(err error) { panic(parseAbort{err}) }

func (p *parser) synErr(line int, msg string) {
	p.fail(&DesignError{Class: ClassSyntax, File: p.file, Line: line, Msg: msg})
}

func (p *parser) unsupported(line int, what string) {
	p.fail(&UnsupportedError{Construct: what, File: p.file, Line: line})
}

func (p *parser) peek() token { return p.toks[p.pos] }

func (p *parser) peekN(n int) token {
	if p.pos+n < len(p.toks) {
		return p.toks[p.pos+n]
	}
	return p.toks[len(p.toks)-1]
}

func (p *parser) next() token {
	t := p.toks[p.pos]
	if t.kind != tEOF {
		p.pos++
	}
	return t
}

func (p *parser) isOp(s string) bool {
	t := p.peek()
	return t.kind == tOp && t.text == s
}

func (p *parser) isKw(s string) bool {
	t := p.peek()
	return t.kind == tIdent && t.text == s
}

func (p *parser) acceptOp(s string) bool {
	if p.isOp(s) {
		p.pos++
		return true
	}
	return false
}

func (p *parser) acceptKw(s string) bool {
	if p.isKw(s) {
		p.pos++
		return true
	}
	return false
}

func describe(t token) string {
	switch t.kind {
	case tEOF:
		return "end of file"
	case tString:
		return "string \"" + t.text + "\""
	}
	return "'" + t.text + "'"
}

func (p *parser) expectOp(s string) token {
	t := p.peek()
	if t.kind != tOp || t.text != s {
		p.synErr(t.line, "expected '"+s+"' but found "+describe(t))
	}
	p.pos++
	return t
}

func (p *parser) expectKw(s string) token {
	t := p.peek()
	if t.kind != tIdent || t.text != s {
		p.synErr(t.line, "expected '"+s+"' but found "+describe(t))
	}
	p.pos++
	return t
}

var keywords = map[string]bool{}

func init() {
	for _, k := range strings.Fields(`always and assign automatic begin buf bufif0 bufif1 case casex casez cell cmos config
deassign default defparam design disable edge else end endcase endconfig endfunction endgenerate endmodule
endprimitive endspecify endtable endtask event for force forever fork function generate genvar highz0 highz1
if ifnone incdir include initial inout input instance integer join large liblist library localparam macromodule
medium module nand negedge nmos nor noshowcancelled not notif0 notif1 or output parameter pmos posedge primitive
pull0 pull1 pulldown pullup pulsestyle_onevent pulsestyle_ondetect rcmos real realtime reg release repeat rnmos
rpmos rtran rtranif0 rtranif1 scalared showcancelled signed small specify specparam strong0 strong1 supply0
supply1 table task time tran tranif0 tranif1 tri tri0 tri1 triand trior trireg unsigned use uwire vectored wait
wand weak0 weak1 while wire wor xnor xor`) {
		keywords[k] = true
	}
}

func (p *parser) expectIdent(what string) token {
	t := p.peek()
	if t.kind != tIdent || keywords[t.text] {
		p.synErr(t.line, "expected "+what+" but found "+describe(t))
	}
	p.pos++
	return t
}

// parseSource parses every module in a source text.
func parseSource(file, src string) (mods []*Module, err error) {
	toks, err := lex(file, src)
	if err != nil {
		return nil, err
	}
	p := &parser{file: file, toks: toks}
	defer func() {
		if r := recover(); r != nil {
			if pa, ok := r.(parseAbort); ok {
				mods = nil
				err = pa.err
				return
			}
			panic(r)
		}
	}()
	for p.peek().kind != tEOF {
		t := p.peek()
		if t.kind == tIdent && (t.text == "module" || t.text == "macromodule") {
			mods = append(mods, p.parseModule())
			continue
		}
		if t.kind == tIdent && (t.text == "primitive" || t.text == "config" || t.text == "library") {
			p.unsupported(t.line, t.text)
		}
		p.synErr(t.line, "expected 'module' but found "+describe(t))
	}
	return mods, nil
}

func (p *parser) parseModule() *Module {
	mt := p.next() // module
	name := p.expectIdent("module name")
	m := &Module{File: p.file, Line: mt.line, Name: name.text}
	if p.acceptOp("#") {
		// module parameter port list
		p.expectOp("(")
		for {
			t := p.peek()
			p.acceptKw("parameter")
			prm := &Param{Line: t.line}
			if p.acceptKw("signed") {
				prm.Signed = true
			}
			if p.isKw("integer") {
				p.next()
				prm.Signed = true
			} else if p.isKw("real") || p.isKw("realtime") || p.isKw("time") {
				p.unsupported(t.line, "parameter of type "+p.peek().text)
			}
			if p.isOp("[") {
				prm.Range = p.parseRange()
			}
			prm.Name = p.expectIdent("parameter name").text
			p.expectOp("=")
			if p.peek().kind == tString {
				p.unsupported(p.peek().line, "string parameter")
			}
			prm.Value = p.parseExpr()
			m.Items = append(m.Items, prm)
			if p.acceptOp(",") {
				continue
			}
			break
		}
		p.expectOp(")")
	}
	if p.acceptOp("(") {
		if !p.isOp(")") {
			if p.isKw("input") || p.isKw("output") || p.isKw("inout") {
				p.parseAnsiPorts(m)
			} else {
				for {
					t := p.peek()
					if t.kind == tOp && (t.text == "." || t.text == "{") {
						p.unsupported(t.line, "port expression in module header")
					}
					id := p.expectIdent("port name")
					if p.isOp("[") {
						p.unsupported(id.line, "port expression in module header")
					}
					m.Ports = append(m.Ports, id.text)
					if p.acceptOp(",") {
						continue
					}
					break
				}
			}
		}
		p.expectOp(")")
	}
	p.expectOp(";")
	for !p.isKw("endmodule") {
		if p.peek().kind == tEOF {
			p.synErr(p.peek().line, "missing 'endmodule' for module "+m.Name)
		}
		p.parseItem(m)
	}
	p.next()
	return m
}

func (p *parser) parseAnsiPorts(m *Module) {
	var cur *Decl
	for {
		t := p.peek()
		if p.isKw("input") || p.isKw("output") || p.isKw("inout") {
			p.next()
			cur = &Decl{Line: t.line, Dir: t.text}
			if cur.Dir == "inout" {
				p.unsupported(t.line, "inout port")
			}
			if p.isKw("wire") || p.isKw("reg") {
				cur.Kind = p.next().text
			} else if p.isKw("integer") {
				p.next()
				cur.Kind = "integer"
				cur.Signed = true
			} else if k := p.peek(); k.kind == tIdent && netTypeUnsupported[k.text] {
				p.unsupported(k.line, "net type "+k.text)
			}
			if p.acceptKw("signed") {
				cur.Signed = true
			}
			if p.isOp("[") {
				cur.Range = p.parseRange()
			}
			m.Items = append(m.Items, cur)
		} else if cur == nil {
			p.synErr(t.line, "expected port direction but found "+describe(t))
		}
		id := p.expectIdent("port name")
		dn := DeclName{Name: id.text, Line: id.line}
		if p.isOp("[") {
			p.unsupported(id.line, "array port")
		}
		if p.acceptOp("=") {
			dn.Init = p.parseExpr()
		}
		cur.Names = append(cur.Names, dn)
		m.Ports = append(m.Ports, id.text)
		if p.acceptOp(",") {
			continue
		}
		break
	}
}

var netTypeUnsupported = map[string]bool{
	"tri": true, "tri0": true, "tri1": true, "triand": true, "trior": true, "trireg": true,
	"wand": true, "wor": true, "supply0": true, "supply1": true, "uwire": true,
}

var gatePrimitives = map[string]bool{
	"and": true, "nand": true, "or": true, "nor": true, "xor": true, "xnor": true, "not": true, "buf": true,
	"bufif0": true, "bufif1": true, "notif0": true, "notif1": true, "nmos": true, "pmos": true, "cmos": true,
	"rnmos": true, "rpmos": true, "rcmos": true, "tran": true, "tranif0": true, "tranif1": true,
	"rtran": true, "rtranif0": true, "rtranif1": true, "pullup": true, "pulldown": true,
}

func (p *parser) parseRange() *Range {
	p.expectOp("[")
	msb := p.parseExpr()
	p.expectOp(":")
	lsb := p.parseExpr()
	p.expectOp("]")
	return &Range{MSB: msb, LSB: lsb}
}

func (p *parser) parseItem(m *Module) {
	t := p.peek()
	if t.kind == tOp && t.text == ";" {
		p.next()
		return
	}
	if t.kind != tIdent {
		p.synErr(t.line, "unexpected "+describe(t)+" in module "+m.Name)
	}
	switch t.text {
	case "input", "output", "inout", "wire", "reg", "integer":
		m.Items = append(m.Items, p.parseDecl())
	case "parameter", "localparam":
		for _, prm := range p.parseParams() {
			m.Items = append(m.Items, prm)
		}
	case "assign":
		p.next()
		if p.isOp("(") {
			p.unsupported(t.line, "drive strength on continuous assignment")
		}
		p.skipDelay()
		for {
			lt := p.peek()
			lhs := p.parseLvalue()
			p.expectOp("=")
			rhs := p.parseExpr()
			m.Items = append(m.Items, &ContAssignItem{Line: lt.line, LHS: lhs, RHS: rhs})
			if p.acceptOp(",") {
				continue
			}
			break
		}
		p.expectOp(";")
	case "always":
		p.next()
		a := &Always{Line: t.line}
		if !p.isOp("@") {
			p.unsupported(t.line, "always without event control (free-running/timed process)")
		}
		p.parseEventControl(a)
		a.Body = p.parseStmtOrNull()
		m.Items = append(m.Items, a)
	case "initial":
		p.next()
		m.Items = append(m.Items, &Initial{Line: t.line, Body: p.parseStmtOrNull()})
	case "generate", "genvar", "function", "task", "defparam", "specify", "specparam", "real", "realtime", "time", "event":
		p.unsupported(t.line, t.text)
	default:
		if netTypeUnsupported[t.text] {
			p.unsupported(t.line, "net type "+t.text)
		}
		if gatePrimitives[t.text] {
			p.unsupported(t.line, "gate primitive "+t.text)
		}
		if keywords[t.text] {
			p.synErr(t.line, "unexpected keyword '"+t.text+"' in module "+m.Name)
		}
		p.parseInstances(m)
	}
}

// parseDecl parses port direction and net/variable declarations.
func (p *parser) parseDecl() *Decl {
	t := p.next()
	d := &Decl{Line: t.line}
	switch t.text {
	case "input", "output", "inout":
		d.Dir = t.text
		if d.Dir == "inout" {
			p.unsupported(t.line, "inout port")
		}
		if p.isKw("wire") || p.isKw("reg") {
			d.Kind = p.next().text
		} else if p.isKw("integer") {
			p.next()
			d.Kind = "integer"
			d.Signed = true
		} else if k := p.peek(); k.kind == tIdent && netTypeUnsupported[k.text] {
			p.unsupported(k.line, "net type "+k.text)
		}
	case "integer":
		d.Kind = "integer"
		d.Signed = true
	default:
		d.Kind = t.text
	}
	if p.isKw("scalared") || p.isKw("vectored") {
		p.unsupported(p.peek().line, p.peek().text)
	}
	if p.acceptKw("signed") {
		d.Signed = true
	}
	if p.isOp("[") {
		if d.Kind == "integer" {
			p.synErr(p.peek().line, "range not allowed on integer declaration")
		}
		d.Range = p.parseRange()
	}
	if d.Kind == "wire" && p.isOp("#") {
		p.skipDelay()
	}
	for {
		id := p.expectIdent("identifier in declaration")
		dn := DeclName{Name: id.text, Line: id.line}
		if p.isOp("[") {
			dn.Array = p.parseRange()
			if p.isOp("[") {
				p.unsupported(id.line, "multi-dimensional array")
			}
		}
		if p.acceptOp("=") {
			dn.Init = p.parseExpr()
		}
		d.Names = append(d.Names, dn)
		if p.acceptOp(",") {
			continue
		}
		break
	}
	p.expectOp(";")
	return d
}

func (p *parser) parseParams() []*Param {
	t := p.next()
	local := t.text == "localparam"
	signed := false
	var rng *Range
	if p.acceptKw("signed") {
		signed = true
	}
	if p.isKw("integer") {
		p.next()
		signed = true
	} else if p.isKw("real") || p.isKw("realtime") || p.isKw("time") {
		p.unsupported(t.line, "parameter of type "+p.peek().text)
	}
	if p.isOp("[") {
		rng = p.parseRange()
	}
	var res []*Param
	for {
		id := p.expectIdent("parameter name")
		p.expectOp("=")
		if p.peek().kind == tString {
			p.unsupported(p.peek().line, "string parameter")
		}
		v := p.parseExpr()
		res = append(res, &Param{Line: id.line, Local: local, Signed: signed, Range: rng, Name: id.text, Value: v})
		if p.acceptOp(",") {
			continue
		}
		break
	}
	p.expectOp(";")
	return res
}

// skipDelay consumes an optional "#n", "#ident" or "#( expr )".
func (p *parser) skipDelay() bool {
	if !p.acceptOp("#") {
		return false
	}
	t := p.peek()
	switch {
	case t.kind == tNumber:
		p.next()
	case t.kind == tIdent && !keywords[t.text]:
		p.next()
	case t.kind == tOp && t.text == "(":
		p.next()
		p.parseExpr()
		for p.acceptOp(",") || p.acceptOp(":") {
			p.parseExpr()
		}
		p.expectOp(")")
	default:
		p.synErr(t.line, "malformed delay after '#'")
	}
	return true
}

func (p *parser) parseEventControl(a *Always) {
	p.expectOp("@")
	if p.acceptOp("*") {
		a.Star = true
		return
	}
	p.expectOp("(")
	if p.acceptOp("*") {
		p.expectOp(")")
		a.Star = true
		return
	}
	for {
		var it SensItem
		if p.isKw("posedge") || p.isKw("negedge") {
			it.Edge = p.next().text
		}
		it.X = p.parseExpr()
		a.Sens = append(a.Sens, it)
		if p.acceptKw("or") || p.acceptOp(",") {
			continue
		}
		break
	}
	p.expectOp(")")
}

func (p *parser) parseInstances(m *Module) {
	mt := p.expectIdent("module name")
	var params []PortConn
	if p.acceptOp("#") {
		p.expectOp("(")
		params, _ = p.parseConnList(true)
		p.expectOp(")")
	}
	for {
		nt := p.peek()
		if nt.kind != tIdent || keywords[nt.text] {
			p.synErr(nt.line, "expected instance name after module name '"+mt.text+"' but found "+describe(nt))
		}
		p.next()
		if p.isOp("[") {
			p.unsupported(nt.line, "array of instances")
		}
		inst := &Instance{Line: mt.line, Module: mt.text, Name: nt.text, Params: params}
		p.expectOp("(")
		inst.Conns, inst.Named = p.parseConnList(false)
		p.expectOp(")")
		m.Items = append(m.Items, inst)
		if p.acceptOp(",") {
			continue
		}
		break
	}
	p.expectOp(";")
}

// parseConnList parses a (possibly empty) list of port connections or
// parameter overrides up to (not including) the closing parenthesis.
func (p *parser) parseConnList(isParam bool) ([]PortConn, bool) {
	var res []PortConn
	named := false
	if p.isOp(")") {
		return nil, false
	}
	for i := 0; ; i++ {
		t := p.peek()
		if p.acceptOp(".") {
			if i > 0 && !named {
				p.synErr(t.line, "mixed positional and named connections")
			}
			named = true
			id := p.expectIdent("port name")
			p.expectOp("(")
			pc := PortConn{Line: id.line, Name: id.text}
			if !p.isOp(")") {
				if p.peek().kind == tString {
					p.unsupported(p.peek().line, "string parameter")
				}
				pc.X = p.parseExpr()
			}
			p.expectOp(")")
			res = append(res, pc)
		} else {
			if named {
				p.synErr(t.line, "mixed positional and named connections")
			}
			pc := PortConn{Line: t.line}
			if !(p.isOp(",") || p.isOp(")")) {
				if p.peek().kind == tString {
					p.unsupported(p.peek().line, "string parameter")
				}
				pc.X = p.parseExpr()
			}
			res = append(res, pc)
		}
		if p.acceptOp(",") {
			continue
		}
		break
	}
	return res, named
}

// ---------- statements ----------

func (p *parser) parseStmtOrNull() Stmt {
	if p.isOp(";") {
		t := p.next()
		return &Null{Line: t.line}
	}
	return p.parseStmt()
}

func (p *parser) parseStmt() Stmt {
	t := p.peek()
	if t.kind == tOp {
		switch t.text {
		case "#":
			p.skipDelay()
			return p.parseStmtOrNull()
		case "@":
			p.unsupported(t.line, "event control inside a statement")
		case "->":
			p.unsupported(t.line, "event trigger")
		case "{":
			return p.parseAssignStmt(true)
		case ";":
			p.next()
			return &Null{Line: t.line}
		}
		p.synErr(t.line, "unexpected "+describe(t)+" at start of statement")
	}
	if t.kind == tSysIdent {
		p.next()
		sc := &SysCall{Line: t.line, Name: t.text}
		if p.acceptOp("(") {
			if !p.isOp(")") {
				for {
					if p.isOp(",") {
						sc.Args = append(sc.Args, nil)
					} else if p.peek().kind == tString {
						s := p.next()
						sc.Args = append(sc.Args, &StringLit{Line: s.line, S: s.text})
					} else {
						sc.Args = append(sc.Args, p.parseExpr())
					}
					if p.acceptOp(",") {
						continue
					}
					break
				}
			}
			p.expectOp(")")
		}
		p.expectOp(";")
		return sc
	}
	if t.kind != tIdent {
		p.synErr(t.line, "unexpected "+describe(t)+" at start of statement")
	}
	switch t.text {
	case "begin":
		p.next()
		b := &Block{Line: t.line}
		if p.acceptOp(":") {
			b.Name = p.expectIdent("block name").text
		}
		for p.isKw("reg") || p.isKw("integer") || p.isKw("wire") || p.isKw("real") || p.isKw("time") || p.isKw("parameter") || p.isKw("localparam") {
			dt := p.peek()
			if dt.text != "reg" && dt.text != "integer" {
				p.unsupported(dt.line, dt.text+" declaration inside a block")
			}
			if b.Name == "" {
				p.synErr(dt.line, "declaration in unnamed block")
			}
			b.Decls = append(b.Decls, p.parseDecl())
		}
		for !p.isKw("end") {
			if p.peek().kind == tEOF {
				p.synErr(t.line, "missing 'end' for 'begin'")
			}
			if p.isKw("endmodule") || p.isKw("endcase") {
				p.synErr(p.peek().line, "unexpected '"+p.peek().text+"': missing 'end' for 'begin' at line "+strconv.Itoa(t.line))
			}
			b.Stmts = append(b.Stmts, p.parseStmtOrNull())
		}
		p.next()
		return b
	case "if":
		p.next()
		p.expectOp("(")
		c := p.parseExpr()
		p.expectOp(")")
		s := &If{Line: t.line, Cond: c}
		s.Then = p.parseStmtOrNull()
		if p.acceptKw("else") {
			s.Else = p.parseStmtOrNull()
		}
		return s
	case "case", "casez", "casex":
		p.next()
		p.expectOp("(")
		x := p.parseExpr()
		p.expectOp(")")
		cs := &Case{Line: t.line, Kind: t.text, X: x}
		for !p.isKw("endcase") {
			it := &CaseItem{Line: p.peek().line}
			if p.peek().kind == tEOF {
				p.synErr(t.line, "missing 'endcase'")
			}
			if p.acceptKw("default") {
				it.Default = true
				p.acceptOp(":")
			} else {
				for {
					it.Labels = append(it.Labels, p.parseExpr())
					if p.acceptOp(",") {
						continue
					}
					break
				}
				p.expectOp(":")
			}
			it.Body = p.parseStmtOrNull()
			cs.Items = append(cs.Items, it)
		}
		p.next()
		return cs
	case "for":
		p.next()
		p.expectOp("(")
		f := &For{Line: t.line}
		f.Init = p.parseForAssign()
		p.expectOp(";")
		f.Cond = p.parseExpr()
		p.expectOp(";")
		f.Step = p.parseForAssign()
		p.expectOp(")")
		f.Body = p.parseStmtOrNull()
		return f
	case "forever", "while", "repeat", "wait", "fork", "disable", "force", "release", "assign", "deassign":
		p.unsupported(t.line, "'"+t.text+"' statement")
	case "end", "endcase", "endmodule", "else":
		p.synErr(t.line, "unexpected '"+t.text+"'")
	}
	if keywords[t.text] {
		p.synErr(t.line, "unexpected keyword '"+t.text+"' at start of statement")
	}
	// task enable "name;" or "name(args);" is unsupported; otherwise assignment.
	n := p.peekN(1)
	if n.kind == tOp && (n.text == ";" || n.text == "(") {
		p.unsupported(t.line, "task enable '"+t.text+"'")
	}
	return p.parseAssignStmt(true)
}

func (p *parser) parseForAssign() *AssignStmt {
	t := p.peek()
	if p.isKw("genvar") || p.isKw("integer") || p.isKw("int") {
		p.unsupported(t.line, "declaration inside for-loop header")
	}
	lhs := p.parseLvalue()
	if p.isOp("+") || p.isOp("-") {
		p.unsupported(t.line, "increment/decrement operator in for-loop")
	}
	p.expectOp("=")
	rhs := p.parseExpr()
	return &AssignStmt{Line: t.line, Blocking: true, LHS: lhs, RHS: rhs}
}

func (p *parser) parseAssignStmt(semi bool) Stmt {
	t := p.peek()
	lhs := p.parseLvalue()
	a := &AssignStmt{Line: t.line, LHS: lhs}
	if p.acceptOp("=") {
		a.Blocking = true
	} else if p.acceptOp("<=") {
		a.Blocking = false
	} else {
		p.synErr(p.peek().line, "expected '=' or '<=' in assignment but found "+describe(p.peek()))
	}
	if p.isOp("#") {
		p.skipDelay()
	} else if p.isOp("@") || p.isKw("repeat") {
		p.unsupported(p.peek().line, "intra-assignment event control")
	}
	a.RHS = p.parseExpr()
	if semi {
		p.expectOp(";")
	}
	return a
}

// parseLvalue parses ident with selects, or a concatenation of lvalues.
func (p *parser) parseLvalue() Expr {
	t := p.peek()
	if p.acceptOp("{") {
		c := &Concat{Line: t.line}
		for {
			c.Parts = append(c.Parts, p.parseLvalue())
			if p.acceptOp(",") {
				continue
			}
			break
		}
		p.expectOp("}")
		return c
	}
	id := p.expectIdent("assignment target")
	if p.isOp(".") {
		p.unsupported(id.line, "hierarchical reference")
	}
	var e Expr = &Ident{Line: id.line, Name: id.text}
	return p.parseSelects(e)
}

func (p *parser) parseSelects(e Expr) Expr {
	for p.isOp("[") {
		t := p.next()
		a := p.parseExpr()
		switch {
		case p.acceptOp(":"):
			b := p.parseExpr()
			e = &PartSel{Line: t.line, X: e, Mode: ':', A: a, B: b}
		case p.acceptOp("+:"):
			b := p.parseExpr()
			e = &PartSel{Line: t.line, X: e, Mode: '+', A: a, B: b}
		case p.acceptOp("-:"):
			b := p.parseExpr()
			e = &PartSel{Line: t.line, X: e, Mode: '-', A: a, B: b}
		default:
			e = &Index{Line: t.line, X: e, Idx: a}
		}
		p.expectOp("]")
	}
	return e
}

// ---------- expressions ----------

var binPrec = map[string]int{
	"||": 1, "&&": 2, "|": 3, "^": 4, "~^": 4, "^~": 4, "&": 5,
	"==": 6, "!=": 6, "===": 6, "!==": 6,
	"<": 7, "<=": 7, ">": 7, ">=": 7,
	"<<": 8, ">>": 8, "<<<": 8, ">>>": 8,
	"+": 9, "-": 9, "*": 10, "/": 10, "%": 10, "**": 11,
}

func (p *parser) parseExpr() Expr {
	c := p.parseBinary(1)
	if p.isOp("?") {
		t := p.next()
		a := p.parseExpr()
		p.expectOp(":")
		b := p.parseExpr()
		return &Ternary{Line: t.line, C: c, A: a, B: b}
	}
	return c
}

func (p *parser) parseBinary(minPrec int) Expr {
	l := p.parseUnary()
	for {
		t := p.peek()
		if t.kind != tOp {
			return l
		}
		pr, ok := binPrec[t.text]
		if !ok || pr < minPrec {
			return l
		}
		p.next()
		if t.text == "**" {
			p.unsupported(t.line, "power operator **")
		}
		r := p.parseBinary(pr + 1)
		op := t.text
		if op == "^~" {
			op = "~^"
		}
		l = &Binary{Line: t.line, Op: op, L: l, R: r}
	}
}

func (p *parser) parseUnary() Expr {
	t := p.peek()
	if t.kind == tOp {
		switch t.text {
		case "~", "!", "-", "+", "&", "|", "^", "~&", "~|", "~^", "^~":
			p.next()
			x := p.parseUnary()
			op := t.text
			if op == "^~" {
				op = "~^"
			}
			return &Unary{Line: t.line, Op: op, X: x}
		}
	}
	return p.parsePrimary()
}

func (p *parser) parsePrimary() Expr {
	t := p.peek()
	switch t.kind {
	case tNumber:
		p.next()
		if !strings.Contains(t.text, "'") {
			if nt := p.peek(); nt.kind == tNumber && strings.HasPrefix(nt.text, "'") {
				// size and based part separated by blanks
				p.next()
				t.text += nt.text
			}
		}
		n, err := parseNumber(t.text)
		if err != "" {
			p.synErr(t.line, err)
		}
		n.Line = t.line
		return n
	case tString:
		p.unsupported(t.line, "string literal in expression")
	case tSysIdent:
		p.next()
		sf := &SysFunc{Line: t.line, Name: t.text}
		if p.acceptOp("(") {
			if !p.isOp(")") {
				for {
					sf.Args = append(sf.Args, p.parseExpr())
					if p.acceptOp(",") {
						continue
					}
					break
				}
			}
			p.expectOp(")")
		}
		return sf
	case tIdent:
		if keywords[t.text] {
			p.synErr(t.line, "unexpected keyword '"+t.text+"' in expression")
		}
		p.next()
		if p.isOp("(") {
			p.unsupported(t.line, "function call '"+t.text+"'")
		}
		if p.isOp(".") {
			p.unsupported(t.line, "hierarchical reference")
		}
		return p.parseSelects(&Ident{Line: t.line, Name: t.text})
	case tOp:
		switch t.text {
		case "(":
			p.next()
			e := p.parseExpr()
			if p.isOp(":") {
				p.unsupported(t.line, "min:typ:max expression")
			}
			p.expectOp(")")
			return e
		case "{":
			p.next()
			first := p.parseExpr()
			if p.isOp("{") {
				// replication
				p.next()
				r := &Repl{Line: t.line, Count: first}
				for {
					r.Parts = append(r.Parts, p.parseExpr())
					if p.acceptOp(",") {
						continue
					}
					break
				}
				p.expectOp("}")
				p.expectOp("}")
				return p.parseSelectsOnConcat(r)
			}
			c := &Concat{Line: t.line, Parts: []Expr{first}}
			for p.acceptOp(",") {
				c.Parts = append(c.Parts, p.parseExpr())
			}
			p.expectOp("}")
			return p.parseSelectsOnConcat(c)
		}
	}
	p.synErr(t.line, "unexpected "+describe(t)+" in expression")
	return nil
}

func (p *parser) parseSelectsOnConcat(e Expr) Expr {
	if p.isOp("[") {
		p.unsupported(p.peek().line, "select on a concatenation")
	}
	return e
}

// parseNumber decodes a number token; it returns a non-empty message on error.
func parseNumber(text string) (*Number, string) {
	n := &Number{Text: text}
	ap := strings.IndexByte(text, '\'')
	if ap < 0 {
		digits := strings.ReplaceAll(text, "_", "")
		v, ok := new(big.Int).SetString(digits, 10)
		if !ok {
			return nil, "malformed decimal number " + text
		}
		n.Value = v
		n.Signed = true
		return n, ""
	}
	if ap > 0 {
		sz, err := strconv.Atoi(strings.ReplaceAll(text[:ap], "_", ""))
		if err != nil || sz <= 0 {
			return nil, "malformed size in number literal " + text + " (size must be a positive integer)"
		}
		if sz > 1<<20 {
			return nil, "number literal size too large in " + text
		}
		n.Size = sz
	}
	rest := text[ap+1:]
	if rest[0] == 's' {
		n.Signed = true
		rest = rest[1:]
	}
	base := rest[0]
	digits := strings.ReplaceAll(rest[1:], "_", "")
	val := new(big.Int)
	xz := new(big.Int)
	zz := new(big.Int)
	hasXZ := false
	switch base {
	case 'd':
		if len(digits) == 1 && strings.ContainsAny(digits, "xXzZ?") {
			hasXZ = true
			w := n.Size
			if w == 0 {
				w = 32
			}
			xz.Sub(new(big.Int).Lsh(big.NewInt(1), uint(w)), big.NewInt(1))
			if digits != "x" && digits != "X" {
				zz.Set(xz)
			}
		} else {
			if strings.ContainsAny(digits, "xXzZ?") {
				return nil, "x/z digit mixed with decimal digits in " + text
			}
			if _, ok := val.SetString(digits, 10); !ok {
				return nil, "malformed decimal number " + text
			}
		}
	default:
		bits := uint(1)
		if base == 'o' {
			bits = 3
		} else if base == 'h' {
			bits = 4
		}
		for i := 0; i < len(digits); i++ {
			c := digits[i]
			val.Lsh(val, bits)
			xz.Lsh(xz, bits)
			zz.Lsh(zz, bits)
			full := big.NewInt(int64(1)<<bits - 1)
			switch {
			case c == 'x' || c == 'X':
				xz.Or(xz, full)
				hasXZ = true
			case c == 'z' || c == 'Z' || c == '?':
				xz.Or(xz, full)
				zz.Or(zz, full)
				hasXZ = true
			default:
				var d int64
				switch {
				case c >= '0' && c <= '9':
					d = int64(c - '0')
				case c >= 'a' && c <= 'f':
					d = int64(c-'a') + 10
				case c >= 'A' && c <= 'F':
					d = int64(c-'A') + 10
				}
				val.Or(val, big.NewInt(d))
			}
		}
		// a leading x/z digit extends to the declared size
		if n.Size > 0 && len(digits) > 0 && strings.ContainsAny(digits[:1], "xXzZ?") {
			have := uint(len(digits)) * bits
			if uint(n.Size) > have {
				ext := new(big.Int).Lsh(big.NewInt(1), uint(n.Size))
				ext.Sub(ext, new(big.Int).Lsh(big.NewInt(1), have))
				xz.Or(xz, ext)
				if digits[0] != 'x' && digits[0] != 'X' {
					zz.Or(zz, ext)
				}
			}
		}
	}
	n.Value = val
	if hasXZ {
		n.XZ = xz
		n.Z = zz
	}
	return n, ""
}
