package vsim

import (
	"strings"
)

type tokKind int

const (
	tEOF tokKind = iota
	tIdent
	tSysIdent // $display ...
	tNumber
	tString
	tOp // operators and punctuation
)

type token struct {
	kind tokKind
	text string
	line int
}

type lexer struct {
	file string
	src  string
	pos  int
	line int
	toks []token
}

func isIdentStart(c byte) bool {
	return c == '_' || (c >= 'a' && c <= 'z') || (c >= 'A' && c <= 'Z')
}

func isIdentChar(c byte) bool {
	return isIdentStart(c) || (c >= '0' && c <= '9') || c == '$'
}

func isDigit(c byte) bool { return c >= '0' && c <= '9' }

func isSpace(c byte) bool { return c == ' ' || c == '\t' || c == '\r' || c == '\n' || c == '\f' }

// three- and two-character operators, longest first.
var multiOps = []string{
	"<<<", ">>>", "===", "!==",
	"<=", ">=", "==", "!=", "&&", "||", "<<", ">>", "~^", "^~", "~&", "~|", "+:", "-:", "**", "->",
}

func lex(file, src string) ([]token, error) {
	lx := &lexer{file: file, src: src, line: 1}
	if err := lx.run(); err != nil {
		return nil, err
	}
	return lx.toks, nil
}

func (lx *lexer) synErr(line int, msg string) error {
	return &DesignError{Class: ClassSyntax, File: lx.file, Line: line, Msg: msg}
}

func (lx *lexer) emit(k tokKind, text string, line int) {
	lx.toks = append(lx.toks, token{kind: k, text: text, line: line})
}

// skipSpace skips blanks and comments; it reports an error for an
// unterminated block comment.
func (lx *lexer) skipSpace() error {
	for lx.pos < len(lx.src) {
		c := lx.src[lx.pos]
		switch {
		case c == '\n':
			lx.line++
			lx.pos++
		case isSpace(c):
			lx.pos++
		case c == '/' && lx.pos+1 < len(lx.src) && lx.src[lx.pos+1] == '/':
			for lx.pos < len(lx.src) && lx.src[lx.pos] != '\n' {
				lx.pos++
			}
		case c == '/' && lx.pos+1 < len(lx.src) && lx.src[lx.pos+1] == '*':
			start := lx.line
			end := strings.Index(lx.src[lx.pos+2:], "*/")
			if end < 0 {
				return lx.synErr(start, "unterminated block comment")
			}
			body := lx.src[lx.pos : lx.pos+2+end+2]
			lx.line += strings.Count(body, "\n")
			lx.pos += len(body)
		default:
			return nil
		}
	}
	return nil
}

func (lx *lexer) run() error {
	for {
		if err := lx.skipSpace(); err != nil {
			return err
		}
		if lx.pos >= len(lx.src) {
			lx.emit(tEOF, "", lx.line)
			return nil
		}
		c := lx.src[lx.pos]
		line := lx.line
		switch {
		case c == '`':
			// compiler directive
			start := lx.pos + 1
			p := start
			for p < len(lx.src) && isIdentChar(lx.src[p]) {
				p++
			}
			name := lx.src[start:p]
			switch name {
			case "timescale", "default_nettype", "resetall", "celldefine", "endcelldefine":
				// ignored up to the end of the line
				for p < len(lx.src) && lx.src[p] != '\n' {
					p++
				}
				lx.pos = p
			default:
				return &UnsupportedError{Construct: "compiler directive `" + name, File: lx.file, Line: line}
			}
		case c == '(' && lx.pos+1 < len(lx.src) && lx.src[lx.pos+1] == '*':
			// attribute instance "(* ... *)" unless it is the "(*)" of an
			// event control.
			p := lx.pos + 2
			for p < len(lx.src) && isSpace(lx.src[p]) {
				p++
			}
			if p < len(lx.src) && lx.src[p] == ')' {
				lx.emit(tOp, "(", line)
				lx.pos++
				continue
			}
			end := strings.Index(lx.src[lx.pos+2:], "*)")
			if end < 0 {
				return lx.synErr(line, "unterminated attribute (* ... *)")
			}
			body := lx.src[lx.pos : lx.pos+2+end+2]
			lx.line += strings.Count(body, "\n")
			lx.pos += len(body)
		case isIdentStart(c):
			p := lx.pos
			for p < len(lx.src) && isIdentChar(lx.src[p]) {
				p++
			}
			lx.emit(tIdent, lx.src[lx.pos:p], line)
			lx.pos = p
		case c == '\\':
			return &UnsupportedError{Construct: "escaped identifier", File: lx.file, Line: line}
		case c == '$':
			p := lx.pos + 1
			for p < len(lx.src) && isIdentChar(lx.src[p]) {
				p++
			}
			if p == lx.pos+1 {
				return lx.synErr(line, "stray '$'")
			}
			lx.emit(tSysIdent, lx.src[lx.pos:p], line)
			lx.pos = p
		case c == '"':
			p := lx.pos + 1
			for p < len(lx.src) && lx.src[p] != '"' {
				if lx.src[p] == '\\' {
					p++
				}
				if p < len(lx.src) && lx.src[p] == '\n' {
					return lx.synErr(line, "newline in string literal")
				}
				p++
			}
			if p >= len(lx.src) {
				return lx.synErr(line, "unterminated string literal")
			}
			lx.emit(tString, lx.src[lx.pos+1:p], line)
			lx.pos = p + 1
		case isDigit(c) || c == '\'':
			if err := lx.number(); err != nil {
				return err
			}
		default:
			matched := false
			for _, op := range multiOps {
				if strings.HasPrefix(lx.src[lx.pos:], op) {
					lx.emit(tOp, op, line)
					lx.pos += len(op)
					matched = true
					break
				}
			}
			if matched {
				continue
			}
			if strings.IndexByte("()[]{};:,.=+-*/%&|^~!<>?@#", c) >= 0 {
				lx.emit(tOp, string(c), line)
				lx.pos++
				continue
			}
			return lx.synErr(line, "unexpected character "+strings.TrimSpace(string(rune(c))))
		}
	}
}

// number scans [size] ['[s]base digits] keeping the raw text (blanks removed).
func (lx *lexer) number() error {
	line := lx.line
	p := lx.pos
	var sb strings.Builder
	if isDigit(lx.src[p]) {
		for p < len(lx.src) && (isDigit(lx.src[p]) || lx.src[p] == '_') {
			sb.WriteByte(lx.src[p])
			p++
		}
		// real number?
		if p+1 < len(lx.src) && lx.src[p] == '.' && isDigit(lx.src[p+1]) {
			return &UnsupportedError{Construct: "real number literal", File: lx.file, Line: line}
		}
		if p < len(lx.src) && (lx.src[p] == 'e' || lx.src[p] == 'E') {
			return &UnsupportedError{Construct: "real number literal", File: lx.file, Line: line}
		}
		// A size separated from the base by blanks ("8 'd3") is left as two
		// tokens and joined by the expression parser, so that a delay
		// followed by an unsized literal ("#1 'b0") keeps its meaning.
		if !(p < len(lx.src) && lx.src[p] == '\'') {
			lx.emit(tNumber, sb.String(), line)
			lx.pos = p
			return nil
		}
	}
	// at the apostrophe
	sb.WriteByte('\'')
	p++
	if p < len(lx.src) && (lx.src[p] == 's' || lx.src[p] == 'S') {
		sb.WriteByte('s')
		p++
	}
	if p >= len(lx.src) || strings.IndexByte("bBoOdDhH", lx.src[p]) < 0 {
		return lx.synErr(line, "malformed number literal: missing base after '")
	}
	base := lx.src[p] | 0x20
	sb.WriteByte(base)
	p++
	for p < len(lx.src) && (lx.src[p] == ' ' || lx.src[p] == '\t') {
		p++
	}
	nd := 0
	for p < len(lx.src) {
		ch := lx.src[p]
		ok := ch == 'x' || ch == 'X' || ch == 'z' || ch == 'Z' || ch == '?' || ch == '_'
		switch base {
		case 'b':
			ok = ok || ch == '0' || ch == '1'
		case 'o':
			ok = ok || (ch >= '0' && ch <= '7')
		case 'd':
			ok = ok || isDigit(ch)
		case 'h':
			ok = ok || isDigit(ch) || (ch >= 'a' && ch <= 'f') || (ch >= 'A' && ch <= 'F')
		}
		if ok && !(nd == 0 && ch == '_') {
			sb.WriteByte(ch)
			p++
			nd++
			continue
		}
		break
	}
	if nd == 0 {
		return lx.synErr(line, "malformed number literal: no digits")
	}
	if p < len(lx.src) && isIdentChar(lx.src[p]) {
		return lx.synErr(line, "malformed number literal "+sb.String()+string(lx.src[p]))
	}
	lx.emit(tNumber, sb.String(), line)
	lx.pos = p
	return nil
}
