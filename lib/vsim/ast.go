package vsim

import "math/big"

// ---------- expressions ----------

type Expr interface {
	exprLine() int
}

type Number struct {
	Line   int
	Text   string   // raw text with blanks removed, e.g. 8'd3
	Size   int      // 0 = unsized
	Signed bool     // plain decimal or 's' flag
	Value  *big.Int // x/z/? digits read as 0
	XZ     *big.Int // bit mask of x/z/? positions (nil if none)
	Z      *big.Int // bit mask of z/? positions only (nil if none)
}

type Ident struct {
	Line int
	Name string
}

// Index is a single index: bit select or memory word select.
type Index struct {
	Line int
	X    Expr
	Idx  Expr
}

// PartSel is x[msb:lsb] (Mode ':'), x[base +: width] ('+') or x[base -: width] ('-').
type PartSel struct {
	Line int
	X    Expr
	Mode byte
	A, B Expr
}

type Concat struct {
	Line  int
	Parts []Expr
}

type Repl struct {
	Line  int
	Count Expr
	Parts []Expr // the inner concatenation
}

type Unary struct {
	Line int
	Op   string
	X    Expr
}

type Binary struct {
	Line int
	Op   string
	L, R Expr
}

type Ternary struct {
	Line    int
	C, A, B Expr
}

// SysFunc is $signed(x) / $unsigned(x) (others are rejected at elaboration).
type SysFunc struct {
	Line int
	Name string
	Args []Expr
}

// StringLit only appears as a system task argument.
type StringLit struct {
	Line int
	S    string
}

func (e *Number) exprLine() int    { return e.Line }
func (e *Ident) exprLine() int     { return e.Line }
func (e *Index) exprLine() int     { return e.Line }
func (e *PartSel) exprLine() int   { return e.Line }
func (e *Concat) exprLine() int    { return e.Line }
func (e *Repl) exprLine() int      { return e.Line }
func (e *Unary) exprLine() int     { return e.Line }
func (e *Binary) exprLine() int    { return e.Line }
func (e *Ternary) exprLine() int   { return e.Line }
func (e *SysFunc) exprLine() int   { return e.Line }
func (e *StringLit) exprLine() int { return e.Line }

// ---------- statements ----------

type Stmt interface {
	stmtLine() int
}

type Block struct {
	Line  int
	Name  string
	Decls []*Decl
	Stmts []Stmt
}

type If struct {
	Line int
	Cond Expr
	Then Stmt // may be nil (null statement)
	Else Stmt // may be nil
}

type CaseItem struct {
	Line    int
	Labels  []Expr // empty = default
	Default bool
	Body    Stmt // may be nil
}

type Case struct {
	Line  int
	Kind  string // case, casez, casex
	X     Expr
	Items []*CaseItem
}

type For struct {
	Line int
	Init *AssignStmt
	Cond Expr
	Step *AssignStmt
	Body Stmt
}

type AssignStmt struct {
	Line     int
	Blocking bool
	LHS      Expr
	RHS      Expr
}

type SysCall struct {
	Line int
	Name string
	Args []Expr
}

type Null struct{ Line int }

func (s *Block) stmtLine() int      { return s.Line }
func (s *If) stmtLine() int         { return s.Line }
func (s *Case) stmtLine() int       { return s.Line }
func (s *For) stmtLine() int        { return s.Line }
func (s *AssignStmt) stmtLine() int { return s.Line }
func (s *SysCall) stmtLine() int    { return s.Line }
func (s *Null) stmtLine() int       { return s.Line }

// ---------- module items ----------

type Range struct {
	MSB, LSB Expr
}

type DeclName struct {
	Name  string
	Array *Range // memory dimension, nil for scalars/vectors
	Init  Expr   // declaration initialiser / wire assignment
	Line  int
}

// Decl is a port direction declaration and/or a net/variable declaration.
type Decl struct {
	Line   int
	Dir    string // "", input, output, inout
	Kind   string // "", wire, reg, integer
	Signed bool
	Range  *Range
	Names  []DeclName
}

type Param struct {
	Line   int
	Local  bool
	Signed bool
	Range  *Range
	Name   string
	Value  Expr
}

type ContAssignItem struct {
	Line int
	LHS  Expr
	RHS  Expr
}

type SensItem struct {
	Edge string // posedge, negedge, "" (level)
	X    Expr
}

type Always struct {
	Line int
	Star bool
	Sens []SensItem
	Body Stmt
}

type Initial struct {
	Line int
	Body Stmt
}

type PortConn struct {
	Line int
	Name string // "" for positional
	X    Expr   // nil = unconnected
}

type Instance struct {
	Line   int
	Module string
	Name   string
	Params []PortConn // #( ... ) overrides, named or positional
	Conns  []PortConn
	Named  bool
}

type Module struct {
	File  string
	Line  int
	Name  string
	Ports []string // port order
	// Items in source order: *Decl, *Param, *ContAssignItem, *Always, *Initial, *Instance
	Items []interface{}
}
