// Package sched is the seeded goroutine scheduler: it runs a workload inside
// a testing/synctest bubble and decides, from the run's "sched" tape, which
// parked simulated goroutine proceeds at every scheduling point. Quiescence
// (and hence deadlock and leaks) is detected exactly by synctest.Wait.
package sched

import (
	"fmt"
	"strings"
	"testing"
	"testing/synctest"
	"time"

	"veriflib/simrt"
)

const (
	Canonical  = 0 // lowest id first, no draws
	Uniform    = 1
	PCT        = 2
	RunToBlock = 3
	RoundRobin = 4
	FromTape   = -1
)

var StrategyNames = []string{"canonical", "uniform", "pct", "run-to-block", "round-robin"}

type Config struct {
	Strategy int
	MaxSteps int  // scheduler releases; 0 = 200000
	MapMode  int  // see simrt.Run.MapMode; -1 = draw from tape
	KeepLog  bool // retain the full event log
	Drain    bool // keep scheduling after the root returned, until quiescence
	ForceMap map[string]int // with MapMode 4: site -> policy
	RandKey  *uint64 // non-nil: keyed pseudo-random stimulus (see simrt.Run.RandKeyed)
}

type Result struct {
	RootDone bool
	Deadlock bool
	Blocked  []string // live goroutines at deadlock
	Leaked   []string // live goroutines after root returned and the system went quiescent
	StepCap  bool
	Exited   bool
	ExitCode int
	Panicked bool
	PanicVal string
	PanicG   string

	Steps       int
	Goroutines  int
	Fingerprint uint64
	Strategy    int
	MapMode     int
	Probes      map[string]int
	Faults      map[string]int
	MapSeen     []string
	Perturbed   []string
	Log         []simrt.Event
	Tapes       map[string][]uint32
	BubbleNote  string
}

// Run executes root as simulated goroutine "0" under the scheduler.
func Run(t *testing.T, tapes *simrt.Tapes, cfg Config, root func(r *simrt.Run)) (res Result) {
	if cfg.MaxSteps == 0 {
		cfg.MaxSteps = 200000
	}
	var r *simrt.Run
	func() {
		defer func() {
			if p := recover(); p != nil {
				s := fmt.Sprint(p)
				// end-of-bubble report about goroutines that stay blocked: expected
				// whenever a run ends with leaked / deadlocked / aborted goroutines.
				if strings.Contains(s, "blocked goroutines remain") || strings.Contains(s, "deadlock") {
					res.BubbleNote = firstLine(s)
					return
				}
				panic(p)
			}
		}()
		synctest.Test(t, func(t *testing.T) {
			r = &simrt.Run{Tapes: tapes, KeepLog: cfg.KeepLog,
				NewChan: func() chan struct{} { return make(chan struct{}) }}
			if cfg.RandKey != nil {
				r.RandKeyed, r.RandKey = true, *cfg.RandKey
			}
			simrt.ResetClock()
			simrt.Start(r)
			defer simrt.Stop(r)
			st := tapes.Get(simrt.StreamSched)
			strategy := cfg.Strategy
			if strategy == FromTape {
				strategy = 1 + st.Draw(4)
			}
			mapMode := cfg.MapMode
			if mapMode < 0 {
				mapMode = 1 + tapes.Get(simrt.StreamMap).Draw(3)
			}
			only := 0
			if mapMode == 3 {
				only = tapes.Get(simrt.StreamMap).Draw(64)
			}
			r.SetMapMode(mapMode, only)
			r.ForceMap = cfg.ForceMap
			res.Strategy, res.MapMode = strategy, mapMode

			reg := make(chan *simrt.G)
			go func() {
				g := r.NewRoot()
				reg <- g
				r.RunRoot(g, func() { root(r) })
			}()
			rootG := <-reg

			// PCT state
			var changeAt []int
			if strategy == PCT {
				horizon := []int{40, 400, 4000}[st.Draw(3)]
				d := st.Draw(4)
				for i := 0; i < d; i++ {
					changeAt = append(changeAt, st.Draw(horizon))
				}
			}
			lowest := 0
			var last *simrt.G
			rr := 0
			slept := false
			for {
				synctest.Wait()
				if r.StoppedNow() {
					break
				}
				parked := r.Parked()
				rootEnded := rootG.Ended()
				if rootEnded && !cfg.Drain {
					break
				}
				if len(parked) == 0 {
					if !slept {
						// let pending in-bubble timers (if any) fire before concluding
						slept = true
						time.Sleep(24 * time.Hour)
						continue
					}
					if !rootEnded {
						res.Deadlock = true
						res.Blocked = r.Describe()
					}
					break
				}
				slept = false
				if r.Steps >= cfg.MaxSteps {
					res.StepCap = true
					r.Abort()
					break
				}
				var g *simrt.G
				switch strategy {
				case Canonical:
					g = parked[0]
				case Uniform:
					g = parked[st.Draw(len(parked))]
				case PCT:
					for _, p := range parked {
						if p.Prio() == 0 {
							p.SetPrio(1000 + st.Draw(1<<20))
						}
					}
					for _, c := range changeAt {
						if c == r.Steps {
							// demote the currently best
							best := parked[0]
							for _, p := range parked {
								if p.Prio() > best.Prio() {
									best = p
								}
							}
							lowest++
							best.SetPrio(1000 - lowest)
						}
					}
					g = parked[0]
					for _, p := range parked {
						if p.Prio() > g.Prio() {
							g = p
						}
					}
				case RunToBlock:
					if last != nil && last.IsParked() && !last.Ended() && st.Draw(8) != 1 {
						g = last
					} else {
						g = parked[st.Draw(len(parked))]
					}
				case RoundRobin:
					rr++
					g = parked[rr%len(parked)]
				default:
					g = parked[0]
				}
				last = g
				r.Release(g)
			}
			res.RootDone = rootG.Ended()
			if res.RootDone && cfg.Drain && !r.StoppedNow() {
				res.Leaked = r.Describe()
			}
		})
	}()
	if r != nil {
		simrt.Stop(r)
		res.Exited, res.ExitCode = r.Exited, r.ExitCode
		res.Panicked, res.PanicVal, res.PanicG = r.Panicked, r.PanicVal, r.PanicG
		res.Steps = r.Steps
		res.Goroutines = len(r.All)
		res.Fingerprint = r.Fingerprint()
		res.Probes, res.Faults = r.Probes, r.Faults
		res.MapSeen = r.MapSitesSeen()
		res.Perturbed = r.PerturbedSites()
		res.Log = r.Log
		res.Tapes = tapes.Recorded()
	}
	return res
}

func firstLine(s string) string {
	if i := strings.IndexByte(s, '\n'); i >= 0 {
		return s[:i]
	}
	return s
}
