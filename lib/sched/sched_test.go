package sched

import (
	"testing"

	"veriflib/simrt"
)

// A 3-goroutine replica of an "answer before notify" exit protocol: the
// assigner answers the requester and only then notifies the monitor; main
// stops the monitor first and the assigner second. Some interleavings
// deadlock (assigner blocked sending to a monitor that has gone).
func protocol(r *simrt.Run) {
	req := make(chan int)
	resp := make(chan int)
	used := make(chan int)
	simrt.Go("assigner", func() {
		for {
			v := simrt.Recv("a.req", req)
			if v < 0 {
				return
			}
			simrt.Send("a.resp", resp, v)
			simrt.Send("a.used", used, v)
		}
	})
	simrt.Go("monitor", func() {
		for {
			v := simrt.Recv("m.used", used)
			if v < 0 {
				return
			}
		}
	})
	for i := 0; i < 3; i++ {
		simrt.Send("main.req", req, i)
		simrt.Recv("main.resp", resp)
	}
	simrt.Send("main.stopmon", used, -1)
	simrt.Send("main.stopasg", req, -1)
}

func TestDeadlockFoundAndDeterministic(t *testing.T) {
	dead := 0
	for seed := uint64(0); seed < 40; seed++ {
		var fp [2]uint64
		var dl [2]bool
		for k := 0; k < 2; k++ {
			res := Run(t, simrt.NewTapes(seed, 0), Config{Strategy: FromTape, MapMode: 0, Drain: true}, protocol)
			fp[k], dl[k] = res.Fingerprint, res.Deadlock
			if !res.Deadlock && (!res.RootDone || len(res.Leaked) != 0) {
				t.Fatalf("seed %d: unexpected %+v", seed, res)
			}
		}
		if fp[0] != fp[1] || dl[0] != dl[1] {
			t.Fatalf("seed %d not deterministic", seed)
		}
		if dl[0] {
			dead++
		}
	}
	if dead == 0 || dead == 40 {
		t.Fatalf("deadlocks on %d of 40 seeds", dead)
	}
	t.Logf("deadlock on %d of 40 seeds", dead)
	// canonical schedule replays from an empty tape
	res := Run(t, simrt.ReplayTapes(nil), Config{Strategy: FromTape, MapMode: 0, Drain: true}, protocol)
	t.Logf("empty tape: deadlock=%v steps=%d", res.Deadlock, res.Steps)
}

func TestReplayReproduces(t *testing.T) {
	for seed := uint64(0); seed < 40; seed++ {
		a := Run(t, simrt.NewTapes(seed, 1), Config{Strategy: FromTape, Drain: true}, protocol)
		b := Run(t, simrt.ReplayTapes(a.Tapes), Config{Strategy: FromTape, Drain: true}, protocol)
		if a.Fingerprint != b.Fingerprint || a.Deadlock != b.Deadlock {
			t.Fatalf("seed %d: replay differs", seed)
		}
	}
}

func TestLeak(t *testing.T) {
	res := Run(t, simrt.NewTapes(1, 0), Config{Strategy: Uniform, Drain: true}, func(r *simrt.Run) {
		c := make(chan int)
		simrt.Go("leaker", func() { simrt.Recv("l", c) })
	})
	if len(res.Leaked) != 1 || res.Deadlock {
		t.Fatalf("%+v", res)
	}
}

func TestMapIterOrders(t *testing.T) {
	m := map[string]int{"a": 1, "b": 2, "c": 3, "d": 4, "e": 5}
	seen := map[string]bool{}
	for seed := uint64(0); seed < 30; seed++ {
		Run(t, simrt.NewTapes(seed, 0), Config{Strategy: Canonical, MapMode: 1}, func(r *simrt.Run) {
			s := ""
			for k := range simrt.MapIter("site", m) {
				s += k
			}
			seen[s] = true
		})
	}
	if len(seen) < 4 {
		t.Fatalf("only %d orders", len(seen))
	}
	Run(t, simrt.NewTapes(0, 0), Config{Strategy: Canonical, MapMode: 0}, func(r *simrt.Run) {
		s := ""
		for k := range simrt.MapIter("site", m) {
			s += k
		}
		if s != "abcde" {
			t.Fatalf("canonical order %s", s)
		}
	})
}

func TestExitAndPanic(t *testing.T) {
	res := Run(t, simrt.NewTapes(1, 0), Config{Strategy: Uniform, Drain: true}, func(r *simrt.Run) {
		c := make(chan int)
		simrt.Go("w", func() { simrt.Recv("l", c) })
		simrt.Exit(3)
	})
	if !res.Exited || res.ExitCode != 3 || res.Deadlock {
		t.Fatalf("%+v", res)
	}
	res = Run(t, simrt.NewTapes(1, 0), Config{Strategy: Uniform, Drain: true}, func(r *simrt.Run) {
		var m map[string]int
		m["x"] = 1
	})
	if !res.Panicked {
		t.Fatalf("%+v", res)
	}
}
