// Package hkit is the harness kit: the per-property harnesses (test binaries
// built against the instrumented copy) use it to run a range of seeded runs,
// or to replay one recorded run, and to report one JSON record per run to the
// driver.
package hkit

import (
	"bufio"
	"encoding/json"
	"fmt"
	"hash/fnv"
	"os"
	"sort"
	"strconv"
	"testing"
	"time"

	"veriflib/simrt"
)

type Violation struct {
	Sig    string `json:"sig"`
	Detail string `json:"detail"`
}

// Outcome of one run.
type Outcome struct {
	Violations   []Violation       `json:"violations,omitempty"`
	Nontrivial   bool              `json:"nontrivial"`
	Key          string            `json:"key,omitempty"` // distinctness key of the case
	Sample       any               `json:"sample,omitempty"`
	Counters     map[string]int    `json:"counters,omitempty"`
	Faults       map[string]int    `json:"faults,omitempty"`
	Probes       map[string]int    `json:"probes,omitempty"`
	SimTime      int64             `json:"simtime"` // simulated steps / ticks / cycles
	Fingerprints []string          `json:"fps,omitempty"`
	Inconclusive string            `json:"inconclusive,omitempty"`
	Trace        []string          `json:"trace,omitempty"` // human readable, only kept for violations / replay
	Extra        map[string]string `json:"extra,omitempty"`
}

// Record is one line of the worker's output file.
type Record struct {
	Run     uint64              `json:"run"`
	Seed    uint64              `json:"seed"`
	WallUS  int64               `json:"wall_us"`
	Outcome Outcome             `json:"outcome"`
	Tapes   map[string][]uint32 `json:"tapes,omitempty"`
}

// Replay is the replay file format (also what the driver writes under
// /verif/replays).
type Replay struct {
	Property  string              `json:"property"`
	Seed      uint64              `json:"seed"`
	Run       uint64              `json:"run"`
	Tier      string              `json:"tier"`
	Signature string              `json:"signature"`
	Detail    string              `json:"detail,omitempty"`
	Tapes     map[string][]uint32 `json:"tapes"`
	Original  map[string][]uint32 `json:"original_tapes,omitempty"`
	Trace     []string            `json:"trace,omitempty"`
	Params    map[string]string   `json:"params,omitempty"`
}

type Ctx struct {
	T      *testing.T
	Seed   uint64
	Run    uint64
	Tier   string
	Tapes  *simrt.Tapes
	Replay bool
	Params map[string]string
}

func (c *Ctx) Gen() *simrt.Tape { return c.Tapes.Get(simrt.StreamGen) }
func (c *Ctx) Env() *simrt.Tape { return c.Tapes.Get(simrt.StreamEnv) }

// Param returns a harness parameter passed by the driver (VERIF_PARAM_x).
func (c *Ctx) Param(name, def string) string {
	if v, ok := c.Params[name]; ok {
		return v
	}
	return def
}

func (c *Ctx) ParamInt(name string, def int) int {
	if v, ok := c.Params[name]; ok {
		if n, err := strconv.Atoi(v); err == nil {
			return n
		}
	}
	return def
}

func envU(name string, def uint64) uint64 {
	if v := os.Getenv(name); v != "" {
		n, err := strconv.ParseUint(v, 10, 64)
		if err == nil {
			return n
		}
	}
	return def
}

// Hash is a helper for distinctness keys.
func Hash(parts ...any) string {
	h := fnv.New64a()
	for _, p := range parts {
		fmt.Fprintf(h, "%v|", p)
	}
	return strconv.FormatUint(h.Sum64(), 16)
}

// Main runs the harness. Environment:
//
//	VERIF_SEED, VERIF_RUN_LO, VERIF_RUN_HI  range of runs (generate mode)
//	VERIF_REPLAY                            replay file (one run; overrides the range)
//	VERIF_OUT                               output file, one JSON record per line
//	VERIF_TIER                              quick | thorough
//	VERIF_PARAMS                            JSON object of harness parameters
//	VERIF_BUDGET_S                          stop starting new runs after this many seconds
func Main(t *testing.T, prop string, one func(c *Ctx) Outcome) {
	out := os.Stdout
	if p := os.Getenv("VERIF_OUT"); p != "" {
		f, err := os.Create(p)
		if err != nil {
			t.Fatal(err)
		}
		defer f.Close()
		out = f
	}
	w := bufio.NewWriterSize(out, 1<<20)
	defer w.Flush()
	enc := json.NewEncoder(w)
	tier := os.Getenv("VERIF_TIER")
	if tier == "" {
		tier = "quick"
	}
	params := map[string]string{}
	if p := os.Getenv("VERIF_PARAMS"); p != "" {
		json.Unmarshal([]byte(p), &params)
	}
	if rp := os.Getenv("VERIF_REPLAY"); rp != "" {
		b, err := os.ReadFile(rp)
		if err != nil {
			t.Fatal(err)
		}
		var r Replay
		if err := json.Unmarshal(b, &r); err != nil {
			t.Fatal(err)
		}
		for k, v := range r.Params {
			params[k] = v
		}
		if r.Tier != "" {
			tier = r.Tier
		}
		c := &Ctx{T: t, Seed: r.Seed, Run: r.Run, Tier: tier, Tapes: simrt.ReplayTapes(r.Tapes), Replay: true, Params: params}
		t0 := time.Now()
		o := one(c)
		enc.Encode(Record{Run: r.Run, Seed: r.Seed, WallUS: time.Since(t0).Microseconds(), Outcome: o, Tapes: c.Tapes.Recorded()})
		return
	}
	seed := envU("VERIF_SEED", 1)
	lo, hi := envU("VERIF_RUN_LO", 0), envU("VERIF_RUN_HI", 1)
	budget := time.Duration(envU("VERIF_BUDGET_S", 0)) * time.Second
	start := time.Now()
	samples := 0
	for run := lo; run < hi; run++ {
		if budget > 0 && time.Since(start) > budget {
			break
		}
		c := &Ctx{T: t, Seed: seed, Run: run, Tier: tier, Tapes: simrt.NewTapes(seed, run), Params: params}
		t0 := time.Now()
		o := one(c)
		rec := Record{Run: run, Seed: seed, WallUS: time.Since(t0).Microseconds(), Outcome: o}
		if len(o.Violations) > 0 {
			rec.Tapes = c.Tapes.Recorded()
		} else {
			rec.Outcome.Trace = nil
			if samples >= 2 || !o.Nontrivial {
				rec.Outcome.Sample = nil
			} else {
				samples++
			}
		}
		if err := enc.Encode(rec); err != nil {
			t.Fatal(err)
		}
	}
}

// SortedKeys is a small helper for deterministic output.
func SortedKeys[V any](m map[string]V) []string {
	ks := make([]string, 0, len(m))
	for k := range m {
		ks = append(ks, k)
	}
	sort.Strings(ks)
	return ks
}

// AddCounts merges b into a.
func AddCounts(a map[string]int, b map[string]int) map[string]int {
	if a == nil {
		a = map[string]int{}
	}
	for k, v := range b {
		a[k] += v
	}
	return a
}
