#!/bin/sh
# seedcheck.sh <name e.g. C13-a> <property id> [extra verif args]
# Confirms a seeded property-breaking change (from /tmp/wt/out/<name>) and runs the check against it.
name=$1; prop=$2; shift 2
src=${SEEDSRC:-/tmp/wt/out3}/$name
work=/tmp/seedwork/$name
export GOFLAGS=-mod=mod GOPROXY=off GOSUMDB=off GOTOOLCHAIN=local
rm -rf $work; mkdir -p $work/repo $work/clean
git -C /repo archive HEAD | tar -x -C $work/repo
git -C /repo archive HEAD | tar -x -C $work/clean
( cd $work/repo && git init -q . >/dev/null 2>&1; git apply --whitespace=nowarn $src/patch.diff ) || { echo "PATCH DOES NOT APPLY"; exit 3; }
echo "== build + suite on the changed tree"
( cd $work/repo && go build -o /dev/null ./cmd/basm ./cmd/bondgo ./cmd/bondmachine ./cmd/procbuilder ./cmd/neuralbond ./cmd/bmqsim ./cmd/simfinetune ) && echo "tools build: ok" || echo "tools build: FAIL"
( cd $work/repo && go test -vet=off -count=1 ./pkg/basm ./pkg/bcof ./pkg/bmline ./pkg/bmnumbers ./pkg/bmreqs ./pkg/bmserialize ./pkg/bmstack ./pkg/bondgo ./pkg/bondirect ./pkg/bondmachine ./pkg/procbuilder ./pkg/simbox 2>&1 | grep -E "^(ok|FAIL|---)" | grep -v "^ok" | tr '\n' ';' ); echo
echo "== demo"
( cd $src/demo && bash ./run.sh $work/repo >$work/demo_changed.log 2>&1 ); echo "demo on changed tree: exit $?"
( cd $src/demo && bash ./run.sh $work/clean >$work/demo_clean.log 2>&1 ); echo "demo on clean tree: exit $?"
echo "== check $prop against the changed tree"
cd /verif && bin/verif check $prop --tier quick --repo $work/repo "$@" >$work/check.log 2>&1; rc=$?
echo "check exit $rc"; grep "^violation\|^VIOLATION\|further new" $work/check.log | head -8; tail -1 $work/check.log
