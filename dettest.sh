#!/bin/sh
# dettest.sh <ID> [runs]: determinism self-test of a harness — the same seeds are executed in separate
# processes under GOMAXPROCS 1, 4 and 16 (twice each) and the per-run records (minus wall time) are diffed.
id=$1; n=${2:-40}
cd /verif && bin/verif check $id --tier quick --runs 16 --keep --no-evidence >/dev/null 2>&1
W=/var/tmp/verif-work/$id-quick
params=$(python3 -c "
import json,glob
cs=json.load(open('/verif/checks.json'))
for f in glob.glob('/verif/harness/*/check.json'): cs.append(json.load(open(f)))
print(json.dumps([c for c in cs if c['id']=='$id'][0]['quick'].get('params',{})))")
i=0
for gmp in 1 4 16 1 4 16; do
  i=$((i+1))
  ( cd $W && VERIF_SEED=7 VERIF_RUN_LO=0 VERIF_RUN_HI=$n VERIF_OUT=$W/det$i.jsonl VERIF_TIER=quick VERIF_PARAMS="$params" GOMAXPROCS=$gmp ./harness.test -test.run '^TestVerif$' -test.timeout 1200s >/dev/null 2>&1 )
  python3 - $W/det$i.jsonl > $W/det$i.norm <<'PY'
import json,sys
for l in open(sys.argv[1]):
    r=json.loads(l); r.pop('wall_us',None); print(json.dumps(r,sort_keys=True))
PY
done
ok=1
for i in 2 3 4 5 6; do cmp -s $W/det1.norm $W/det$i.norm || { ok=0; echo "$id: run set $i differs from set 1"; diff $W/det1.norm $W/det$i.norm | head -3 | cut -c1-300; }; done
[ $ok = 1 ] && echo "$id: deterministic over $n seeds x 6 processes (GOMAXPROCS 1/4/16 twice), $(wc -l < $W/det1.norm) records"
rm -rf $W
