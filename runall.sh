#!/bin/sh
# regression helper: every claimed check, quick tier, exit codes
cd /verif
for id in $(python3 -c "import json;print(' '.join(c['property_id'] for c in json.load(open('MANIFEST.json'))['checks']))"); do
  t0=$(date +%s)
  bin/verif check $id --tier ${1:-quick} > /tmp/runall_$id.log 2>&1
  rc=$?
  echo "$id rc=$rc $(( $(date +%s) - t0 ))s $(tail -1 /tmp/runall_$id.log | cut -c1-150)"
done
