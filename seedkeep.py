#!/usr/bin/env python3
# seedkeep.py <name> <property> <caught yes|no|after-strengthening> <needs> <signatures> [note]
import sys,os,shutil,json,subprocess,glob
name,prop,caught,needs,sigs=sys.argv[1:6]
note=sys.argv[6] if len(sys.argv)>6 else ""
src=os.environ.get('SEEDSRC','/tmp/wt/out3')+'/'+name
dst='/verif/seeded/'+name
shutil.rmtree(dst,ignore_errors=True)
os.makedirs(dst)
shutil.copy(src+'/patch.diff',dst)
shutil.copytree(src+'/demo',dst+'/demo')
for f in glob.glob(dst+'/demo/*.log'): os.remove(f)
if os.path.exists(src+'/README.md'): shutil.copy(src+'/README.md',dst+'/README.md')
head=subprocess.check_output(['git','-C','/repo','rev-parse','--short','HEAD']).decode().strip()
meta={"name":name,"breaks_property":prop,"needs_to_manifest":needs,
 "confirmed":{"base_commit":head,
   "steps":["git archive HEAD of /repo into a scratch tree + git apply patch.diff","go build of the seven cmd tools: ok","existing suite (12 packages): unchanged verdicts (only the baseline failure TestNumberToBinary)","demo/run.sh <changed tree>: exit non-zero","demo/run.sh <clean tree>: exit 0",
            "bin/verif check %s --tier quick --repo <changed tree>   (equivalent to: git -C /repo apply patch.diff; bin/verif check %s --tier quick; git -C /repo checkout -- .)"%(prop,prop)]},
 "detected_by_check":caught,"signatures_reported":[s for s in sigs.split(',') if s],"note":note,"author":"independent sub-agent given only the property text and a scratch worktree"}
json.dump(meta,open(dst+'/meta.json','w'),indent=1)
print("kept",dst)
