#!/usr/bin/env python3
# Regenerates /verif/MANIFEST.json from the table below and /verif/checks.json.
import json
props=[json.loads(l) for l in open('/verif/properties.jsonl')]
NA={
 "C03":"Pure function of (architecture, instruction line): no goroutine, map iteration, clock, I/O or shared mutable state on the assemble/disassemble path, so there is no schedule or fault for a simulator to choose (DESIGN.md §4).",
 "C14":"Pure numeric function of the gate list (matrix algebra): nothing concurrent, timed or faulty to simulate (DESIGN.md §4).",
 "C18":"Static well-formedness of emitted text, a pure function of the machine configuration; no schedule, clock or fault involved (DESIGN.md §4).",
}
CLAIMS={
 "C05":("exploration",
  "Random .basm sources (control-flow graphs with labels and a declared entry, macros incl. nested/repeated/labelled calls, mov pseudo-instructions, literals in five notations, several CPs wired with fan-out) are assembled by the real basm under the canonical and K perturbed map-iteration orders, validated by an independent well-formedness validator and simulated; external output streams must be prefixes of what a direct interpretation of the source produces and must not stay silent where the source produces output; acceptance and the machine must not depend on iteration order.",
  "Trusted: the basmsrc reference interpreter (written from the property statement), prompt environment agents. Macros without arguments only; `mov r, <number>` is not generated (needs a chooser option).",
  "deterministic simulation: assembler under seeded map-order schedules + simulated machine vs reference interpretation of the source","DESIGN.md §3 C05"),
 "C15":("exploration",
  "Random simbox rule lists over every documented rule form with add/suspend/reactivate/delete/save-reload histories: print/parse round trip, and the simulation (the real cmd/bondmachine main run in-process under the seeded scheduler, a call-by-call re-drive of its loop, and SinglePipelineSimulate) must inject and report exactly what a rule predictor derives from the active rules and a rule-free reference trace; suspended rules must leave the run byte-identical.",
  "Trusted: the rules reference model written from docs/simbox-rules.md, the re-driven loop being checked byte-for-byte against the real main. Ten documented-but-unimplemented behaviours are recorded as known findings.",
  "deterministic simulation of the real tick loop under the seeded scheduler against a rule predictor; history-based rule-list model","DESIGN.md §3 C15"),
 "C02":("exploration",
  "Random bond graphs with Kahn programs are assembled by the real basm, the whole HDL file set is generated and executed in vsim, the same machine is simulated in bondmachine.VM, each under its own seeded environment timing; external output streams must agree prefix-wise in both the disciplined and the free I/O regime, both worlds must keep running after stalls stop, and the elaborated top-level netlist must connect exactly the bonded endpoints with received = conjunction of the bonded inputs' received lines.",
  "Trusted: vsim, envsim agents, the Kahn reference (used to say which world deviates). Environment assumption: on outputs whose received is a conjunction over several consumers the environment returns to zero as promptly as processors do.",
  "deterministic co-simulation (vsim vs Go simulator) under seeded handshake environments + structural netlist-vs-bond-graph comparison","DESIGN.md §3 C02"),
 "C04":("exploration",
  "Kahn networks with fan-out and arbitrary (including zero) padding between I/O instructions run in the Go simulator (seeded per-opcode delays, stalling agents) and as generated HDL in vsim; against the Kahn semantics every consumer's captured stream and every external output is a prefix of what was sent, per step no consumer is more than one transfer ahead of or behind its producer, and every live processor transfers again in a stall-free tail.",
  "Trusted: the Kahn reference model as the meaning of exactly-once in-order delivery; vsim; agents. Same environment assumption as C02 for shared outputs.",
  "deterministic simulation of both back-ends under seeded delays/stalls against a Kahn-network reference; per-step exactly-once invariant + bounded liveness","DESIGN.md §3 C04"),
 "C11":("fault_enumeration",
  "Fault-free: random machines (basm-assembled networks and directly constructed machines with dynamic opcodes, shared objects, threading, word-size overrides) must survive save/load structurally (reflect walk over all fields), byte-identically on re-save, with identical generated Verilog and identical 100-tick simulation. Faults: for one machine per fault run EVERY truncation length, torn write at every 512-byte boundary, lost write, ENOSPC, crash between truncate and write and EVERY single-bit flip of the saved file are enumerated through the simulated disk; a load must fail loudly, or give the saved machine, or a well-formed other machine, never one with a nil opcode / shared object or dangling link.",
  "Trusted: simdisk fault model, encoding/json. The relaxation under faults (another well-formed machine is accepted) is inherent to a checksum-free format. Enumeration is complete per fault-run machine (files < 2 KB), machines themselves are sampled.",
  "simulated disk with enumerated short/torn/lost/ENOSPC/crash/bit-flip faults around the real save/load path; fault-free round-trip equivalence","DESIGN.md §3 C11"),
 "C01":("exploration",
  "Random architectures and in-range programs over a committed table of co-implemented (opcode, register size) pairs are executed twice — generated HDL clock by clock in vsim, procbuilder.VM tick by tick — each under its own seeded environment timing; retired pc sequences, post-retire (pc, registers, outputs) snapshots and handshaked output streams must agree. Sampling over programs, architectures and environment schedules.",
  "Trusted: vsim as Verilog executor (2-state, written for this task), the committed co-implemented table (harness/C01/TABLE.md lists every exclusion and why), disciplined I/O regime only, no RAM opcodes (their Simulate is a stub), hardware-optimisation flags not exercised yet.",
  "deterministic co-simulation of generated HDL (vsim) and ISA simulator under seeded handshake/stall environments; retire-point state equality","DESIGN.md §3 C01"),
 "C10":("exploration",
  "Random histories of topology edits with valid and invalid arguments, save/reload (process restart) and crash-before-save are applied to the real Bondmachine API and to a name-based reference model; well-formedness, bonds-by-name equality, rejected-edit-leaves-state and reload equality are checked after every step.",
  "Trusted: the bondgraph reference model (written from the property statement); an edit the specification rejects may be refused loudly (panic) as long as the machine is unchanged.",
  "deterministic simulation of edit/restart/crash histories against an executable reference model","DESIGN.md §3 C10"),
 "C13":("exploration",
  "The generated LIFO/FIFO module is executed clock by clock (vsim) under seeded protocol-abiding agents with stalls; per-cycle refinement to an abstract sequence, porcupine linearizability of the recorded agent histories and bounded service in a stall-free tail are checked. Seeded search over agent behaviours and configurations, not the exhaustive state exploration the property text envisages.",
  "Trusted: vsim (2-state interpreter written for this task, self-tested on hand-computed waveforms), the agents' protocol implementation, porcupine. Registers power up as zero, reset for two clocks.",
  "deterministic simulation of the generated HDL with seeded handshake agents; refinement + porcupine linearizability + bounded liveness","DESIGN.md §3 C13"),
 "C07":("exploration",
  "Each build tool (basm, basm+HDL generation, neuralbond, bmqsim->basm) is executed in-process under a canonical schedule and under seeded perturbations of every map iteration order and goroutine choice; artefact bytes and accept/reject decisions must be identical, mismatches are attributed to single map ranges. bondgo is covered by the same oracle in C12. Sampling, not proof.",
  "Trusted: simgen's census that every map range / goroutine / rand / time use of the instrumented packages is behind a seam (anything un-rewritable aborts the build); per-process inputs outside those seams (environment, file system layout) are fixed by the harness.",
  "deterministic simulation: tape-driven map-order and goroutine-schedule perturbation, canonical-vs-perturbed byte equality, single-site attribution","DESIGN.md §3 C07"),
 "C12":("exploration",
  "Seeded search over goroutine schedules and map iteration orders of the real cmd/bondgo main inside a synctest bubble: exact deadlock/leak detection, schedule-independence of the emitted assembly and machine JSON, and output equivalence with direct evaluation for the simulable subset. Sampling, not proof.",
  "Trusted: testing/synctest quiescence detection, simgen's source rewrite (scheduling points at channel ops, map ranges through simrt.MapIter), the goprog reference evaluator. Pre-emption only at channel operations/goroutine start/exit.",
  "deterministic simulation: seeded goroutine scheduler + map-order perturbation over the real compiler, reference evaluator oracle","DESIGN.md §3 C12"),
 "C09":("exploration",
  "Seeded search over schedules of the per-processor simulation workers and of concurrent single-shot simulations: the complete VM state digest and report text after every tick must equal those of the canonical schedule, concurrent simulations must return what they return alone. Sampling, not proof.",
  "Trusted: synctest quiescence, simgen rewrite, kahn generator. Pre-emption only at channel operations; races inside one Step are left to the race detector (not claimed by this check).",
  "deterministic simulation: seeded goroutine scheduler over the real VM workers, schedule-vs-canonical trace equality","DESIGN.md §3 C09"),
 "C17":("exploration",
  "Batches of single-shot simulations / assemblies run inside one bubble and are driven to exact quiescence; the goroutines still alive are counted per spawn site for batch sizes 1..8(16) and must not grow with the batch size.",
  "Trusted: synctest quiescence detection (exact, no sampling of runtime.NumGoroutine), simgen rewriting every go statement of the instrumented packages.",
  "deterministic simulation: run-to-quiescence leak census under seeded schedules","DESIGN.md §3 C17"),
}
checks=[]
for pid,(level,text,note,tech,ref) in sorted(CLAIMS.items()):
    checks.append({"property_id":pid,"quick_cmd":f"bin/verif check {pid} --tier quick","thorough_cmd":f"bin/verif check {pid} --tier thorough",
            "evidence_file":f"/verif/evidence/{pid}.json","replay_cmd_template":"bin/verif replay {path}","engine":"dst",
            "level_claimed":{"category":level,"text":text,"design_ref":ref},"level_note":note,"technique":tech})
na=[{"property_id":p["id"],"reason":NA.get(p["id"],"check not built yet (planned, see DESIGN.md §8); not claimed until it runs")} for p in props if p["id"] not in CLAIMS]
m={"version":1,"setup_cmd":"sh /verif/setup.sh",
   "hooks":{"guard":"verif","enable":"no hooks in /repo: each check copies /repo's working tree to /var/tmp/verif-work/<id>/src, /verif/bin/simgen rewrites the copy (map ranges, channel ops, go statements, math/rand, time, os.Exit behind veriflib/simrt) and the harness is built against the copy with go1.26.8 -tags verif -trimpath",
            "baseline_off_cmd":"cd /repo && GOFLAGS=-mod=mod GOPROXY=off GOSUMDB=off go test -vet=off -count=1 ./pkg/basm ./pkg/bcof ./pkg/bmline ./pkg/bmnumbers ./pkg/bmreqs ./pkg/bmserialize ./pkg/bmstack ./pkg/bondgo ./pkg/bondirect ./pkg/bondmachine ./pkg/brvga ./pkg/procbuilder ./pkg/simbox",
            "source_commits":[],"add_only":True},
   "engines":[{"name":"dst","path":"/verif/bin/verif","serves_properties":sorted(CLAIMS),"kind_free_text":"deterministic simulation driver: copy+simgen instrumentation, seeded scheduler (synctest), fault/env agents, tape replay and minimisation"}],
   "checks":checks,"not_applicable":na,
   "notes":"See DESIGN.md. Exit 2 = build/instrumentation/watchdog trouble, never a verdict. known_findings.json lists recorded defects (KNOWN-FINDING lines) and fixed: entries."}
json.dump(m,open('/verif/MANIFEST.json','w'),indent=1)
print("claimed:",sorted(CLAIMS))
