// simgen rewrites a scratch copy of the BondMachine repository so that every
// source of nondeterminism goes through veriflib/simrt (DESIGN.md §2.1).
//
//	simgen -dir /var/tmp/verif-work/X/src [-census out.json] [-pkgs a,b,...]
//
// It is total or loud: anything it cannot rewrite faithfully ends the run
// with exit status 2.
package main

import (
	"bytes"
	"encoding/json"
	"flag"
	"fmt"
	"go/ast"
	"go/format"
	"go/token"
	"go/types"
	"os"
	"path/filepath"
	"sort"
	"strconv"
	"strings"

	"golang.org/x/tools/go/ast/astutil"
	"golang.org/x/tools/go/packages"
)

var defaultPkgs = []string{
	"pkg/procbuilder", "pkg/bondmachine", "pkg/basm", "pkg/bmreqs", "pkg/bmnumbers",
	"pkg/bmline", "pkg/bmmeta", "pkg/bmconfig", "pkg/bminfo", "pkg/simbox", "pkg/bondgo",
	"pkg/neuralbond", "pkg/bmqsim", "pkg/bmmatrix", "pkg/bmstack", "pkg/bmserialize",
	"pkg/bmbuilder", "pkg/bmcluster", "pkg/bmgraph",
	"cmd/bondgo", "cmd/bondmachine", "cmd/basm", "cmd/neuralbond", "cmd/bmqsim", "cmd/simfinetune",
}

const simrtPath = "veriflib/simrt"

type census map[string]map[string]int // package -> kind -> count

func fatal(format string, a ...any) {
	fmt.Fprintf(os.Stderr, "simgen: "+format+"\n", a...)
	os.Exit(2)
}

func main() {
	dir := flag.String("dir", "", "root of the scratch copy (module root)")
	censusOut := flag.String("census", "", "write the seam census (JSON) here")
	pkgsFlag := flag.String("pkgs", "", "comma separated package dirs relative to -dir (default: built-in list)")
	libDir := flag.String("lib", "/verif/lib", "path of the veriflib module")
	flag.Parse()
	if *dir == "" {
		fatal("-dir required")
	}
	pk := defaultPkgs
	if *pkgsFlag != "" {
		pk = strings.Split(*pkgsFlag, ",")
	}
	var patterns []string
	for _, p := range pk {
		if st, err := os.Stat(filepath.Join(*dir, p)); err == nil && st.IsDir() {
			patterns = append(patterns, "./"+p)
		}
	}
	cfg := &packages.Config{
		Mode: packages.NeedName | packages.NeedFiles | packages.NeedSyntax | packages.NeedTypes |
			packages.NeedTypesInfo | packages.NeedImports | packages.NeedDeps | packages.NeedCompiledGoFiles,
		Dir:   *dir,
		Env:   os.Environ(),
		Tests: false,
	}
	pkgs, err := packages.Load(cfg, patterns...)
	if err != nil {
		fatal("load: %v", err)
	}
	cen := census{}
	nerr := 0
	for _, p := range pkgs {
		for _, e := range p.Errors {
			fmt.Fprintf(os.Stderr, "simgen: %s: %v\n", p.PkgPath, e)
			nerr++
		}
	}
	if nerr > 0 {
		fatal("%d load errors", nerr)
	}
	sort.Slice(pkgs, func(i, j int) bool { return pkgs[i].PkgPath < pkgs[j].PkgPath })
	for _, p := range pkgs {
		rel := strings.TrimPrefix(p.PkgPath, "github.com/BondMachineHQ/BondMachine/")
		cen[rel] = map[string]int{}
		isMain := p.Name == "main"
		for i, f := range p.Syntax {
			fn := p.CompiledGoFiles[i]
			if strings.HasSuffix(fn, "_test.go") {
				continue
			}
			rw := &rewriter{pkg: p, file: f, fset: p.Fset, cen: cen[rel], isMain: isMain, short: p.Name}
			rw.run()
			if !rw.changed {
				continue
			}
			stripComments(f)
			astutil.AddImport(p.Fset, f, simrtPath)
			for _, imp := range []string{"math/rand", "math/rand/v2", "time", "os", "log", "flag"} {
				if !astutil.UsesImport(f, imp) {
					// UsesImport is syntactic on the default name; check by explicit scan
					if !usesPkgName(f, imp) {
						astutil.DeleteImport(p.Fset, f, imp)
					}
				}
			}
			var buf bytes.Buffer
			if err := format.Node(&buf, p.Fset, f); err != nil {
				fatal("print %s: %v", fn, err)
			}
			if err := os.WriteFile(fn, buf.Bytes(), 0o644); err != nil {
				fatal("write %s: %v", fn, err)
			}
		}
	}
	// go.mod: require + replace veriflib
	gm := filepath.Join(*dir, "go.mod")
	b, err := os.ReadFile(gm)
	if err != nil {
		fatal("%v", err)
	}
	if !bytes.Contains(b, []byte("veriflib")) {
		b = append(b, []byte("\nrequire veriflib v0.0.0\n\nreplace veriflib => "+*libDir+"\n")...)
		if err := os.WriteFile(gm, b, 0o644); err != nil {
			fatal("%v", err)
		}
	}
	if *censusOut != "" {
		j, _ := json.MarshalIndent(cen, "", " ")
		os.WriteFile(*censusOut, j, 0o644)
	}
	tot := map[string]int{}
	for _, m := range cen {
		for k, v := range m {
			tot[k] += v
		}
	}
	j, _ := json.Marshal(tot)
	fmt.Printf("simgen: rewrote %d packages, seams: %s\n", len(pkgs), j)
}

func usesPkgName(f *ast.File, path string) bool {
	name := path[strings.LastIndex(path, "/")+1:]
	if name == "v2" {
		name = "rand"
	}
	for _, im := range f.Imports {
		p, _ := strconv.Unquote(im.Path.Value)
		if p == path && im.Name != nil {
			name = im.Name.Name
			if name == "_" || name == "." {
				return true
			}
		}
	}
	used := false
	ast.Inspect(f, func(n ast.Node) bool {
		if se, ok := n.(*ast.SelectorExpr); ok {
			if id, ok := se.X.(*ast.Ident); ok && id.Name == name && id.Obj == nil {
				used = true
			}
		}
		return !used
	})
	return used
}

// stripComments drops every comment except build constraints and //go:
// directives: freshly built nodes carry no positions and stray comments would
// otherwise be printed into the middle of them.
func stripComments(f *ast.File) {
	var keep []*ast.CommentGroup
	for _, cg := range f.Comments {
		if cg.End() < f.Package {
			keep = append(keep, cg)
			continue
		}
		for _, c := range cg.List {
			if strings.HasPrefix(c.Text, "//go:") {
				keep = append(keep, cg)
				break
			}
		}
	}
	f.Comments = keep
	ast.Inspect(f, func(n ast.Node) bool {
		switch x := n.(type) {
		case *ast.FuncDecl:
			if x.Doc != nil && !hasDirective(x.Doc) {
				x.Doc = nil
			}
		case *ast.GenDecl:
			if x.Doc != nil && !hasDirective(x.Doc) {
				x.Doc = nil
			}
		case *ast.Field:
			x.Doc, x.Comment = nil, nil
		case *ast.ValueSpec:
			x.Doc, x.Comment = nil, nil
		case *ast.TypeSpec:
			x.Doc, x.Comment = nil, nil
		case *ast.ImportSpec:
			x.Doc, x.Comment = nil, nil
		}
		return true
	})
}

func hasDirective(cg *ast.CommentGroup) bool {
	for _, c := range cg.List {
		if strings.HasPrefix(c.Text, "//go:") {
			return true
		}
	}
	return false
}

type rewriter struct {
	pkg     *packages.Package
	file    *ast.File
	fset    *token.FileSet
	cen     map[string]int
	isMain  bool
	short   string
	changed bool

	fn      string         // current function name
	counter map[string]int // per function, per kind
	tmpN    int
}

func (rw *rewriter) site(kind string) *ast.BasicLit {
	if rw.counter == nil {
		rw.counter = map[string]int{}
	}
	key := rw.fn + "#" + kind
	rw.counter[key]++
	s := fmt.Sprintf("%s.%s#%s%d", rw.short, rw.fn, kind, rw.counter[key])
	return &ast.BasicLit{Kind: token.STRING, Value: strconv.Quote(s)}
}

func sel(name string) ast.Expr {
	return &ast.SelectorExpr{X: ast.NewIdent("simrt"), Sel: ast.NewIdent(name)}
}

func call(name string, args ...ast.Expr) *ast.CallExpr {
	return &ast.CallExpr{Fun: sel(name), Args: args}
}

func (rw *rewriter) pos(n ast.Node) string {
	return rw.fset.Position(n.Pos()).String()
}

func (rw *rewriter) pkgOf(id *ast.Ident) string {
	if obj, ok := rw.pkg.TypesInfo.Uses[id]; ok {
		if pn, ok := obj.(*types.PkgName); ok {
			return pn.Imported().Path()
		}
	}
	return ""
}

func funcName(fd *ast.FuncDecl) string {
	if fd.Recv != nil && len(fd.Recv.List) == 1 {
		t := fd.Recv.List[0].Type
		if st, ok := t.(*ast.StarExpr); ok {
			t = st.X
		}
		if ix, ok := t.(*ast.IndexExpr); ok {
			t = ix.X
		}
		if id, ok := t.(*ast.Ident); ok {
			return id.Name + "." + fd.Name.Name
		}
	}
	return fd.Name.Name
}

var randMap = map[string]string{
	"Intn": "RandIntn", "Int31n": "RandInt31n", "Int63n": "RandInt63n", "Int": "RandInt", "Int63": "RandInt63",
	"Uint32": "RandUint32", "Uint64": "RandUint64", "Float64": "RandFloat64", "Float32": "RandFloat32",
	"Seed": "RandSeed", "Perm": "RandPerm", "Shuffle": "RandShuffle",
	"IntN": "RandIntN", "Int32N": "RandInt32N",
}

var timeMap = map[string]string{"Now": "Now", "Sleep": "Sleep", "Since": "Since"}

func (rw *rewriter) run() {
	skip := map[ast.Node]bool{}
	for _, d := range rw.file.Decls {
		fd, ok := d.(*ast.FuncDecl)
		name := "init"
		if ok {
			name = funcName(fd)
		}
		rw.fn = name
		if !ok {
			// package-level var initialisers may call rand etc.
			rw.rewriteNode(d, skip)
			continue
		}
		if fd.Body == nil {
			continue
		}
		rw.rewriteNode(fd, skip)
	}
}

func (rw *rewriter) sortableKey(t types.Type) bool {
	switch u := t.Underlying().(type) {
	case *types.Basic:
		return u.Info()&(types.IsString|types.IsInteger|types.IsFloat|types.IsBoolean) != 0
	case *types.Struct:
		for i := 0; i < u.NumFields(); i++ {
			if !rw.sortableKey(u.Field(i).Type()) {
				return false
			}
		}
		return true
	case *types.Array:
		return rw.sortableKey(u.Elem())
	case *types.Interface:
		return true // dynamic types are ordered by type name, then value (simrt panics loudly on unorderable kinds)
	}
	return false
}

func (rw *rewriter) rewriteNode(root ast.Node, skip map[ast.Node]bool) {
	info := rw.pkg.TypesInfo
	astutil.Apply(root, func(c *astutil.Cursor) bool {
		n := c.Node()
		if n == nil {
			return true
		}
		if skip[n] {
			return false
		}
		if ss, ok := n.(*ast.SelectStmt); ok {
			for _, cl := range ss.Body.List {
				cc := cl.(*ast.CommClause)
				if cc.Comm != nil {
					skip[cc.Comm] = true
				}
			}
		}
		return true
	}, func(c *astutil.Cursor) bool {
		n := c.Node()
		switch x := n.(type) {
		case *ast.RangeStmt:
			tv, ok := info.Types[x.X]
			if !ok {
				fatal("%s: no type for range expression", rw.pos(x))
			}
			switch u := tv.Type.Underlying().(type) {
			case *types.Map:
				if !rw.sortableKey(u.Key()) {
					fatal("%s: map key type %s has no canonical order", rw.pos(x), u.Key())
				}
				fn := "MapIter"
				if x.Value == nil {
					fn = "MapKeys"
				}
				x.X = call(fn, rw.site("map"), x.X)
				rw.cen["map-range"]++
				rw.changed = true
			case *types.Chan:
				x.X = call("ChanIter", rw.site("chanrange"), x.X)
				rw.cen["chan-range"]++
				rw.changed = true
			}
		case *ast.UnaryExpr:
			if x.Op != token.ARROW {
				break
			}
			fn := "Recv"
			switch p := c.Parent().(type) {
			case *ast.AssignStmt:
				if len(p.Lhs) == 2 && len(p.Rhs) == 1 {
					fn = "Recv2"
				}
			case *ast.ValueSpec:
				if len(p.Names) == 2 && len(p.Values) == 1 {
					fn = "Recv2"
				}
			}
			c.Replace(call(fn, rw.site("recv"), x.X))
			rw.cen["chan-recv"]++
			rw.changed = true
		case *ast.SendStmt:
			lit := &ast.FuncLit{Type: &ast.FuncType{Params: &ast.FieldList{}}, Body: &ast.BlockStmt{List: []ast.Stmt{
				&ast.SendStmt{Chan: x.Chan, Value: x.Value}}}}
			c.Replace(&ast.ExprStmt{X: call("ChanOp", rw.site("send"), &ast.BasicLit{Kind: token.STRING, Value: `"send"`}, lit)})
			rw.cen["chan-send"]++
			rw.changed = true
		case *ast.CallExpr:
			rw.rewriteCall(c, x)
		case *ast.SelectStmt:
			s := rw.site("select")
			for _, cl := range x.Body.List {
				cc := cl.(*ast.CommClause)
				cc.Body = append([]ast.Stmt{&ast.ExprStmt{X: call("PostSelect", s)}}, cc.Body...)
			}
			pre := &ast.ExprStmt{X: call("PreSelect", s)}
			if c.Index() >= 0 {
				c.InsertBefore(pre)
			}
			rw.cen["select"]++
			rw.changed = true
		case *ast.GoStmt:
			rw.rewriteGo(c, x)
		case *ast.SelectorExpr:
			id, ok := x.X.(*ast.Ident)
			if !ok {
				break
			}
			switch rw.pkgOf(id) {
			case "math/rand", "math/rand/v2":
				if to, ok := randMap[x.Sel.Name]; ok {
					c.Replace(sel(to))
					rw.cen["rand"]++
					rw.changed = true
				} else if _, isCall := c.Parent().(*ast.CallExpr); isCall {
					fatal("%s: math/rand.%s has no seam", rw.pos(x), x.Sel.Name)
				}
			case "time":
				if to, ok := timeMap[x.Sel.Name]; ok {
					c.Replace(sel(to))
					rw.cen["time"]++
					rw.changed = true
				} else if x.Sel.Name == "After" || x.Sel.Name == "Tick" || x.Sel.Name == "NewTimer" || x.Sel.Name == "NewTicker" || x.Sel.Name == "AfterFunc" {
					fatal("%s: time.%s has no seam", rw.pos(x), x.Sel.Name)
				}
			case "os":
				if x.Sel.Name == "Exit" {
					c.Replace(sel("Exit"))
					rw.cen["exit"]++
					rw.changed = true
				}
			case "log":
				switch x.Sel.Name {
				case "Fatal", "Fatalf", "Fatalln":
					c.Replace(sel("Log" + x.Sel.Name))
					rw.cen["exit"]++
					rw.changed = true
				}
			case "flag":
				if x.Sel.Name == "Parse" && rw.isMain {
					c.Replace(sel("Nop"))
					rw.cen["flag-parse"]++
					rw.changed = true
				}
			}
		}
		return true
	})
}

func (rw *rewriter) rewriteCall(c *astutil.Cursor, x *ast.CallExpr) {
	if id, ok := x.Fun.(*ast.Ident); ok && id.Name == "close" && len(x.Args) == 1 {
		if _, isBuiltin := rw.pkg.TypesInfo.Uses[id].(*types.Builtin); isBuiltin {
			if _, isStmt := c.Parent().(*ast.ExprStmt); isStmt {
				lit := &ast.FuncLit{Type: &ast.FuncType{Params: &ast.FieldList{}}, Body: &ast.BlockStmt{List: []ast.Stmt{
					&ast.ExprStmt{X: &ast.CallExpr{Fun: ast.NewIdent("close"), Args: x.Args}}}}}
				c.Replace(call("ChanOp", rw.site("close"), &ast.BasicLit{Kind: token.STRING, Value: `"close"`}, lit))
				rw.cen["chan-close"]++
				rw.changed = true
			}
		}
	}
}

func (rw *rewriter) rewriteGo(c *astutil.Cursor, x *ast.GoStmt) {
	info := rw.pkg.TypesInfo
	callee := "func"
	switch f := x.Call.Fun.(type) {
	case *ast.Ident:
		callee = f.Name
	case *ast.SelectorExpr:
		callee = f.Sel.Name
	}
	site := rw.site("go>" + callee)
	var pre []ast.Stmt
	bind := func(e ast.Expr) ast.Expr {
		if tv, ok := info.Types[e]; ok {
			if tv.Value != nil || tv.IsNil() {
				return e
			}
			if tup, ok := tv.Type.(*types.Tuple); ok && tup.Len() > 1 {
				fatal("%s: go statement with multi-value argument", rw.pos(x))
			}
		}
		if _, ok := e.(*ast.FuncLit); ok {
			return e
		}
		if _, ok := e.(*ast.BasicLit); ok {
			return e
		}
		rw.tmpN++
		id := ast.NewIdent("simrtArg" + strconv.Itoa(rw.tmpN))
		pre = append(pre, &ast.AssignStmt{Lhs: []ast.Expr{id}, Tok: token.DEFINE, Rhs: []ast.Expr{e}})
		return ast.NewIdent(id.Name)
	}
	fun := x.Call.Fun
	switch f := fun.(type) {
	case *ast.FuncLit:
	case *ast.Ident:
		// package-level function or local func variable: bind variables, keep functions
		if _, isFunc := info.Uses[f].(*types.Func); !isFunc {
			fun = bind(f)
		}
	case *ast.SelectorExpr:
		if id, ok := f.X.(*ast.Ident); ok && rw.pkgOf(id) != "" {
			// qualified package function
		} else {
			fun = bind(f) // method value: receiver evaluated now
		}
	default:
		fun = bind(f)
	}
	args := make([]ast.Expr, len(x.Call.Args))
	for i, a := range x.Call.Args {
		args[i] = bind(a)
	}
	inner := &ast.CallExpr{Fun: fun, Args: args, Ellipsis: x.Call.Ellipsis}
	if x.Call.Ellipsis == token.NoPos {
		inner.Ellipsis = token.NoPos
	} else {
		inner.Ellipsis = 1
	}
	lit := &ast.FuncLit{Type: &ast.FuncType{Params: &ast.FieldList{}}, Body: &ast.BlockStmt{List: []ast.Stmt{&ast.ExprStmt{X: inner}}}}
	goCall := &ast.ExprStmt{X: call("Go", site, lit)}
	if len(pre) == 0 {
		c.Replace(goCall)
	} else {
		c.Replace(&ast.BlockStmt{List: append(pre, goCall)})
	}
	rw.cen["go"]++
	rw.changed = true
}
