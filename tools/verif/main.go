// verif is the driver of the deterministic-simulation checks (DESIGN.md §2.6):
//
//	verif check <id> --tier quick|thorough   build from /repo's working tree, fan out seeded runs, minimise, report
//	verif replay <file>                      re-execute one recorded run in a fresh process
//
// Exit status: 0 held (possibly with KNOWN-FINDING lines), 1 with a
// "VIOLATION property=<id> replay=<path>" line, 2 for build / instrumentation
// / watchdog trouble (never dressed up as a verdict).
package main

import (
	"bufio"
	"bytes"
	"encoding/json"
	"flag"
	"fmt"
	"hash/fnv"
	"os"
	"os/exec"
	"path/filepath"
	"sort"
	"strconv"
	"strings"
	"sync"
	"sync/atomic"
	"time"
)

var repoDir = "/repo" // --repo overrides (sensitivity experiments on scratch worktrees only)

const (
	verifDir = "/verif"
	workRoot = "/var/tmp/verif-work"
	goRoot   = "/opt/veriftools/go1.26.8"
)

type TierCfg struct {
	Runs     int               `json:"runs"`
	Batch    int               `json:"batch"`     // runs per worker process
	BudgetS  int               `json:"budget_s"`  // per worker: stop starting new runs after this
	TimeoutS int               `json:"timeout_s"` // watchdog per worker process
	Params   map[string]string `json:"params"`
	RaceRuns int               `json:"race_runs"` // >0: additionally run this many runs free-running under the race detector (runtime monitor, params mode=race)
}

type Check struct {
	ID          string   `json:"id"`
	Harness     string   `json:"harness"` // dir under /verif/harness
	Place       string   `json:"place"`   // dir inside the copy where the harness files go (the package that is built)
	Common      []string `json:"common"`  // further dirs under /verif/harness, each copied to verifh/<dir> in the copy
	Level       string   `json:"level"`
	Rule        string   `json:"rule"`
	Assumptions []string `json:"assumptions"`
	Real        []string `json:"real"`
	Stub        []string `json:"stub"`
	SimUnit     string   `json:"sim_unit"` // what simtime counts
	Race        bool     `json:"race"`
	NoSimgen    bool     `json:"no_simgen"`
	Quick       TierCfg  `json:"quick"`
	Thorough    TierCfg  `json:"thorough"`
	MinBudget   int      `json:"min_budget"` // max replays spent minimising one signature
	Prebuild    []string `json:"prebuild"`   // packages of the repository (e.g. ./cmd/basm) built, uninstrumented, into <work>/bin/<name> before the copy is instrumented: harnesses run them as fresh processes
	SoloRuns    int      `json:"solo_runs"`  // runs re-executed alone in a fresh process; their Extra["solo_digest"] must equal what they reported inside their batch
	Also        []string `json:"also"`       // further check configurations (ids in checks.json) that belong to the same property: run after the main one, reported under this id, coverage merged
}

type Violation struct {
	Sig    string `json:"sig"`
	Detail string `json:"detail"`
}

type Outcome struct {
	Violations   []Violation       `json:"violations,omitempty"`
	Nontrivial   bool              `json:"nontrivial"`
	Key          string            `json:"key,omitempty"`
	Sample       json.RawMessage   `json:"sample,omitempty"`
	Counters     map[string]int    `json:"counters,omitempty"`
	Faults       map[string]int    `json:"faults,omitempty"`
	Probes       map[string]int    `json:"probes,omitempty"`
	SimTime      int64             `json:"simtime"`
	Fingerprints []string          `json:"fps,omitempty"`
	Inconclusive string            `json:"inconclusive,omitempty"`
	Trace        []string          `json:"trace,omitempty"`
	Extra        map[string]string `json:"extra,omitempty"`
}

type Record struct {
	Run     uint64              `json:"run"`
	Seed    uint64              `json:"seed"`
	WallUS  int64               `json:"wall_us"`
	Outcome Outcome             `json:"outcome"`
	Tapes   map[string][]uint32 `json:"tapes,omitempty"`
}

type Replay struct {
	Property  string              `json:"property"`
	Seed      uint64              `json:"seed"`
	Run       uint64              `json:"run"`
	Tier      string              `json:"tier"`
	Signature string              `json:"signature"`
	Detail    string              `json:"detail,omitempty"`
	Tapes     map[string][]uint32 `json:"tapes"`
	Original  map[string][]uint32 `json:"original_tapes,omitempty"`
	Trace     []string            `json:"trace,omitempty"`
	Params    map[string]string   `json:"params,omitempty"`
	// BatchFrom >= 0: the violation depends on state left in the process by the preceding runs of its
	// batch (runs BatchFrom..Run executed in one process, in order); replay re-executes that range.
	BatchFrom *uint64 `json:"batch_from,omitempty"`
	// SoloCheck: the violation is a difference between what run Run reports (Outcome.Extra["solo_digest"]) when it
	// executes after runs BatchFrom..Run-1 in one process and when it executes alone in a fresh process.
	SoloCheck bool `json:"solo_check,omitempty"`
}

type Finding struct {
	Property  string `json:"property"`
	Signature string `json:"signature"`
	What      string `json:"what"`
	Replay    string `json:"replay,omitempty"`
}

type KnownFindings struct {
	Findings []Finding `json:"findings"`
	Fixed    []string  `json:"fixed"`
}

func die(code int, format string, a ...any) {
	fmt.Fprintf(os.Stderr, "verif: "+format+"\n", a...)
	os.Exit(code)
}

func goEnv() []string {
	env := []string{}
	for _, e := range os.Environ() {
		if strings.HasPrefix(e, "GOFLAGS=") || strings.HasPrefix(e, "GOPROXY=") || strings.HasPrefix(e, "GOSUMDB=") ||
			strings.HasPrefix(e, "GOTOOLCHAIN=") || strings.HasPrefix(e, "PATH=") || strings.HasPrefix(e, "GOROOT=") {
			continue
		}
		env = append(env, e)
	}
	env = append(env, "GOFLAGS=-mod=mod", "GOPROXY=off", "GOSUMDB=off", "GOTOOLCHAIN=local",
		"PATH="+goRoot+"/bin:"+os.Getenv("PATH"))
	return env
}

func runCmd(dir string, env []string, name string, args ...string) (string, error) {
	cmd := exec.Command(name, args...)
	cmd.Dir = dir
	cmd.Env = env
	var buf bytes.Buffer
	cmd.Stdout, cmd.Stderr = &buf, &buf
	err := cmd.Run()
	return buf.String(), err
}

func loadChecks() map[string]*Check {
	b, err := os.ReadFile(filepath.Join(verifDir, "checks.json"))
	if err != nil {
		die(2, "%v", err)
	}
	var list []*Check
	if err := json.Unmarshal(b, &list); err != nil {
		die(2, "checks.json: %v", err)
	}
	m := map[string]*Check{}
	for _, c := range list {
		m[c.ID] = c
	}
	// per-harness entries: /verif/harness/<dir>/check.json (one Check object)
	more, _ := filepath.Glob(filepath.Join(verifDir, "harness", "*", "check.json"))
	sort.Strings(more)
	for _, f := range more {
		b, err := os.ReadFile(f)
		if err != nil {
			die(2, "%v", err)
		}
		c := new(Check)
		if err := json.Unmarshal(b, c); err != nil {
			die(2, "%s: %v", f, err)
		}
		m[c.ID] = c
	}
	return m
}

func loadKnown() KnownFindings {
	var k KnownFindings
	b, err := os.ReadFile(filepath.Join(verifDir, "known_findings.json"))
	if err == nil {
		if err := json.Unmarshal(b, &k); err != nil {
			die(2, "known_findings.json: %v", err)
		}
	}
	return k
}

// build prepares the work directory: copy of /repo's working tree, simgen,
// harness files, test binary. Returns the binary path and the seam census.
func build(c *Check, work string) (string, json.RawMessage) {
	env := goEnv()
	src := filepath.Join(work, "src")
	os.RemoveAll(work)
	if err := os.MkdirAll(filepath.Join(work, "out"), 0o755); err != nil {
		die(2, "%v", err)
	}
	if out, err := runCmd("/", env, "rsync", "-a", "--delete", "--exclude", ".git", repoDir+"/", src+"/"); err != nil {
		die(2, "copy /repo: %v\n%s", err, out)
	}
	for _, pkg := range c.Prebuild {
		outBin := filepath.Join(work, "bin", filepath.Base(pkg))
		if out, err := runCmd(src, env, goRoot+"/bin/go", "build", "-o", outBin, pkg); err != nil {
			die(2, "building %s from /repo's working tree failed: %v\n%s", pkg, err, out)
		}
	}
	var census json.RawMessage
	if !c.NoSimgen {
		out, err := runCmd(src, env, filepath.Join(verifDir, "bin", "simgen"), "-dir", src, "-census", filepath.Join(work, "census.json"))
		if err != nil {
			die(2, "simgen failed: %v\n%s", err, out)
		}
		census, _ = os.ReadFile(filepath.Join(work, "census.json"))
	} else {
		gm := filepath.Join(src, "go.mod")
		b, _ := os.ReadFile(gm)
		b = append(b, []byte("\nrequire veriflib v0.0.0\n\nreplace veriflib => "+verifDir+"/lib\n")...)
		os.WriteFile(gm, b, 0o644)
	}
	// harness files (stored as *.go.txt so that no tool mistakes /verif/harness for Go packages)
	copyHarness := func(from, to string) {
		hdir := filepath.Join(verifDir, "harness", from)
		place := filepath.Join(src, to)
		os.MkdirAll(place, 0o755)
		ents, err := os.ReadDir(hdir)
		if err != nil {
			die(2, "harness: %v", err)
		}
		for _, e := range ents {
			if e.IsDir() || !strings.HasSuffix(e.Name(), ".txt") {
				continue
			}
			name := e.Name()
			b, _ := os.ReadFile(filepath.Join(hdir, name))
			name = strings.TrimSuffix(name, ".txt")
			if err := os.WriteFile(filepath.Join(place, "zz_verif_"+name), b, 0o644); err != nil {
				die(2, "%v", err)
			}
		}
	}
	for _, cdir := range c.Common {
		copyHarness(cdir, filepath.Join("verifh", cdir))
	}
	copyHarness(c.Harness, c.Place)
	bin := filepath.Join(work, "harness.test")
	args := []string{"test", "-c", "-trimpath", "-vet=off", "-tags", "verif", "-o", bin}
	if c.Race {
		args = append(args, "-race")
	}
	args = append(args, "./"+c.Place)
	out, err := runCmd(src, env, goRoot+"/bin/go", args...)
	if err != nil {
		die(2, "building the harness for %s against /repo's working tree failed: %v\n%s", c.ID, err, out)
	}
	return bin, census
}

type workerResult struct {
	recs    []Record
	err     error
	log     string
	timeout bool
}

func runWorker(bin, work string, c *Check, tier string, tc TierCfg, seed uint64, lo, hi uint64, k int) workerResult {
	outFile := filepath.Join(work, "out", fmt.Sprintf("batch-%d.jsonl", k))
	logFile := filepath.Join(work, "out", fmt.Sprintf("batch-%d.log", k))
	params, _ := json.Marshal(tc.Params)
	to := tc.TimeoutS
	if to == 0 {
		to = 600
	}
	cmd := exec.Command(bin, "-test.run", "^TestVerif$", "-test.timeout", strconv.Itoa(to+30)+"s", "-test.count", "1")
	cmd.Dir = filepath.Dir(bin)
	cmd.Env = append(os.Environ(),
		"VERIF_SEED="+strconv.FormatUint(seed, 10),
		"VERIF_RUN_LO="+strconv.FormatUint(lo, 10),
		"VERIF_RUN_HI="+strconv.FormatUint(hi, 10),
		"VERIF_OUT="+outFile, "VERIF_TIER="+tier, "VERIF_PARAMS="+string(params),
		"VERIF_BUDGET_S="+strconv.Itoa(tc.BudgetS),
		"GOMAXPROCS=2", "GOMEMLIMIT=3GiB", "VERIF_REPLAY=")
	lf, _ := os.Create(logFile)
	defer lf.Close()
	cmd.Stdout, cmd.Stderr = lf, lf
	if err := cmd.Start(); err != nil {
		return workerResult{err: err}
	}
	done := make(chan error, 1)
	go func() { done <- cmd.Wait() }()
	var werr error
	timedOut := false
	select {
	case werr = <-done:
	case <-time.After(time.Duration(to) * time.Second):
		cmd.Process.Kill()
		<-done
		timedOut = true
	}
	recs, rerr := readRecords(outFile)
	res := workerResult{recs: recs, timeout: timedOut}
	if timedOut {
		res.err = fmt.Errorf("worker %d (runs %d..%d) exceeded %ds", k, lo, hi, to)
	} else if werr != nil {
		res.err = fmt.Errorf("worker %d (runs %d..%d): %v", k, lo, hi, werr)
	} else if rerr != nil {
		res.err = rerr
	}
	if res.err != nil {
		b, _ := os.ReadFile(logFile)
		if len(b) > 9000 {
			// the first lines name the failure (panic / fatal error), the last ones where the others stood
			b = append(append(append([]byte{}, b[:3000]...), []byte("\n[...]\n")...), b[len(b)-6000:]...)
		}
		res.log = string(b)
		// keep the whole log of a crashed worker for diagnosis
		os.WriteFile(filepath.Join(os.TempDir(), fmt.Sprintf("verif-worker-%s-%d.log", c.ID, k)), mustRead(logFile), 0o644)
	}
	os.Remove(logFile)
	return res
}

var workerRetries int32

func mustRead(path string) []byte {
	b, _ := os.ReadFile(path)
	return b
}

func readRecords(path string) ([]Record, error) {
	f, err := os.Open(path)
	if err != nil {
		return nil, err
	}
	defer f.Close()
	var recs []Record
	sc := bufio.NewScanner(f)
	sc.Buffer(make([]byte, 1<<20), 1<<28)
	for sc.Scan() {
		var r Record
		if err := json.Unmarshal(sc.Bytes(), &r); err != nil {
			return recs, fmt.Errorf("%s: %v", path, err)
		}
		recs = append(recs, r)
	}
	return recs, sc.Err()
}

// replayOnce runs one replay file in a fresh process and returns the record.
func replayOnce(bin string, rp *Replay, tmp string, timeoutS int) (*Record, error) {
	b, _ := json.Marshal(rp)
	rf := tmp + ".replay.json"
	of := tmp + ".out.jsonl"
	os.WriteFile(rf, b, 0o644)
	defer os.Remove(rf)
	defer os.Remove(of)
	cmd := exec.Command(bin, "-test.run", "^TestVerif$", "-test.timeout", strconv.Itoa(timeoutS+30)+"s", "-test.count", "1")
	cmd.Dir = filepath.Dir(bin)
	cmd.Env = append(os.Environ(), "VERIF_REPLAY="+rf, "VERIF_OUT="+of, "GOMAXPROCS=2")
	var buf bytes.Buffer
	cmd.Stdout, cmd.Stderr = &buf, &buf
	if err := cmd.Start(); err != nil {
		return nil, err
	}
	done := make(chan error, 1)
	go func() { done <- cmd.Wait() }()
	select {
	case err := <-done:
		if err != nil {
			s := buf.String()
			if len(s) > 3000 {
				s = s[len(s)-3000:]
			}
			return nil, fmt.Errorf("replay process: %v\n%s", err, s)
		}
	case <-time.After(time.Duration(timeoutS) * time.Second):
		cmd.Process.Kill()
		<-done
		return nil, fmt.Errorf("replay timed out")
	}
	recs, err := readRecords(of)
	if err != nil || len(recs) != 1 {
		return nil, fmt.Errorf("replay produced %d records (%v)", len(recs), err)
	}
	return &recs[0], nil
}

// replayRange re-executes runs lo..hi (inclusive) of a seed in one fresh process and returns the record of run hi.
func replayRange(bin string, seed, lo, hi uint64, tier string, params map[string]string, tmp string, timeoutS int) (*Record, error) {
	of := tmp + ".range.jsonl"
	defer os.Remove(of)
	pj, _ := json.Marshal(params)
	cmd := exec.Command(bin, "-test.run", "^TestVerif$", "-test.timeout", strconv.Itoa(timeoutS+30)+"s", "-test.count", "1")
	cmd.Dir = filepath.Dir(bin)
	cmd.Env = append(os.Environ(), "VERIF_SEED="+strconv.FormatUint(seed, 10), "VERIF_RUN_LO="+strconv.FormatUint(lo, 10), "VERIF_RUN_HI="+strconv.FormatUint(hi+1, 10),
		"VERIF_OUT="+of, "VERIF_TIER="+tier, "VERIF_PARAMS="+string(pj), "GOMAXPROCS=2", "VERIF_REPLAY=", "VERIF_BUDGET_S=0")
	var buf bytes.Buffer
	cmd.Stdout, cmd.Stderr = &buf, &buf
	if err := cmd.Start(); err != nil {
		return nil, err
	}
	done := make(chan error, 1)
	go func() { done <- cmd.Wait() }()
	select {
	case err := <-done:
		if err != nil {
			return nil, fmt.Errorf("range replay process: %v", err)
		}
	case <-time.After(time.Duration(timeoutS) * time.Second):
		cmd.Process.Kill()
		<-done
		return nil, fmt.Errorf("range replay timed out")
	}
	recs, err := readRecords(of)
	if err != nil || len(recs) == 0 {
		return nil, fmt.Errorf("range replay produced %d records (%v)", len(recs), err)
	}
	last := recs[len(recs)-1]
	if last.Run != hi {
		return nil, fmt.Errorf("range replay ended at run %d, expected %d", last.Run, hi)
	}
	return &last, nil
}

func hasSig(r *Record, sig string) (bool, string, []string) {
	for _, v := range r.Outcome.Violations {
		if v.Sig == sig {
			return true, v.Detail, r.Outcome.Trace
		}
	}
	return false, "", nil
}

func cloneTapes(t map[string][]uint32) map[string][]uint32 {
	o := map[string][]uint32{}
	for k, v := range t {
		o[k] = append([]uint32(nil), v...)
	}
	return o
}

func tapeSize(t map[string][]uint32) (n, nz int) {
	for _, v := range t {
		n += len(v)
		for _, x := range v {
			if x != 0 {
				nz++
			}
		}
	}
	return
}

// minimise shrinks the tapes while the same signature persists.
func minimise(bin string, base Replay, tmp string, budget int, deadline time.Time) (Replay, int) {
	tests := 0
	cur := cloneTapes(base.Tapes)
	try := func(cand map[string][]uint32) bool {
		if tests >= budget || time.Now().After(deadline) {
			return false
		}
		tests++
		rp := base
		rp.Tapes = cand
		rec, err := replayOnce(bin, &rp, tmp, 60)
		if err != nil {
			return false
		}
		ok, _, _ := hasSig(rec, base.Signature)
		return ok
	}
	names := make([]string, 0, len(cur))
	for k := range cur {
		names = append(names, k)
	}
	sort.Strings(names)
	// 1. drop whole streams (schedule-like streams first: they are the most likely to be irrelevant)
	for _, n := range names {
		if len(cur[n]) == 0 {
			continue
		}
		cand := cloneTapes(cur)
		cand[n] = nil
		if try(cand) {
			cur = cand
		}
	}
	// 2. shortest failing prefix per stream
	for _, n := range names {
		lo, hi := 0, len(cur[n])
		for lo < hi && tests < budget {
			mid := (lo + hi) / 2
			cand := cloneTapes(cur)
			cand[n] = cand[n][:mid]
			if try(cand) {
				hi = mid
				cur = cand
			} else {
				lo = mid + 1
			}
		}
	}
	// 3. zero chunks
	for _, n := range names {
		for size := len(cur[n]) / 2; size >= 1 && tests < budget; size /= 2 {
			for off := 0; off < len(cur[n]) && tests < budget; off += size {
				end := off + size
				if end > len(cur[n]) {
					end = len(cur[n])
				}
				any := false
				for _, x := range cur[n][off:end] {
					if x != 0 {
						any = true
					}
				}
				if !any {
					continue
				}
				cand := cloneTapes(cur)
				for i := off; i < end; i++ {
					cand[n][i] = 0
				}
				if try(cand) {
					cur = cand
				}
			}
		}
	}
	// 4. halve remaining values
	for _, n := range names {
		for i := 0; i < len(cur[n]) && tests < budget; i++ {
			for cur[n][i] > 1 && tests < budget {
				cand := cloneTapes(cur)
				cand[n][i] = cur[n][i] / 2
				if try(cand) {
					cur = cand
				} else {
					break
				}
			}
		}
	}
	// trim trailing zeros (equivalent: exhausted tape yields 0)
	for _, n := range names {
		v := cur[n]
		for len(v) > 0 && v[len(v)-1] == 0 {
			v = v[:len(v)-1]
		}
		cur[n] = v
	}
	out := base
	out.Tapes = cur
	return out, tests
}

func sigHash(s string) string {
	h := fnv.New32a()
	h.Write([]byte(s))
	return fmt.Sprintf("%08x", h.Sum32())
}

func main() {
	if len(os.Args) < 2 {
		die(2, "usage: verif check <id> --tier quick|thorough | verif replay <file>")
	}
	switch os.Args[1] {
	case "check":
		os.Exit(cmdCheck(os.Args[2:]))
	case "replay":
		os.Exit(cmdReplay(os.Args[2:]))
	default:
		die(2, "unknown command %s", os.Args[1])
	}
}

func cmdReplay(args []string) int {
	fs := flag.NewFlagSet("replay", flag.ExitOnError)
	keep := fs.Bool("keep", false, "keep the work directory")
	fs.Parse(args)
	if fs.NArg() != 1 {
		die(2, "usage: verif replay <file>")
	}
	b, err := os.ReadFile(fs.Arg(0))
	if err != nil {
		die(2, "%v", err)
	}
	var rp Replay
	if err := json.Unmarshal(b, &rp); err != nil {
		die(2, "%v", err)
	}
	checks := loadChecks()
	c := checks[rp.Property]
	if c == nil {
		die(2, "unknown property %s", rp.Property)
	}
	work := filepath.Join(workRoot, c.ID+"-replay")
	bin, _ := build(c, work)
	if !*keep {
		defer os.RemoveAll(work)
	}
	var rec *Record
	if rp.SoloCheck && rp.BatchFrom != nil {
		inBatch, err1 := replayRange(bin, rp.Seed, *rp.BatchFrom, rp.Run, rp.Tier, rp.Params, filepath.Join(work, "rp"), 900)
		alone, err2 := replayRange(bin, rp.Seed, rp.Run, rp.Run, rp.Tier, rp.Params, filepath.Join(work, "rp"), 900)
		if err1 != nil || err2 != nil {
			fmt.Fprintf(os.Stderr, "verif: %v %v\n", err1, err2)
			os.RemoveAll(work)
			return 2
		}
		a, b := inBatch.Outcome.Extra["solo_digest"], alone.Outcome.Extra["solo_digest"]
		if a != b {
			fmt.Printf("REPRODUCED property=%s signature=%s\nrun %d after runs %d..%d in one process: %s\nrun %d alone in a fresh process: %s\n%s\n%s\n", rp.Property, rp.Signature,
				rp.Run, *rp.BatchFrom, rp.Run-1, a, rp.Run, b, inBatch.Outcome.Extra["solo_text"], alone.Outcome.Extra["solo_text"])
			return 1
		}
		fmt.Printf("NOT-REPRODUCED property=%s signature=%s (digest %s both ways)\n", rp.Property, rp.Signature, a)
		return 0
	}
	if rp.BatchFrom != nil {
		rec, err = replayRange(bin, rp.Seed, *rp.BatchFrom, rp.Run, rp.Tier, rp.Params, filepath.Join(work, "rp"), 900)
	} else {
		rec, err = replayOnce(bin, &rp, filepath.Join(work, "rp"), 300)
	}
	if err != nil {
		fmt.Fprintf(os.Stderr, "verif: %v\n", err)
		os.RemoveAll(work)
		return 2
	}
	ok, detail, trace := hasSig(rec, rp.Signature)
	for _, l := range trace {
		fmt.Println("  " + l)
	}
	if ok {
		fmt.Printf("REPRODUCED property=%s signature=%s\n%s\n", rp.Property, rp.Signature, detail)
		return 1
	}
	fmt.Printf("NOT-REPRODUCED property=%s signature=%s (violations now: %d)\n", rp.Property, rp.Signature, len(rec.Outcome.Violations))
	for _, v := range rec.Outcome.Violations {
		fmt.Printf("  other: %s\n", v.Sig)
	}
	return 0
}

func cmdCheck(args []string) int {
	if len(args) < 1 {
		die(2, "usage: verif check <id> --tier quick|thorough")
	}
	id := args[0]
	fs := flag.NewFlagSet("check", flag.ExitOnError)
	tier := fs.String("tier", "quick", "quick | thorough")
	seedF := fs.Uint64("seed", 0, "seed (default: VERIF_SEED or 1)")
	runsF := fs.Int("runs", 0, "override the number of runs")
	keep := fs.Bool("keep", false, "keep the work directory")
	noEvidence := fs.Bool("no-evidence", false, "do not write the evidence file")
	workers := fs.Int("workers", 16, "worker processes")
	reportAs := fs.String("report-as", "", "internal: report violations and findings under this property id")
	covOut := fs.String("cov-out", "", "internal: write the coverage object to this file")
	sigF := fs.String("sig", "", "experiments: only minimise/report new signatures containing this substring")
	paramF := fs.String("param", "", "extra harness parameters k=v[,k=v] (experiments; implies --no-evidence)")
	repoF := fs.String("repo", "", "build from this tree instead of /repo (scratch worktrees for sensitivity experiments; implies --no-evidence and a separate work dir)")
	fs.Parse(args[1:])
	workTag := ""
	if t := os.Getenv("VERIF_WORKTAG"); t != "" {
		workTag = "-" + t // separate work directory for runs that go on in the background
	}
	if *repoF != "" {
		repoDir = *repoF
		*noEvidence = true
		workTag += "-alt" + sigHash(*repoF)
	}
	if t := os.Getenv("VERIF_TIER"); t != "" && !flagSet(fs, "tier") {
		*tier = t
	}
	seed := *seedF
	if seed == 0 {
		seed = 1
		if s := os.Getenv("VERIF_SEED"); s != "" {
			if n, err := strconv.ParseUint(s, 10, 64); err == nil {
				seed = n
			} else if n, err := strconv.ParseInt(s, 10, 64); err == nil {
				seed = uint64(n)
			}
		}
	}
	checks := loadChecks()
	c := checks[id]
	if c == nil {
		die(2, "unknown property %s", id)
	}
	tc := c.Quick
	if *tier == "thorough" {
		tc = c.Thorough
	}
	if *runsF > 0 {
		tc.Runs = *runsF
	}
	if *paramF != "" {
		np := map[string]string{}
		for k, v := range tc.Params {
			np[k] = v
		}
		for _, kv := range strings.Split(*paramF, ",") {
			if i := strings.IndexByte(kv, '='); i > 0 {
				np[kv[:i]] = kv[i+1:]
			}
		}
		tc.Params = np
		*noEvidence = true
		workTag += "-p" + sigHash(*paramF)
	}
	if tc.Batch == 0 {
		tc.Batch = (tc.Runs + *workers - 1) / *workers
	}
	known := loadKnown()
	repID := id
	if *reportAs != "" {
		repID = *reportAs
		*noEvidence = true
	}
	t0 := time.Now()
	work := filepath.Join(workRoot, id+"-"+*tier+workTag)
	bin, census := build(c, work)
	if !*keep {
		defer os.RemoveAll(work)
	}
	buildS := time.Since(t0).Seconds()

	// fan out
	type job struct {
		k      int
		lo, hi uint64
	}
	var jobs []job
	for lo, k := 0, 0; lo < tc.Runs; lo, k = lo+tc.Batch, k+1 {
		hi := lo + tc.Batch
		if hi > tc.Runs {
			hi = tc.Runs
		}
		jobs = append(jobs, job{k, uint64(lo), uint64(hi)})
	}
	results := make([]workerResult, len(jobs))
	var wg sync.WaitGroup
	sem := make(chan struct{}, *workers)
	tRun := time.Now()
	for i, j := range jobs {
		wg.Add(1)
		sem <- struct{}{}
		go func(i int, j job) {
			defer wg.Done()
			defer func() { <-sem }()
			results[i] = runWorker(bin, work, c, *tier, tc, seed, j.lo, j.hi, j.k)
			if results[i].err != nil && !results[i].timeout {
				// a worker process that died is no verdict; a batch is a pure function of its seeds, so it is
				// executed once more (a failure caused by the code under test repeats and ends the check with exit 2)
				fmt.Fprintf(os.Stderr, "verif: %v — batch executed again\n", results[i].err)
				atomic.AddInt32(&workerRetries, 1)
				results[i] = runWorker(bin, work, c, *tier, tc, seed, j.lo, j.hi, j.k)
			}
		}(i, j)
	}
	wg.Wait()
	runS := time.Since(tRun).Seconds()
	var recs []Record
	for _, r := range results {
		if r.err != nil {
			fmt.Fprintf(os.Stderr, "verif: %v\n%s\n", r.err, r.log)
			os.RemoveAll(work)
			return 2
		}
		recs = append(recs, r.recs...)
	}
	sort.Slice(recs, func(i, j int) bool { return recs[i].Run < recs[j].Run })
	if len(recs) == 0 {
		fmt.Fprintf(os.Stderr, "verif: no runs executed\n")
		os.RemoveAll(work)
		return 2
	}

	// aggregate
	keys := map[string]bool{}
	fps := map[string]bool{}
	counters, faults, probes := map[string]int{}, map[string]int{}, map[string]int{}
	var simTime int64
	inconcl := map[string]int{}
	var samples []json.RawMessage
	bySig := map[string][]*Record{}
	var sigOrder []string
	for i := range recs {
		r := &recs[i]
		o := &r.Outcome
		if o.Nontrivial && o.Key != "" {
			keys[o.Key] = true
		}
		for _, f := range o.Fingerprints {
			fps[f] = true
		}
		for k, v := range o.Counters {
			counters[k] += v
		}
		for k, v := range o.Faults {
			faults[k] += v
		}
		for k, v := range o.Probes {
			probes[k] += v
		}
		simTime += o.SimTime
		if o.Inconclusive != "" {
			inconcl[o.Inconclusive]++
		}
		if len(o.Sample) > 0 && string(o.Sample) != "null" && len(samples) < 4 {
			samples = append(samples, o.Sample)
		}
		seen := map[string]bool{}
		for _, v := range o.Violations {
			if seen[v.Sig] {
				continue
			}
			seen[v.Sig] = true
			if _, ok := bySig[v.Sig]; !ok {
				sigOrder = append(sigOrder, v.Sig)
			}
			bySig[v.Sig] = append(bySig[v.Sig], r)
		}
	}
	sort.Strings(sigOrder)

	knownSig := map[string]Finding{}
	for _, f := range known.Findings {
		if f.Property == repID {
			knownSig[f.Signature] = f
		}
	}
	exit := 0
	knownHit := map[string]int{}
	nViol := 0
	var newSigs []string
	for _, sig := range sigOrder {
		if f, ok := knownSig[sig]; ok {
			knownHit[sig] = len(bySig[sig])
			fmt.Printf("KNOWN-FINDING: property=%s %s — %s (seen in %d of %d runs)\n", repID, sig, f.What, len(bySig[sig]), len(recs))
			continue
		}
		if *sigF != "" && !strings.Contains(sig, *sigF) {
			continue
		}
		newSigs = append(newSigs, sig)
	}
	minBudget := c.MinBudget
	if minBudget == 0 {
		minBudget = 120
	}
	os.MkdirAll(filepath.Join(verifDir, "replays"), 0o755)
	for i, sig := range newSigs {
		nViol += len(bySig[sig])
		if i >= 5 {
			fmt.Printf("(further new signature not minimised: %s, %d runs)\n", sig, len(bySig[sig]))
			continue
		}
		// pick the run with the smallest tape
		best := bySig[sig][0]
		bn, _ := tapeSize(best.Tapes)
		for _, r := range bySig[sig] {
			if n, _ := tapeSize(r.Tapes); n < bn {
				best, bn = r, n
			}
		}
		_, detail, trace := hasSig(best, sig)
		base := Replay{Property: id, Seed: best.Seed, Run: best.Run, Tier: *tier, Signature: sig, Detail: detail,
			Tapes: best.Tapes, Params: tc.Params, Trace: trace}
		tmp := filepath.Join(work, "min-"+sigHash(sig))
		// the recorded run must reproduce in a fresh process before anything is reported
		rec, err := replayOnce(bin, &base, tmp, 300)
		if err != nil {
			fmt.Fprintf(os.Stderr, "verif: replay of run %d failed: %v\n", best.Run, err)
			os.RemoveAll(work)
			return 2
		}
		if ok, _, _ := hasSig(rec, sig); !ok {
			// not reproducible from its tape alone: does it depend on what the preceding runs of its batch left behind
			// in the process (state shared between executions is itself what some properties forbid)?
			lo := (best.Run / uint64(tc.Batch)) * uint64(tc.Batch)
			rrec, rerr := replayRange(bin, best.Seed, lo, best.Run, *tier, tc.Params, tmp, 900)
			if rerr == nil {
				if ok2, d2, tr2 := hasSig(rrec, sig); ok2 {
					base.BatchFrom = &lo
					base.Detail, base.Trace = d2, tr2
					path := filepath.Join(verifDir, "replays", fmt.Sprintf("%s-%d-%d-%s.json", id, best.Seed, best.Run, sigHash(sig)))
					b, _ := json.MarshalIndent(base, "", " ")
					os.WriteFile(path, b, 0o644)
					fmt.Printf("violation: %s\n  %s\n  seen in %d of %d runs; reproduces only after runs %d..%d executed in the same process (state carried from one execution to the next); not minimised\n",
						sig, firstLines(base.Detail, 12), len(bySig[sig]), len(recs), lo, best.Run-1)
					fmt.Printf("VIOLATION property=%s replay=%s\n", repID, path)
					exit = 1
					continue
				}
			}
			fmt.Fprintf(os.Stderr, "verif: run %d reported %q but neither its replay nor the replay of its batch prefix does (harness nondeterminism) — no verdict\n", best.Run, sig)
			os.RemoveAll(work)
			return 2
		}
		min, tests := minimise(bin, base, tmp, minBudget, time.Now().Add(4*time.Minute))
		// final confirmation of the minimised tape, keep its trace
		rec, err = replayOnce(bin, &min, tmp, 300)
		if err != nil {
			min = base
		} else if ok, d, tr := hasSig(rec, sig); ok {
			min.Detail, min.Trace = d, tr
		} else {
			min = base
		}
		min.Original = best.Tapes
		n0, _ := tapeSize(best.Tapes)
		n1, nz1 := tapeSize(min.Tapes)
		path := filepath.Join(verifDir, "replays", fmt.Sprintf("%s-%d-%d-%s.json", id, best.Seed, best.Run, sigHash(sig)))
		b, _ := json.MarshalIndent(min, "", " ")
		os.WriteFile(path, b, 0o644)
		fmt.Printf("violation: %s\n  %s\n  seen in %d of %d runs; minimised tape %d -> %d entries (%d non-zero) in %d replays\n",
			sig, firstLines(min.Detail, 12), len(bySig[sig]), len(recs), n0, n1, nz1, tests)
		fmt.Printf("VIOLATION property=%s replay=%s\n", repID, path)
		exit = 1
	}

	if n := atomic.LoadInt32(&workerRetries); n > 0 {
		counters["worker-batches-executed-again-after-a-process-failure"] += int(n)
	}
	// history independence: what a run reports must not depend on the runs executed before it in the same process
	soloChecked, soloDiffer := 0, 0
	if c.SoloRuns > 0 {
		soloSig := id + "/result-depends-on-earlier-runs-in-the-process"
		var cand []*Record
		for bi := len(jobs) - 1; bi >= 0 && len(cand) < c.SoloRuns; bi-- {
			// the last clean run of each batch has the longest history behind it
			for i := len(recs) - 1; i >= 0; i-- {
				r := &recs[i]
				if r.Run >= jobs[bi].lo+1 && r.Run < jobs[bi].hi && len(r.Outcome.Violations) == 0 && r.Outcome.Extra["solo_digest"] != "" {
					cand = append(cand, r)
					break
				}
			}
		}
		type soloRes struct {
			rec *Record
			err error
		}
		sres := make([]soloRes, len(cand))
		var swg sync.WaitGroup
		for i, r := range cand {
			swg.Add(1)
			go func(i int, r *Record) {
				defer swg.Done()
				rec, err := replayRange(bin, r.Seed, r.Run, r.Run, *tier, tc.Params, filepath.Join(work, fmt.Sprintf("solo-%d", i)), 900)
				sres[i] = soloRes{rec, err}
			}(i, r)
		}
		swg.Wait()
		reported := false
		for i, r := range cand {
			if sres[i].err != nil {
				fmt.Fprintf(os.Stderr, "verif: solo re-run of run %d failed: %v\n", r.Run, sres[i].err)
				os.RemoveAll(work)
				return 2
			}
			soloChecked++
			a, b := r.Outcome.Extra["solo_digest"], sres[i].rec.Outcome.Extra["solo_digest"]
			if a == b {
				continue
			}
			soloDiffer++
			if reported {
				continue
			}
			// confirm once more both ways (a harness that is not a function of its tapes must not become a verdict)
			lo := (r.Run / uint64(tc.Batch)) * uint64(tc.Batch)
			again, err1 := replayRange(bin, r.Seed, lo, r.Run, *tier, tc.Params, filepath.Join(work, "solo-confirm"), 900)
			alone2, err2 := replayRange(bin, r.Seed, r.Run, r.Run, *tier, tc.Params, filepath.Join(work, "solo-confirm"), 900)
			if err1 != nil || err2 != nil || again.Outcome.Extra["solo_digest"] != a || alone2.Outcome.Extra["solo_digest"] != b {
				fmt.Fprintf(os.Stderr, "verif: run %d: digest in batch %q vs alone %q did not repeat (harness nondeterminism) — no verdict\n", r.Run, a, b)
				os.RemoveAll(work)
				return 2
			}
			reported = true
			if f, ok := knownSig[soloSig]; ok {
				knownHit[soloSig]++
				fmt.Printf("KNOWN-FINDING: property=%s %s — %s\n", repID, soloSig, f.What)
				continue
			}
			detail := fmt.Sprintf("run %d reports %s when it executes after runs %d..%d in one process and %s when it executes alone in a fresh process: an earlier simulation left state behind that changes a later one\n--- in the batch\n%s\n--- alone\n%s",
				r.Run, a, lo, r.Run-1, b, r.Outcome.Extra["solo_text"], sres[i].rec.Outcome.Extra["solo_text"])
			base := Replay{Property: id, Seed: r.Seed, Run: r.Run, Tier: *tier, Signature: soloSig, Detail: detail, Tapes: r.Tapes, Params: tc.Params, BatchFrom: &lo, SoloCheck: true}
			path := filepath.Join(verifDir, "replays", fmt.Sprintf("%s-%d-%d-%s.json", id, r.Seed, r.Run, sigHash(soloSig)))
			b2, _ := json.MarshalIndent(base, "", " ")
			os.WriteFile(path, b2, 0o644)
			fmt.Printf("violation: %s\n  %s\n", soloSig, firstLines(detail, 14))
			fmt.Printf("VIOLATION property=%s replay=%s\n", repID, path)
			newSigs = append(newSigs, soloSig)
			nViol++
			exit = 1
		}
		counters["solo-reruns"] += soloChecked
		counters["solo-reruns-differing"] += soloDiffer
	}

	// further configurations of the same property
	alsoCov := map[string]any{}
	for _, aid := range c.Also {
		covFile := filepath.Join(work, "out", "also-"+aid+".json")
		args := []string{"check", aid, "--tier", *tier, "--seed", strconv.FormatUint(seed, 10), "--report-as", repID, "--cov-out", covFile, "--workers", strconv.Itoa(*workers)}
		if *repoF != "" {
			args = append(args, "--repo", *repoF)
		}
		cmd := exec.Command(os.Args[0], args...)
		cmd.Stdout, cmd.Stderr = os.Stdout, os.Stderr
		err := cmd.Run()
		rc := 0
		if err != nil {
			rc = 2
			if ee, ok := err.(*exec.ExitError); ok {
				rc = ee.ExitCode()
			}
		}
		if rc == 2 || rc > 2 {
			os.RemoveAll(work)
			return 2
		}
		if rc == 1 {
			exit = 1
			nViol++
		}
		if b, err := os.ReadFile(covFile); err == nil {
			var m map[string]any
			if json.Unmarshal(b, &m) == nil {
				alsoCov[aid] = m
			}
		}
	}

	// race monitor (a runtime monitor, not a simulation: free-running goroutines under the race detector)
	raceInfo := map[string]any{}
	if tc.RaceRuns > 0 {
		tR := time.Now()
		rbin := filepath.Join(work, "race.test")
		out, err := runCmd(filepath.Join(work, "src"), goEnv(), goRoot+"/bin/go", "test", "-c", "-race", "-trimpath", "-vet=off", "-tags", "verif", "-o", rbin, "./"+c.Place)
		if err != nil {
			fmt.Fprintf(os.Stderr, "verif: building the race monitor failed: %v\n%s\n", err, out)
			os.RemoveAll(work)
			return 2
		}
		logFile := filepath.Join(work, "out", "race.log")
		cmd := exec.Command(rbin, "-test.run", "^TestVerif$", "-test.timeout", "1500s", "-test.count", "1")
		cmd.Dir = work
		cmd.Env = append(os.Environ(), "VERIF_SEED="+strconv.FormatUint(seed, 10), "VERIF_RUN_LO=0", "VERIF_RUN_HI="+strconv.Itoa(tc.RaceRuns),
			"VERIF_OUT="+filepath.Join(work, "out", "race.jsonl"), "VERIF_TIER="+*tier, `VERIF_PARAMS={"mode":"race"}`, "GOMAXPROCS=8", "GORACE=halt_on_error=0", "VERIF_REPLAY=")
		lf, _ := os.Create(logFile)
		cmd.Stdout, cmd.Stderr = lf, lf
		rerr := cmd.Run()
		lf.Close()
		lb, _ := os.ReadFile(logFile)
		rrecs, _ := readRecords(filepath.Join(work, "out", "race.jsonl"))
		raceInfo["runs"] = len(rrecs)
		raceInfo["wall_s"] = time.Since(tR).Seconds()
		raceInfo["kind"] = "runtime monitor: free-running goroutines under the Go race detector, GOMAXPROCS=8"
		if i := bytes.Index(lb, []byte("WARNING: DATA RACE")); i >= 0 {
			rep := lb[i:]
			if j := bytes.Index(rep[20:], []byte("==================")); j >= 0 {
				rep = rep[:20+j]
			}
			sig := id + "/data-race/" + raceSig(string(rep))
			if _, ok := knownSig[sig]; ok {
				fmt.Printf("KNOWN-FINDING: property=%s %s — %s\n", id, sig, knownSig[sig].What)
			} else {
				path := filepath.Join(verifDir, "replays", fmt.Sprintf("%s-%d-race-%s.json", id, seed, sigHash(sig)))
				b, _ := json.MarshalIndent(map[string]any{"property": id, "seed": seed, "signature": sig, "tier": *tier, "params": map[string]string{"mode": "race"},
					"note": "reported by the race detector in a free-running execution: re-run the same seed under -race; a data race is not a deterministic replay", "detail": string(rep)}, "", " ")
				os.WriteFile(path, b, 0o644)
				fmt.Printf("violation: %s\n  %s\n", sig, firstLines(string(rep), 30))
				fmt.Printf("VIOLATION property=%s replay=%s\n", id, path)
				exit = 1
				nViol++
			}
			raceInfo["races"] = bytes.Count(lb, []byte("WARNING: DATA RACE"))
		} else if rerr != nil {
			t := lb
			if len(t) > 3000 {
				t = t[len(t)-3000:]
			}
			fmt.Fprintf(os.Stderr, "verif: race monitor process failed: %v\n%s\n", rerr, t)
			os.RemoveAll(work)
			return 2
		} else {
			raceInfo["races"] = 0
		}
	}

	wall := time.Since(t0).Seconds()
	// evidence
	{
		cov := map[string]any{
			"evaluations":            len(recs),
			"distinct_nontrivial":    len(keys),
			"rule":                   c.Rule,
			"samples":                samples,
			"simulated_runs":         len(recs),
			"runs_per_hour":          int(float64(len(recs)) / runS * 3600),
			"simulated_time":         simTime,
			"simulated_time_unit":    c.SimUnit,
			"faults_fired":           faults,
			"probes":                 probes,
			"distinct_interleavings": len(fps),
			"counters":               counters,
			"inconclusive":           inconcl,
			"known_findings_hit":     knownHit,
			"new_signatures":         newSigs,
			"components_real":        c.Real,
			"components_stub":        c.Stub,
			"build_s":                buildS,
			"run_s":                  runS,
			"workers":                *workers,
			"seeds":                  []uint64{seed},
			"exhaustive":             false,
		}
		if len(raceInfo) > 0 {
			cov["race_monitor"] = raceInfo
		}
		if len(alsoCov) > 0 {
			cov["further_configurations"] = alsoCov
		}
		if len(census) > 0 {
			cov["seam_census"] = census
		}
		if len(samples) == 0 {
			cov["samples"] = []string{"(no run was non-trivial)"}
		}
		if *covOut != "" {
			cov["assumptions"] = c.Assumptions
			cb, _ := json.Marshal(cov)
			os.WriteFile(*covOut, cb, 0o644)
		}
		if !*noEvidence {
			ev := map[string]any{
				"property_id": id, "tier": *tier, "seed": seed, "level": c.Level,
				"coverage": cov, "assumptions": c.Assumptions, "wall_s": wall, "violations": nViol,
			}
			b, _ := json.MarshalIndent(ev, "", " ")
			os.MkdirAll(filepath.Join(verifDir, "evidence"), 0o755)
			if err := os.WriteFile(filepath.Join(verifDir, "evidence", id+".json"), b, 0o644); err != nil {
				die(2, "%v", err)
			}
		}
	}
	fmt.Printf("%s %s: %d runs, %d distinct non-trivial, %d interleavings, %d known-finding signatures, %d new; build %.0fs run %.0fs\n",
		id, *tier, len(recs), len(keys), len(fps), len(knownHit), len(newSigs), buildS, runS)
	return exit
}

// raceSig names a race by the functions of the two conflicting accesses.
func raceSig(rep string) string {
	var fns []string
	lines := strings.Split(rep, "\n")
	for i, l := range lines {
		t := strings.TrimSpace(l)
		if (strings.HasPrefix(t, "Write at") || strings.HasPrefix(t, "Read at") || strings.HasPrefix(t, "Previous write at") || strings.HasPrefix(t, "Previous read at")) && i+1 < len(lines) {
			f := strings.TrimSpace(lines[i+1])
			if k := strings.IndexByte(f, '('); k > 0 {
				f = f[:k]
			}
			if k := strings.LastIndexByte(f, '/'); k >= 0 {
				f = f[k+1:]
			}
			fns = append(fns, f)
		}
	}
	sort.Strings(fns)
	return strings.Join(fns, "+")
}

func flagSet(fs *flag.FlagSet, name string) bool {
	set := false
	fs.Visit(func(f *flag.Flag) {
		if f.Name == name {
			set = true
		}
	})
	return set
}

func firstLines(s string, n int) string {
	lines := strings.Split(s, "\n")
	if len(lines) > n {
		lines = append(lines[:n], "…")
	}
	return strings.Join(lines, "\n  ")
}
