#!/bin/sh
# Builds the verification framework from files on disk only (offline).
set -e
export GOFLAGS=-mod=mod GOPROXY=off GOSUMDB=off GOTOOLCHAIN=local
export PATH=/opt/veriftools/go1.26.8/bin:$PATH
cd /verif
mkdir -p bin evidence replays
(cd tools && go build -o /verif/bin/verif ./verif && go build -o /verif/bin/simgen ./simgen)
# the machinery's own self-tests (scheduler determinism, map order, vsim, models)
(cd lib && go test -count=1 ./... >/verif/bin/selftest.log 2>&1) || { cat /verif/bin/selftest.log; echo "self-tests failed"; exit 1; }
echo "setup ok"
