#!/bin/sh
# Builds the verification framework from files on disk only (offline).
set -e
export GOFLAGS=-mod=mod GOPROXY=off GOSUMDB=off GOTOOLCHAIN=local
export PATH=/opt/veriftools/go1.26.8/bin:$PATH
cd /verif
mkdir -p bin evidence replays
(cd tools && go build -o /verif/bin/verif ./verif && go build -o /verif/bin/simgen ./simgen)
# the machinery's own self-tests (scheduler determinism and replay, map order, vsim, simdisk, reference models)
(cd lib && go test -count=1 ./... >/verif/bin/selftest.log 2>&1) || { cat /verif/bin/selftest.log; echo "self-tests failed"; exit 1; }
# informational (never fatal): the repository's own tests still pass on the instrumented copy with no simulation active
(
  W=/var/tmp/verif-work/selftest
  rm -rf $W; mkdir -p $W
  rsync -a --exclude .git /repo/ $W/src/ && /verif/bin/simgen -dir $W/src >/dev/null 2>&1 && cd $W/src && cp /repo/go.sum . 2>/dev/null
  go test -vet=off -count=1 ./pkg/basm ./pkg/bmline ./pkg/bmnumbers ./pkg/bmreqs ./pkg/bmserialize ./pkg/bmstack ./pkg/bondgo ./pkg/bondmachine ./pkg/procbuilder ./pkg/simbox 2>&1 | grep -E "^(ok|FAIL|--- FAIL)" > /verif/bin/selftest-instrumented.log
  rm -rf $W
) || true
echo "setup ok"
